"""Family "coa" (C15): CoA / Disconnect requests are acted on only if authentic.

Flow = generic table_check (build -> TLC on CoaAuthDesign (also writes the abstract datagram classes the
explorer concretises) -> explorer delivers the datagram corpus to the real listener in a child process
-> TLC walks the chains with CoaAuth as monitor -> replay of every violation group in a fresh child
process -> known findings -> evidence), followed by adding the explorer's corpus statistics to the evidence."""
import json, os
from tablecheck import table_check
import vcheck

WATCH = ["Forged", "SpuriousResponse", "AuthenticIgnored", "AllOrNothing", "RespId", "RespAuth", "Crash"]


def _sig_extra(sig):
    last = sig["events"][-1] if sig["events"] else {}
    # one report per (clauses, abstract class of the offending datagram). A crash of the listener process is
    # replayed as that single datagram in a fresh process (DESIGN 5.1); anything else with the whole chain up
    # to the offending datagram (an implementation may be history dependent even though the contract is not).
    sig_events = sig["events"]
    if last.get("crashed") and sig["clauses"] == ["Crash"]:
        sig_events = [last]
    return dict(group_extra=last.get("class", ""), witness_key=last.get("class", ""), events=sig_events,
                msg=("%s datagram (%s, %d bytes, declared %s, code %s): %s" % (
                    last.get("class"), last.get("kind"), last.get("len", -1), last.get("declared"), last.get("code"),
                    last.get("note") or ("hcalls=%s effects=%s responses=%s" % (last.get("hcalls"), last.get("effects"), json.dumps(last.get("resps")))))))


def runner(prop, fam, tier, seed, replay=None):
    rc = table_check(prop, fam, tier, seed, replay)
    if rc == 2:
        return rc
    # corpus statistics of the last explorer run (kept by vcheck.cleanup under .work/last-<prop>/)
    try:
        sp = os.path.join(vcheck.WORK, "last-" + prop, "explore__stats.json")
        ep = vcheck.evidence_path(prop)
        st = json.load(open(sp))
        ev = json.load(open(ep))
        st.pop("panics", None)
        ev["coverage"]["corpus"] = st
        if st.get("circuit_breaker_tripped"):
            ev["coverage"]["note"] = "listener died or fell silent on many datagrams: the rest of the corpus was skipped (see skipped_events)"
        tmp = ep + ".tmp%d" % os.getpid()
        json.dump(ev, open(tmp, "w"), indent=1, sort_keys=True)
        os.replace(tmp, ep)
    except Exception as e:  # evidence decoration only; the verdict stands
        vcheck.log("corpus statistics not added to evidence: %s" % e)
    return rc


CHECKS = {
    "C15": dict(
        pkg="./coa", test="TestExplore", spec_dir="CoaAuth", impl_module="CoaAuthImpl", runner=runner,
        design=[("CoaAuthDesign", "MC_design.cfg", 8), ("CoaAuthDesign", "MC_listener.cfg", 8)],
        watch=WATCH, sig_extra=_sig_extra, nsubs=0,
        tlc_timeout=2400, explore_timeout=2400,
        assumptions=[
            "trusted base: the harness's own MD5 computation of the Request / Response Authenticator and its strict attribute walk (harness/coa/dgram.go classify, respVerifies)",
            "observation protocol: the datagram is sent from socket A, then a correctly signed sentinel CoA-Request (unknown session) from socket B; when B is answered the listener has finished "
            "with the datagram (the child process is pinned to one CPU, loopback delivery is FIFO per CPU); everything queued on A is a response to the datagram, every handler invocation "
            "that is not the sentinel's is attributed to it",
            "a listener that does not answer two sentinels within 1.5 s each is reported as dead (clause Crash)",
            "'acted on iff authentic' is demanded for codes 40 and 43; an authentic packet with another code must cause neither a handler call nor a response",
            "authentic requests whose attribute area is not a sequence of whole attributes, or whose declared length exceeds 4096, may be acted on or dropped (but handler <=> response, no crash)",
            "handlers are the real radius.CoAProcessor.HandleCoA / HandleDisconnect wrapped to count; effects are calls of the session terminator / policy updater callbacks",
            "the unexported CoAServer.conn is read by reflection to learn the listener's port",
        ],
        explanation="CoaAuth.tla is the decision contract over abstract datagrams [len, declared, code, id, authOK, attrsWF] and observed outcomes; CoaAuthDesign.tla lets TLC enumerate the finite abstract "
                    "datagram space with every outcome the contract accepts and checks the property statement on them (and, in a second run, on the listener algorithm as written), and writes the "
                    "abstract classes the harness concretises into bytes. harness/coa sends every concretised class plus every single-bit flip of header/authenticator/attributes, single-byte attribute "
                    "changes (thorough), truncations, length-field tampering, padding, wrong secrets, every code and identifier and random bytes to the real CoAServer on loopback UDP in a child "
                    "process (every input logged before delivery); CoaAuthImpl.tla walks the resulting chains and judges every event.",
    ),
}

_TEXT = ("TLC decides it twice: (1) the decision contract is model-checked over the complete finite abstract datagram space x every accepted outcome against the property statement, and the same run "
         "generates the abstract classes; (2) the behaviour of the real listener on every concretised class and on ~10^4 (quick) / ~10^5 (thorough) mutated, truncated, re-signed and random datagrams is "
         "walked by TLC with the contract as monitor, every clause evaluated on every datagram. Bounded: the corpus is finite (systematic single-bit / single-byte mutations of a handful of signed "
         "requests, five listener secrets); MD5 forgeries outside it are not searched for.")

MANIFEST = {
    "C15": dict(engine="tlc-table", category="model_checking", design_ref="DESIGN.md section 7 C15", text=_TEXT,
                technique="TLA+ decision contract + TLC enumeration of the abstract datagram space + TLC validation of every datagram event observed on the real CoA listener (loopback UDP, child process)",
                note="trusted: harness MD5 / attribute walk for the abstract classification, sentinel-based observation of silence; a crash of the listener process is attributed to the last logged datagram and "
                     "counts only if it recurs when that single datagram is replayed in a fresh process"),
}
