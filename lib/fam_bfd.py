"""Family "bfd" (extra id X03, not one of the 20 listed properties): the real routing.BFDManager (driven through a
scripted `vtysh` stand-in under testing/synctest virtual time) and routing.HealthChecker.

Flow (on top of the generic table flow of tablecheck.py):
  0. TLC model-checks the implementation-shaped design spec of the code AS FOUND (specs/Bfd/BfdShape.tla,
     Fixed = FALSE: one action per critical section of bfd.go, the status fetch of refreshPeers and its locked second
     half are separate actions).  Each counterexample is a history in the harness' alphabet; the shortest per clause
     set is handed to the explorer (VERIF_EXTRA_CASES) and executed on the real manager as one more chain.
  1. U1: BfdDesign (contract == guarantee stated over the whole history, both directions) and BfdShape with the
     proposed repair (clean) must pass.
  2. generic flow: table extraction + seeded random chains on the real code, TLC monitor walk (BfdImpl), replay, verdict.
"""
import json, os, shutil, sys, time
import vcheck
from vcheck import SPECS, WORK, Infra, log, run_tlc
from tablecheck import table_check

CLAUSES = ["Mirror", "OnlyPollsChange", "UpOnce", "DownOnce", "CacheFollowsConfig", "FrrTold", "RemovedStaysRemoved",
           "PollCadence", "DetectTime", "HcNoEarlyFlip", "HcFlipAtThreshold", "HcCallback"]

SHAPE_CFG = dict(impl="shape", kind="bfd", npeers=1, prestarted=True, nsubs=0)

DESIGN = [("BfdDesign", "MC_design_hc.cfg", 2), ("BfdDesign", "MC_design_removed.cfg", 2), ("BfdDesign", "MC_design_removed2.cfg", 2),
          ("BfdShape", "MC_shape_fixed.cfg", 1)]
DESIGN_THOROUGH = DESIGN + [("BfdDesign", "MC_design_hc_deep.cfg", 4), ("BfdDesign", "MC_design_removed_deep.cfg", 4),
                            ("BfdShape", "MC_shape_fixed_deep.cfg", 1)]


def _design_counterexamples(work):
    """TLC on the design as found; returns [(clauses, events)] shortest per clause set."""
    sd = os.path.join(SPECS, "Bfd")
    cfg = open(os.path.join(sd, "MC_shape_orig.cfg")).read()
    res = run_tlc(sd, "BfdShape", cfg, work, workers=1, timeout=900, name="shape_orig")
    if "Model checking completed" not in res["out"] or "Error:" in res["out"]:
        raise Infra("BfdShape (design as found) did not run to completion:\n" + res["out"][-2000:])
    best = {}
    for line in res["out"].splitlines():
        line = line.strip()
        if not line.startswith('<<"DESIGN-CEX"'):
            continue
        raw = line[line.index(',') + 1:].strip()
        raw = raw[1:raw.rindex('"')].replace('\\"', '"').replace("\\\\", "\\")
        j = json.loads(raw)
        key = tuple(sorted(j["clauses"]))
        if key not in best or (len(j["events"]), json.dumps(j["events"], sort_keys=True)) < (len(best[key]), json.dumps(best[key], sort_keys=True)):
            best[key] = j["events"]
    return res, [(list(k), v) for k, v in sorted(best.items())]


def _design_must_pass(work, module, cfgfile, workers):
    sd = os.path.join(SPECS, "Bfd")
    res = run_tlc(sd, module, open(os.path.join(sd, cfgfile)).read(), work, workers=workers, timeout=1500, name=cfgfile[:-4])
    if "No error has been found" not in res["out"]:
        raise Infra("design spec %s/%s did not pass TLC (a specification problem, not a verdict):\n%s" % (module, cfgfile, res["out"][-3000:]))
    return dict(module=module, cfg=cfgfile, states=res["distinct"], transitions=res["generated"])


def runner(prop, fam, tier, seed, replay=None):
    t0 = time.time()
    pre = os.path.join(WORK, "%s-shape-%d" % (prop, os.getpid()))
    shutil.rmtree(pre, ignore_errors=True)
    os.makedirs(pre)
    try:
        fam2 = dict(fam)
        fam2.pop("runner", None)
        fam2["design"] = []   # run here, concurrently
        shape_info, design_stats = None, []
        if not replay:
            from concurrent.futures import ThreadPoolExecutor
            try:
                with ThreadPoolExecutor(max_workers=3) as ex:
                    f0 = ex.submit(_design_counterexamples, pre)
                    fs = [ex.submit(_design_must_pass, pre, m, c, w) for (m, c, w) in (DESIGN_THOROUGH if tier == "thorough" else DESIGN)]
                    res, cex = f0.result()
                    design_stats = [f.result() for f in fs]
            except Infra as e:
                print("INFRA-FAILURE property=%s %s" % (prop, str(e)[:3000]), flush=True)
                return 2
            for d in design_stats:
                log("design %s/%s: %d distinct states" % (d["module"], d["cfg"], d["states"]))
            cases = [dict(id="cex%d" % i, system="shape", events=evs, cfg=SHAPE_CFG, clauses=cl) for i, (cl, evs) in enumerate(cex)]
            cf = os.path.join(pre, "extra_cases.json")
            json.dump(dict(property=prop, cases=cases), open(cf, "w"))
            env = dict(fam2.get("env", {}))
            env["VERIF_EXTRA_CASES"] = cf
            fam2["env"] = env
            shape_info = dict(module="BfdShape", cfg="MC_shape_orig.cfg", states=res["distinct"], transitions=res["generated"],
                              counterexamples=[dict(clauses=cl, events=[{k: v for k, v in e.items() if v not in (0, "", False) or k == "op"} for e in evs]) for cl, evs in cex],
                              note="counterexamples of the design as found; each is executed on the real manager as chain shape#cex<i> "
                                   "(a history that violates on the real code is reported through the normal VIOLATION / KNOWN-FINDING path)")
            log("design as found: %d counterexample histories (%s)" % (len(cex), "; ".join(",".join(c) for c, _ in cex)))
        try:
            rc = table_check(prop, fam2, tier, seed, replay)
        except Exception:   # a crash of the driver is never a verdict
            import traceback
            print("INFRA-FAILURE property=%s driver exception: %s" % (prop, traceback.format_exc()[-2000:]), flush=True)
            return 2
        if shape_info is not None:
            p = vcheck.evidence_path(prop)
            try:
                ev = json.load(open(p))
                ev["coverage"]["original_design_model"] = shape_info
                ev["coverage"]["design_runs"] = design_stats
                ev["coverage"]["states"] += shape_info["states"] + sum(d["states"] for d in design_stats)
                ev["coverage"]["transitions"] += shape_info["transitions"] + sum(d["transitions"] for d in design_stats)
                ev["wall_s"] = round(time.time() - t0, 2)
                tmp = p + ".tmp%d" % os.getpid()
                json.dump(ev, open(tmp, "w"), indent=1, sort_keys=True)
                os.replace(tmp, p)
            except Exception:
                pass
        return rc
    finally:
        shutil.rmtree(pre, ignore_errors=True)


CHECKS = {
    "X03": dict(
        runner=runner,
        pkg="./bfd", test="TestExplore", spec_dir="Bfd", impl_module="BfdImpl",
        design=DESIGN,
        watch=CLAUSES,
        cfg_extra="INVARIANT GhostTracks\n",
        assumptions=[
            "scope: routing.BFDManager is a client of FRR's bfdd (vtysh), it does not implement the RFC 5880 automaton; the RFC state table, the three-way "
            "handshake, the detection timer and discriminator uniqueness are properties of bfdd and are NOT checked here. What is checked is the manager's own "
            "contract (mirror, callbacks, configuration, removal, poll cadence, DetectionTime) and routing.HealthChecker's hysteresis",
            "FRR is the harness: BFDConfig.VtyshPath points at a stand-in executable (C, built at run time; shell fallback) that logs every command, answers "
            "'show bfd peers json' from the harness' peer table, fails on demand and can keep its answer back (the window between GetPeerStatus and the locked half "
            "of refreshPeers). The real os/exec path of BFDManager.vtysh runs; no hook in /repo",
            "virtual time: every manager lives in its own testing/synctest bubble, MonitorInterval = 5 s; harness actions happen half an interval away from the "
            "monitor ticks; while a stand-in process runs bubble time stands still, so wall-clock speed never influences a result (only bound: a held poll must "
            "reach the stand-in within 8 s of wall clock, otherwise the step reports no fetch and the replay check decides)",
            "callbacks are observed after synctest.Wait(), i.e. once every callback goroutine of the step has run; their order within one step is discarded",
            "poll.ok means FRR answered the status command with valid JSON (an environment fact), not that refreshPeers returned nil",
            "fingerprint = all fields of BFDManager by reflection (UpCount/DownCount and the per-instance vtysh paths skipped) + FRR table + raised flags + run "
            "state + held snapshot; HealthChecker: state and both hysteresis counters per target saturated at the thresholds; adequacy re-checked on re-reached nodes",
            "every explorer job (one table or one batch of chains) runs in its own process, bubbles of one process strictly one after the other "
            "(go1.25.0 synctest is not safe with bubbles on several Ps)",
            "HealthChecker is driven through CheckAll with a scripted RoutingPlatform.Ping; the tcpPing fallback (platform == nil) is not exercised",
        ],
        explanation="Bfd.tla (contract: what an observer of the manager and of FRR may rely on) is model-checked against the guarantees stated over whole histories "
                    "(BfdDesign); BfdShape models bfd.go's critical sections (as found: TLC finds the resurrection of a removed peer by a poll that fetched its "
                    "status before the removal; with the proposed repair: clean). BfdImpl walks the transition tables extracted from the real BFDManager / "
                    "HealthChecker (closed under their alphabets), seeded random chains and the design counterexamples replayed on the real code.",
    ),
}
