"""Family "acct" (C08): every started session is accounted to a Stop, across outages and crashes.

Decided by TLC twice:
  U1  specs/Acct/Acct.tla  - the design of pkg/radius/accounting.go, one action per persistence/transmit step,
      judged by the contract AcctContract; TLC proves the clauses that hold, produces counterexample runs for the
      ones that do not (those runs are replayed on the real code), checks the liveness property, and shows that a
      write-through queue design meets all of it; specs/Acct/AcctDesign.tla cross-checks the contract's ghost
      bookkeeping against history-based statements of the property.
  U3  specs/Acct/AcctImpl.tla - walks the runs observed on the REAL radius.AccountingManager + radius.Client against a
      UDP RADIUS peer on loopback (harness/acct): histories x per-record refusal scripts x one crash at every
      crash-point hit (x a second crash in the thorough tier), every observed event judged by the contract.
Verdicts come only from U3 (the real code's behaviour as judged by TLC)."""
import json, os, sys, time, collections, concurrent.futures
from vcheck import *
from tablecheck import cfg_impl, Bundle

CLAUSES = ["EventuallyStopped", "StopAfterStart", "NoPhantomStop", "NoDupStopWithinIncarnation", "IdentifiersOwn", "CountersExact"]
IMPL = "AccountingManager"
SPEC_DIR = "Acct"
REPLAY_COPIES = 10       # a violation may depend on Go's map-iteration / select order inside the manager
REPLAY_ROUNDS = 3
MAX_INCONCLUSIVE = 0.10  # fraction of runs that may be dropped for timing reasons before the check refuses to answer

# (cfg file, workers, tiers) - must pass ("No error has been found")
DESIGN_PASS = [
    ("AcctDesign", "MC_contract.cfg", 4, ("quick", "thorough")),
    ("Acct", "MC_code_holds_small.cfg", 4, ("quick", "thorough")),
    ("Acct", "MC_code_holds_1s2c.cfg", 4, ("quick", "thorough")),
    ("Acct", "MC_durable_live.cfg", 4, ("quick", "thorough")),
    ("Acct", "MC_code_holds.cfg", 8, ("thorough",)),
    ("AcctDesign", "MC_contract_len5.cfg", 4, ("thorough",)),
    ("AcctDesign", "MC_contract_len6.cfg", 8, ("thorough",)),
    ("AcctDesign", "MC_contract2.cfg", 8, ("thorough",)),
    ("Acct", "MC_code_nodup_2s.cfg", 8, ("thorough",)),
]
# clause -> cfg: TLC is EXPECTED to find a counterexample run of the design (or to pass once the code is repaired)
DESIGN_CEX = [
    ("EventuallyStopped", "MC_code_cex_EventuallyStopped.cfg"),
    ("StopAfterStart", "MC_code_cex_StopAfterStart.cfg"),
    ("NoDupStopWithinIncarnation", "MC_code_cex_NoDup.cfg"),
]
DESIGN_LIVE = ("Acct", "MC_code_live.cfg")

ASSUMPTIONS = [
    "RADIUS unreachable = the request is not received and not answered; an accepted request is always acknowledged (DESIGN.md section 6); runs in which the harness cannot establish this (reply later than the client timeout, scheduler stall) are dropped as inconclusive, never judged",
    "any restart of the manager (crash or graceful Stop + new instance) ends the incarnation; duplicate Stops are only forbidden within one incarnation (DESIGN.md section 6)",
    "accounting 'was started' for a session when StartSession returned nil; a session is 'over' when StopSession returned nil or the incarnation holding it ended; the liveness clause is judged at quiescence (queue drained, processor idle for more than one retry tick); a Stop that is only on disk then excuses a session solely 'while the server stays down', i.e. if the peer would still refuse the next Stop of that session",
    "watchdog: an API call of the manager (StartSession, StopSession, interim, Stop()) that has not returned after 20 s of real time (the code's own timeouts bound a call by about 6 s; windows with more than 5 s of recorded scheduler stalls are dropped as inconclusive) is recorded as the event 'hang' once the retry queue has drained, and ends the run: absent a crash nothing further can happen, so the sessions that are over - plus the session whose StopSession is the blocked call, or all live sessions if Stop() is the blocked call - must have their Stop accepted by then. The call runs on its own goroutine and the blocked incarnation is abandoned; that a call returns is not required as such",
    "within the retry budget = no record kind is refused more than MaxRetries times in the run; otherwise EventuallyStopped is waived for that run (safety clauses are still judged)",
    "a crash is: snapshot of the persistence directory at the crash-point marker + the incarnation's peer socket stops answering + a new manager on the snapshot; os.WriteFile is treated as atomic (no torn files)",
    "the pending-record processor is scheduled by the harness through the proc.begin marker (one processPendingRecord per 'pump'; free-running during graceful Stop and in the final phase); API calls are sequential",
    "interim updates are triggered through the verif hook VerifSendInterim (the 10 s interim ticker is bypassed), the 1 s retry ticker is the real one",
    "trusted decoding: Accounting-Request attributes -> session index / 16-bit limbs by layeh.com/radius in harness/acct/peer.go",
    "CountersExact accepts any value the counter source has reported for the session so far, or zero (which value a record must carry after a crash is not stated by the property)",
]
EXPLANATION = ("AcctContract.tla states the property as a monitor over observed runs (API calls, records accepted/refused by the RADIUS peer, crash/boot markers, quiescence "
               "with the persistence-directory contents). Acct.tla models the design of accounting.go step by step and is judged by that same contract under TLC; its counterexample "
               "runs are replayed on the real code. AcctImpl.tla walks the runs recorded from the real AccountingManager/Client against a scripted UDP RADIUS peer - one crash "
               "injected at every crash-point hit of every base history - and evaluates every clause at every event.")


def _events(bundle, v):
    return bundle.events(v["system"], v["path"])


def _tags(evs, detail=None):
    """descriptive shape of a witness (for grouping and for matching known findings; not a verdict)"""
    tags = set()
    if detail and detail.get("unaccounted") and set(detail["unaccounted"]) <= set(detail.get("stopRefused") or []):
        tags.add("lost-stop-was-refused")  # every unaccounted session had its Stop refused (hence queued) before
    crashed = False
    for e in evs:
        op = e.get("op")
        if op == "crash":
            tags.add("crash@" + e.get("point", "?"))
            crashed = True
        elif op == "call" and e.get("call") == "graceful":
            tags.add("graceful")
        elif op == "drop":
            tags.add("%s-refused" % e.get("typ"))
        elif op == "hang":
            tags.add("hang@%s" % e.get("call", "?"))
    tags.add("crashed" if crashed else "nocrash")
    last = evs[-1] if evs else {}
    if last.get("op") in ("recv", "drop") and "sid" in last:
        for e in evs[:-1]:
            if e.get("op") == "drop" and e.get("sid") == last["sid"]:
                tags.add("%s-refused-this" % e.get("typ"))
    return tags


def _sig(bundle, v, clause):
    evs = _events(bundle, v)
    cfg = bundle.cfg(v["system"])
    spec = json.loads(cfg["spec"])
    tags = _tags(evs, v.get("detail"))
    return dict(impl=IMPL, system=v["system"], clauses=[clause], last_op=(evs[-1].get("op") if evs else "init"),
                ops=sorted(tags), spec=spec, nevents=len(evs), origin=cfg.get("origin", ""),
                cost=(len(spec.get("crashes") or []), len(spec.get("events") or []), sum((spec.get("fail") or {}).values())))


def _case(cid, spec):
    return dict(id=cid, system=IMPL, nsubs=spec.get("nsess", 2), events=spec.get("events", []),
                cfg=dict(spec=json.dumps(dict(spec, id=cid)), origin=spec.get("origin", "")))


def _run_impl(work, bundle_path, name, shards=1):
    """TLC on AcctImpl over the bundle (sharded: chains are independent)."""
    b = json.load(open(bundle_path))
    systems = b["systems"]
    if not systems:
        return dict(distinct=0, generated=0, wall=0.0), []
    shards = max(1, min(shards, len(systems)))
    parts = [systems[i::shards] for i in range(shards)]
    paths = []
    for i, p in enumerate(parts):
        pp = os.path.join(work, "%s_shard%d.json" % (name, i))
        json.dump(dict(systems=p), open(pp, "w"))
        paths.append(pp)

    def one(i):
        res = run_tlc(os.path.join(SPECS, SPEC_DIR), "AcctImpl", cfg_impl(CLAUSES), work, files={paths[i]: "bundle.json"},
                      workers=1, timeout=2400, name="%s_%d" % (name, i))
        err = tlc_error(res)
        if err:
            raise Infra("TLC failed on %s shard %d:\n%s" % (name, i, err))
        if not res["completed"]:
            raise Infra("TLC did not complete on %s shard %d" % (name, i))
        return res, parse_violations(res["out"])

    with concurrent.futures.ThreadPoolExecutor(max_workers=min(8, shards)) as ex:
        outs = list(ex.map(one, range(shards)))
    tot = dict(distinct=sum(r["distinct"] for r, _ in outs), generated=sum(r["generated"] for r, _ in outs), wall=max(r["wall"] for r, _ in outs))
    viols = [v for _, vs in outs for v in vs]
    # every chain must have been walked to its end: states = sum(len(chain)+1)
    want = sum(len(s["nodes"]) for s in systems)
    if tot["distinct"] != want:
        raise Infra("TLC walked %d states but the bundle has %d (runs not fully consumed)" % (tot["distinct"], want))
    return tot, viols


def _cex_to_spec(cex, clause, budget=2):
    ops, crashes = [], []
    for h in cex["hist"]:
        if h[0] == "crash":
            crashes.append(dict(point=h[1], hit=int(h[2])))
        elif h[0] in ("start", "stop"):
            ops.append(dict(op=h[0], sid=int(h[1])))
        else:
            ops.append(dict(op=h[0]))
    fail = {"%s:%d" % (t, int(s)): int(n) for (t, s, n) in cex.get("script", [])}
    nsess = max([o.get("sid", 1) for o in ops] + [1])
    fail = {k: n for k, n in fail.items() if int(k.split(":")[1]) <= nsess}
    return dict(nsess=nsess, budget=budget, events=ops, fail=fail, crashes=crashes, origin="tlc-cex:" + clause)


CEX_RE = re.compile(r'<<"CEX", "(.*)">>\s*$')


def _design_pass(tier, work):
    """must-pass TLC configurations, run concurrently"""
    sd = os.path.join(SPECS, SPEC_DIR)
    todo = [(m, c, w) for (m, c, w, tiers) in DESIGN_PASS if tier in tiers]

    def one(job):
        module, cfgfile, workers = job
        res = run_tlc(sd, module, open(os.path.join(sd, cfgfile)).read(), work, workers=workers, timeout=1500, name=cfgfile[:-4])
        if "No error has been found" not in res["out"]:
            raise Infra("design spec %s/%s did not pass TLC (a specification problem, not a verdict):\n%s" % (module, cfgfile, res["out"][-3000:]))
        log("design %s/%s: holds, %d distinct states (%.0fs)" % (module, cfgfile, res["distinct"], res["wall"]))
        return dict(module=module, cfg=cfgfile, states=res["distinct"], transitions=res["generated"], result="holds", wall_s=round(res["wall"], 1))

    with concurrent.futures.ThreadPoolExecutor(max_workers=4) as ex:
        return list(ex.map(one, todo))


def _design_cex(work):
    """configurations in which TLC is expected to find a counterexample run of the design (or to pass once the
    code is repaired), and the liveness check of the design of the code as it is; run concurrently"""
    sd = os.path.join(SPECS, SPEC_DIR)

    def one(job):
        i, clause, cfgfile = job
        res = run_tlc(sd, "Acct", open(os.path.join(sd, cfgfile)).read(), work, workers=4, timeout=1500, name=cfgfile[:-4])
        o = res["out"]
        st = dict(module="Acct", cfg=cfgfile, states=res["distinct"], transitions=res["generated"], wall_s=round(res["wall"], 1))
        if clause == "Live":
            if "Temporal property Live was violated" in o or "Temporal properties were violated" in o:
                live = "violated"
            elif "No error has been found" in o:
                live = "holds"
            else:
                raise Infra("design spec Acct/%s: unexpected TLC outcome:\n%s" % (cfgfile, o[-3000:]))
            log("design Acct/%s: liveness (session over ~> Stop accepted) %s in the design of the code as it is" % (cfgfile, live))
            return dict(st, result="liveness " + live), None, None, live
        if "No error has been found" in o:
            log("design Acct/%s: %s holds in the design (%d states)" % (cfgfile, clause, res["distinct"]))
            return dict(st, result="holds"), None, dict(clause=clause, design="holds"), None
        if "Invariant Clean is violated" not in o:
            raise Infra("design spec Acct/%s: unexpected TLC outcome:\n%s" % (cfgfile, o[-3000:]))
        cexs = []
        for line in o.splitlines():
            m = CEX_RE.search(line.strip())
            if m:
                cexs.append(json.loads(m.group(1).replace('\\"', '"').replace("\\\\", "\\")))
        if not cexs:
            raise Infra("design spec Acct/%s: violation without a printed run" % cfgfile)
        cexs.sort(key=lambda c: (len(c["hist"]), json.dumps(c, sort_keys=True)))
        spec = _cex_to_spec(cexs[0], clause)
        cid = "x%d" % i
        log("design Acct/%s: counterexample for %s: %s" % (cfgfile, clause, json.dumps(cexs[0]["hist"])))
        return dict(st, result="counterexample"), _case(cid, spec), dict(clause=clause, design="counterexample", run=cexs[0], case=cid), None

    jobs = [(i, c, f) for i, (c, f) in enumerate(DESIGN_CEX)] + [(99, "Live", DESIGN_LIVE[1])]
    with concurrent.futures.ThreadPoolExecutor(max_workers=4) as ex:
        outs = list(ex.map(one, jobs))
    stats = [o[0] for o in outs]
    cases = [o[1] for o in outs if o[1]]
    info = [o[2] for o in outs if o[2]]
    live = [o[3] for o in outs if o[3]][0]
    return stats, cases, info, live


def _nontrivial(bundle):
    """distinct (abstract prefix, event) pairs over all runs; abstract = (op, call/typ, sid, point, ok, durable)"""
    seen = set()
    nev = 0
    for s in bundle.b["systems"]:
        pre = ()
        for es in s["edges"]:
            for e in es:
                ev = e["ev"]
                if ev.get("op") in ("sched", "fetch", "boot"):
                    continue
                a = (ev.get("op"), ev.get("call") or ev.get("typ") or ev.get("point") or "", ev.get("sid", 0), ev.get("ok", True), tuple(ev.get("durable") or ()))
                pre = pre + (a,)
                nev += 1
                seen.add(hash(pre))
    return len(seen), nev


def _samples(bundle, n=3):
    out = []
    pick = [s for s in bundle.b["systems"] if s["cfg"].get("fired")][:2] + [s for s in bundle.b["systems"] if not s["cfg"].get("fired")][:1]
    for s in pick[:n]:
        evs = []
        for es in s["edges"]:
            for e in es:
                ev = dict(e["ev"])
                for k in ("in_lo", "in_gw", "out_lo", "out_gw", "mac", "ip", "port", "class"):
                    ev.pop(k, None)
                evs.append(ev)
        spec = json.loads(s["cfg"]["spec"])
        out.append(dict(run=s["name"], history=spec.get("events"), refusals=spec.get("fail"), crashes=spec.get("crashes"), observed=evs[:40]))
    return out


def runner(prop, fam, tier, seed, replay=None):
    t0 = time.time()
    work = workdir(prop)
    known = load_known()
    try:
        return _check(prop, fam, tier, seed, replay, work, known, t0)
    except Infra as e:
        print("INFRA-FAILURE property=%s %s" % (prop, str(e)[:3000]), flush=True)
        return 2
    finally:
        if not os.environ.get("VERIF_KEEP"):
            cleanup(work)


def _explore(binp, outdir, tier, seed, env):
    run_explorer(binp, "TestExplore", outdir, tier, seed, env, timeout=1500)
    stats = json.load(open(os.path.join(outdir, "stats.json")))
    if stats.get("panics"):
        raise Infra("harness panic: %s" % stats["panics"][:3])
    runs = stats.get("runs", 0)
    if runs == 0:
        raise Infra("explorer produced no runs")
    if stats.get("inconclusive", 0) > MAX_INCONCLUSIVE * runs:
        raise Infra("too many inconclusive runs (%d of %d): %s - the machine is too loaded for the real-time part of this check" % (stats["inconclusive"], runs, stats.get("inconclusive_by")))
    return stats


def _check(prop, fam, tier, seed, replay, work, known, t0):
    binp = build_harness("./acct", work)
    design_stats, cex_cases, cex_info, live = [], [], [], None
    env = {"VERIF_PROP": prop}
    outdir = os.path.join(work, "explore")
    if replay:
        env["VERIF_REPLAY"] = os.path.abspath(replay)
    else:
        design_stats, cex_cases, cex_info, live = _design_cex(work)
        if cex_cases:
            xf = os.path.join(work, "cex_cases.json")
            json.dump(dict(property=prop, cases=cex_cases), open(xf, "w"))
            env["VERIF_EXTRA"] = xf
    # the explorer is real-time (1 s retry ticker, sub-second client timeout): it runs alone, never next to our own TLC jobs
    try:
        stats = _explore(binp, outdir, tier, seed, env)
    except Infra as e:
        if "inconclusive" not in str(e):
            raise
        log("explorer: %s - one more attempt" % str(e)[:200])
        time.sleep(5)
        stats = _explore(binp, outdir, tier, seed, env)
    pool = concurrent.futures.ThreadPoolExecutor(max_workers=1)
    fut = None if replay else pool.submit(_design_pass, tier, work)   # must-pass design runs, concurrently with TLC on the observed runs
    bpath = os.path.join(outdir, "bundle.json")
    bundle = Bundle(bpath)
    nsys = len(bundle.b["systems"])
    try:
        res, viols = _run_impl(work, bpath, "impl", shards=(4 if nsys < 1000 else 8))
        log("impl TLC: %d runs, %d states, %d violating events" % (nsys, res["distinct"], len(viols)))
        if fut is not None:
            design_stats = design_stats + fut.result()
    finally:
        pool.shutdown(wait=True)

    # one signature per (run, clause); the earliest violating event of that clause in the run
    per, counts = {}, collections.Counter()
    for v in viols:
        for c in v["clauses"]:
            k = (v["system"], c)
            if k not in per or len(v["path"]) < len(per[k]["path"]):
                per[k] = v
    groups = {}
    for (sysname, clause), v in sorted(per.items()):
        sig = _sig(bundle, v, clause)
        f = match_known(known, prop, sig)
        sig["known"] = f
        key = ("known", f["id"]) if f else ("new", clause, tuple(t for t in sig["ops"] if t.startswith("crash@") or t in ("graceful", "nocrash")))
        if key not in groups or sig["cost"] < groups[key]["cost"]:
            groups[key] = sig
        counts[key] += 1

    # which design counterexamples did the real code reproduce?
    for ci in cex_info:
        if ci.get("case"):
            name = IMPL + "#" + ci["case"]
            ci["reproduced_on_real_code"] = (name, ci["clause"]) in per
            ci["real_run_conclusive"] = name in bundle.by_name
            log("design counterexample for %s %s on the real code" % (ci["clause"], "REPRODUCED" if ci["reproduced_on_real_code"] else "did not reproduce"))

    # confirm every group's witness on fresh objects
    new, knownhits = [], []
    pending = dict(groups)
    for rnd in range(REPLAY_ROUNDS):
        if not pending:
            break
        cases = []
        for gi, (key, sig) in enumerate(sorted(pending.items(), key=lambda kv: str(kv[0]))):
            sig["gid"] = "r%d" % gi
            for c in range(REPLAY_COPIES):
                cases.append(_case("r%d_%d" % (gi, c), sig["spec"]))
        rfile = os.path.join(work, "replay_cases_%d.json" % rnd)
        json.dump(dict(property=prop, cases=cases), open(rfile, "w"))
        routdir = os.path.join(work, "replay%d" % rnd)
        _explore(binp, routdir, tier, seed, {"VERIF_PROP": prop, "VERIF_REPLAY": rfile})
        rb = os.path.join(routdir, "bundle.json")
        _, rviols = _run_impl(work, rb, "replay%d" % rnd, shards=1 if len(cases) < 500 else 4)
        got = collections.defaultdict(set)
        for v in rviols:
            got[v["system"].split("#")[-1].split("_")[0]] |= set(v["clauses"])
        for key, sig in list(pending.items()):
            if set(sig["clauses"]) & got.get(sig["gid"], set()):
                del pending[key]
    if pending:
        key, sig = sorted(pending.items(), key=lambda kv: str(kv[0]))[0]
        raise Infra("violation %s on %s did not reproduce in %d fresh runs (spec=%s)" % (sig["clauses"], sig["system"], REPLAY_COPIES * REPLAY_ROUNDS, json.dumps(sig["spec"])[:1500]))
    for key, sig in sorted(groups.items(), key=lambda kv: str(kv[0])):
        if sig["known"]:
            knownhits.append((sig["known"], sig, counts[key]))
        else:
            new.append((sig, counts[key]))

    for f, sig, n in knownhits:
        print("KNOWN-FINDING: property=%s %s [%s] (%d runs; witness %s: history %s, refusals %s, crashes %s)" % (
            prop, f["what"], f["id"], n, sig["system"], json.dumps(sig["spec"].get("events")), json.dumps(sig["spec"].get("fail")), json.dumps(sig["spec"].get("crashes"))), flush=True)
    rc = 0
    for sig, n in new:
        cases = [_case("r0_%d" % c, sig["spec"]) for c in range(REPLAY_COPIES)]
        rp = write_replay(prop, IMPL + "-" + "-".join(sig["clauses"]), dict(property=prop, cases=cases, clauses=sig["clauses"], shape=sig["ops"],
                                                                              note="the case is repeated because a violation may depend on map-iteration/select order inside the manager"))
        print("VIOLATION property=%s replay=%s clauses=%s impl=%s last_op=%s shape=%s runs=%d" % (prop, rp, ",".join(sig["clauses"]), IMPL, sig["last_op"], "+".join(sig["ops"]), n), flush=True)
        rc = 1

    nontriv, nev = _nontrivial(bundle)
    cov = dict(
        states=res["distinct"] + sum(d["states"] for d in design_stats),
        transitions=res["generated"] + sum(d["transitions"] for d in design_stats),
        traces_validated_against_impl=nsys,
        samples=_samples(bundle, 3),
        evaluations=stats.get("events", 0),
        distinct_nontrivial=nontriv,
        rule="every run is one history executed on the real AccountingManager + Client against the harness' UDP RADIUS peer; evaluations = observed events of conclusive runs "
             "(API calls/returns, records accepted or refused by the peer, counter fetches, crash/boot markers, quiescence observations); distinct_nontrivial = distinct "
             "(abstract prefix, event) pairs, abstract = (event kind, call/record type/crash point, session, ok, durable set), scheduling and fetch events ignored",
        runs=stats.get("runs"), conclusive_runs=stats.get("conclusive"), inconclusive_runs=stats.get("inconclusive"), inconclusive_by=stats.get("inconclusive_by"),
        base_histories=stats.get("base_histories"), crash_runs=stats.get("crash_runs"), crash_unfired=stats.get("crash_unfired"), double_crash_runs=stats.get("double_crash_runs"),
        crash_points_fired=stats.get("crash_points_fired"), records_accepted=stats.get("records_accepted"), records_refused=stats.get("records_refused"),
        tlc_impl_states=res["distinct"], tlc_impl_transitions=res["generated"],
        design_runs=design_stats, design_counterexamples=cex_info, design_liveness_of_code_as_is=live,
        clauses_watched=CLAUSES, violating_run_clause_pairs=len(per), violation_groups=len(groups),
        known_findings_hit=sorted({f["id"] for f, _, _ in knownhits}), new_violations=len(new),
        exhaustive=False, explanation=EXPLANATION,
    )
    if replay:
        cov["replay_of"] = replay
    write_evidence(prop, tier, seed, "fault_enumeration", cov, ASSUMPTIONS, time.time() - t0, len(new))
    log("done rc=%d wall=%.1fs" % (rc, time.time() - t0))
    return rc


CHECKS = {
    "C08": dict(runner=runner, pkg="./acct", test="TestExplore", spec_dir=SPEC_DIR, impl_module="AcctImpl",
                design=[(m, c, w) for (m, c, w, _) in DESIGN_PASS], watch=CLAUSES, assumptions=ASSUMPTIONS, explanation=EXPLANATION),
}

# for lib/manifest_data.ENGINES (merged by the lead)
ENGINE = dict(name="tlc-acct", path="lib/fam_acct.py", serves_properties=["C08"],
              kind_free_text="TLA+ design model of accounting.go and property contract model-checked by TLC (counterexample runs replayed on the code); runs of the real "
                             "AccountingManager against a scripted UDP RADIUS peer with a crash injected at every crash-point hit are walked by a TLA+ monitor spec under TLC")

MANIFEST = {
    "C08": dict(
        engine="tlc-acct", category="fault_enumeration", design_ref="DESIGN.md section 7 C08",
        text=("TLC decides it on two levels. (1) Acct.tla, a TLA+ model of the design of accounting.go with one action per persistence/transmit step, is model-checked against the "
              "property contract (AcctContract.tla): the clauses the design meets are proved for small constants, for the others TLC produces the shortest counterexample run, "
              "which is replayed on the real code; the liveness property is checked under fairness. (2) The real AccountingManager + Client run against a scripted UDP RADIUS peer: "
              "base histories (canonical + seeded sample of all start/interim/stop/pump/tick/graceful sequences, plus histories with a StopSession for an identifier that is not in the session table) x per-record refusal scripts within the retry budget x ONE CRASH AT "
              "EVERY crash-point hit (a second crash in the thorough tier); every observed event of every run is judged by TLC against the contract. Bounded and, in the history "
              "dimension, sampled: hence fault enumeration, not exhaustive model checking of the code."),
        technique="TLA+ design model + contract under TLC; crash-point/outage fault enumeration on the real manager over loopback UDP, runs validated by TLC (AcctImpl.tla)",
        note="category fault_enumeration because the verdict about the code comes from enumerated crash/outage injections on sampled histories (real time, 1 s retry ticker), while the exhaustive "
             "TLC runs are about the design model; trusted: attribute decoding in the harness peer, crash = directory snapshot + silent peer, TLC; timing artefacts are dropped as inconclusive (exit 2 above 10%)"),
}
