#!/usr/bin/env python3
"""merge_proposal.py <family> [<family>...]: fold proposals/<family>.json into known-findings.json, mark family ready."""
import json, os, sys, re
V = os.path.dirname(os.path.dirname(os.path.abspath(__file__)))
k = json.load(open(os.path.join(V, "known-findings.json")))
md = os.path.join(V, "lib", "manifest_data.py")
s = open(md).read()
for fam in sys.argv[1:]:
    p = os.path.join(V, "proposals", fam + ".json")
    if os.path.exists(p):
        j = json.load(open(p))
        k["findings"] += j.get("findings", [])
        k["fixed"] += j.get("fixed", [])
        k.setdefault("notes", [])
        k["notes"] += j.get("notes", [])
        os.remove(p)
    m = re.search(r"READY_FAMILIES = \[(.*?)\]", s)
    cur = [x.strip().strip('"') for x in m.group(1).split(",") if x.strip()]
    if "fam_" + fam not in cur:
        cur.append("fam_" + fam)
    s = s[:m.start()] + "READY_FAMILIES = [" + ", ".join('"%s"' % c for c in cur) + "]" + s[m.end():]
open(md, "w").write(s)
json.dump(k, open(os.path.join(V, "known-findings.json"), "w"), indent=1)
print("merged", sys.argv[1:])
