#!/usr/bin/env python3
"""Delta-debugging of a replay file: find a short sub-sequence of its events that still violates the same clause.

usage: lib/shrink.py <fam-module>:<FAMDICT> <replay.json> [clause]      e.g.  lib/shrink.py fam_dhcp4:DHCP6 replays/C02/x.json NotOthers

Every candidate is run on the real code (harness replay mode, fresh objects) and judged by the family's TLC monitor;
all candidates of one round go into one harness run + one TLC run. Diagnostic aid only: it produces no verdicts."""
import importlib, json, os, sys, collections
sys.path.insert(0, os.path.dirname(os.path.abspath(__file__)))
import vcheck, tablecheck


def strip(e):
    return {k: v for k, v in e.items() if k in ("op", "c", "u", "s", "id", "kind", "sub", "rid", "hold", "path", "est", "npaths", "arg", "a", "b", "n", "x", "y", "k", "t", "ia", "what", "who", "node", "peer", "m", "v", "key", "val", "phase", "mode", "case", "cause")}


def main():
    modname, famname = sys.argv[1].split(":")
    _m = importlib.import_module(modname)
    fam = getattr(_m, famname) if hasattr(_m, famname) else _m.CHECKS[famname]
    rj = json.load(open(sys.argv[2]))
    case = rj["cases"][0]
    want = set([sys.argv[3]]) if len(sys.argv) > 3 else set(rj.get("clauses", []))
    work = vcheck.workdir("shrink")
    binp = vcheck.build_harness(fam["pkg"], work)
    evs = case["events"]
    rounds = 0

    def run(cands):
        nonlocal rounds
        rounds += 1
        cases = [dict(case, id="k%d" % i, events=c) for i, c in enumerate(cands)]
        rfile = os.path.join(work, "cands%d.json" % rounds)
        json.dump(dict(cases=cases), open(rfile, "w"))
        out = os.path.join(work, "r%d" % rounds)
        env = dict(fam.get("env", {}))
        env["VERIF_REPLAY"] = rfile
        vcheck.run_explorer(binp, fam["test"], out, "quick", 1, env, timeout=1200)
        res, viols = tablecheck._run_impl_tlc(fam, fam["watch"], work, os.path.join(out, "bundle.json"), "r%d" % rounds)
        ok = collections.defaultdict(set)
        for v in viols:
            ok[v["system"].split("#")[-1]] |= set(v["clauses"])
        return [bool(ok.get("k%d" % i, set()) & want) for i in range(len(cands))]

    if not run([evs])[0]:
        print("the full replay does not violate", want)
        return 1
    n = 2
    while len(evs) >= 2:
        size = max(1, len(evs) // n)
        chunks = [(i, min(len(evs), i + size)) for i in range(0, len(evs), size)]
        cands = [evs[:a] + evs[b:] for a, b in chunks]
        # prefixes too: the violating step is often not the last one any more
        res = run(cands)
        hit = [c for c, r in zip(cands, res) if r]
        if hit:
            evs = min(hit, key=len)
            n = max(n - 1, 2)
            print("round %d: %d events" % (rounds, len(evs)), flush=True)
        elif size == 1:
            break
        else:
            n = min(len(evs), n * 2)
    print(json.dumps([{k: v for k, v in e.items() if k not in ("acked",)} for e in evs], indent=None))
    outp = sys.argv[2].replace(".json", ".min.json")
    json.dump(dict(rj, cases=[dict(case, events=evs)]), open(outp, "w"), indent=1)
    print("written", outp)
    vcheck.cleanup(work)
    return 0


if __name__ == "__main__":
    sys.exit(main())
