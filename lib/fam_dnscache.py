"""Family "dnscache" (extra family X06, not one of the 20 listed properties): pkg/dns - the real dns.Cache (TTL bounds,
negative entries, LRU capacity, statistics) and the real dns.Resolver's use of it (overrides before the cache, cache
before upstream, round-robin upstream selection, what is stored, what is handed to the client), under testing/synctest
virtual time with scripted UDP upstreams on loopback.

Flow (on top of the generic table flow of tablecheck.py):
  0. TLC model-checks the implementation-shaped design spec of the code AS FOUND (specs/DnsCache/DnsCacheShape.tla,
     Fixed = FALSE: one operator per function of cache.go / resolver.go).  Each counterexample is a history in the
     harness' alphabet; the shortest per clause set is handed to the explorer (VERIF_EXTRA_CASES) and executed on the
     real resolver as one more chain (shape#cex<i>), judged like everything else.
  1. U1, concurrently: the contract is model-checked against the guarantees stated over absolute histories
     (DnsCacheDesign, modes "cache" and "res": verdicts coincide step by step); the repaired design (Fixed = TRUE) is clean.
  2. generic flow: table extraction until closed + seeded random chains on the real code, TLC monitor walk
     (DnsCacheImpl), replay of every witness on fresh objects, known findings, evidence.

Extra family: no MANIFEST entry."""
import json, os, shutil, sys, time
import vcheck
from vcheck import SPECS, WORK, Infra, log, run_tlc
from tablecheck import table_check

CLAUSES = ["NoStale", "ServedWhileFresh", "TtlAged", "Capacity", "EvictLru", "Retained", "DeleteEffective", "CleanupExact",
           "StatsTrue", "Faithful", "NegativeOnlyNx", "NoPoison", "OverrideWins", "OverrideNotCached", "RoundRobin"]

# must describe the same configuration as Cfg in specs/DnsCache/DnsCacheShape.tla
SHAPE_CFG = dict(impl="shape", kind="res", cap=2, min=1, max=3, neg=2, unit=20, nk=3, nc=2, nup=2, qname=[1, 1, 1], qaddr=[True, False, False],
                 keycheck=True, types=[1, 43, 48], pairs=[[1, 2]], scripts=["ok", "nx", "nxc", "spoofid"], wall=True, rule=True, loop=False,
                 negop=False, delops=False, nsubs=0)

DESIGN = [("DnsCacheDesign", "MC_design_cache.cfg", 2), ("DnsCacheDesign", "MC_design_res.cfg", 2), ("DnsCacheShape", "MC_shape_fixed.cfg", 1)]
DESIGN_THOROUGH = [("DnsCacheDesign", "MC_design_cache.cfg", 2), ("DnsCacheDesign", "MC_design_res.cfg", 2), ("DnsCacheShape", "MC_shape_fixed.cfg", 1),
                   ("DnsCacheDesign", "MC_design_cache_deep.cfg", 4), ("DnsCacheDesign", "MC_design_res_deep.cfg", 4),
                   ("DnsCacheShape", "MC_shape_fixed_deep.cfg", 2)]


def _design_counterexamples(work):
    """TLC on the design as found; returns (tlc result, [(clauses, events)]) - the shortest history per clause set."""
    sd = os.path.join(SPECS, "DnsCache")
    cfg = open(os.path.join(sd, "MC_shape_orig.cfg")).read()
    res = run_tlc(sd, "DnsCacheShape", cfg, work, workers=1, timeout=900, name="shape_orig")
    if "Model checking completed" not in res["out"] or "Error:" in res["out"]:
        raise Infra("DnsCacheShape (design as found) did not run to completion:\n" + res["out"][-2000:])
    best = {}
    for line in res["out"].splitlines():
        line = line.strip()
        if not line.startswith('<<"DESIGN-CEX"'):
            continue
        raw = line[line.index(',') + 1:].strip()
        raw = raw[1:raw.rindex('"')].replace('\\"', '"').replace("\\\\", "\\")
        j = json.loads(raw)
        # histories that differ in the script that exposes them are kept apart (nxc vs the key of unknown types)
        key = (tuple(sorted(j["clauses"])), tuple(sorted({e.get("s") for e in j["events"] if e.get("s") in ("nxc", "spoofid", "spoofq")})))
        evs = j["events"]
        if key not in best or (len(evs), json.dumps(evs, sort_keys=True)) < (len(best[key]), json.dumps(best[key], sort_keys=True)):
            best[key] = evs
    return res, [(list(k[0]), v) for k, v in sorted(best.items())]


def _design_must_pass(work, module, cfgfile, workers):
    sd = os.path.join(SPECS, "DnsCache")
    res = run_tlc(sd, module, open(os.path.join(sd, cfgfile)).read(), work, workers=workers, timeout=2400, name=cfgfile[:-4])
    if "No error has been found" not in res["out"]:
        raise Infra("design spec %s/%s did not pass TLC (a specification problem, not a verdict):\n%s" % (module, cfgfile, res["out"][-3000:]))
    return dict(module=module, cfg=cfgfile, states=res["distinct"], transitions=res["generated"])


def _sig_extra(sig):
    """Known findings are matched on operations qualified by the upstream script (q:<script>) and, for answers from the
    cache, q:hit - so that a finding about one script does not cover another one."""
    ops = set()
    for e in sig.get("events", []):
        ops.add(e.get("op"))
        if e.get("op") == "q":
            ops.add("q:%s" % e.get("s"))
            if e.get("hit"):
                ops.add("q:hit")
    return dict(ops=sorted(o for o in ops if o))


def runner(prop, fam, tier, seed, replay=None):
    t0 = time.time()
    pre = os.path.join(WORK, "%s-shape-%d" % (prop, os.getpid()))
    shutil.rmtree(pre, ignore_errors=True)
    os.makedirs(pre)
    try:
        fam2 = dict(fam)
        fam2.pop("runner", None)
        fam2["design"] = []   # run here, concurrently
        shape_info, design_stats, futures, pool = None, [], [], None
        if not replay:
            from concurrent.futures import ThreadPoolExecutor
            pool = ThreadPoolExecutor(max_workers=4)
            try:
                f0 = pool.submit(_design_counterexamples, pre)
                # U1 and the repaired design run in the background while the real code is explored
                futures = [pool.submit(_design_must_pass, pre, m, c, w) for (m, c, w) in (DESIGN_THOROUGH if tier == "thorough" else DESIGN)]
                res, cex = f0.result()
            except Infra as e:
                pool.shutdown(wait=True)
                print("INFRA-FAILURE property=%s %s" % (prop, str(e)[:3000]), flush=True)
                return 2
            cases = [dict(id="cex%d" % i, system="shape", events=evs, cfg=SHAPE_CFG, clauses=cl) for i, (cl, evs) in enumerate(cex)]
            cf = os.path.join(pre, "extra_cases.json")
            json.dump(dict(property=prop, cases=cases), open(cf, "w"))
            env = dict(fam2.get("env", {}))
            env["VERIF_EXTRA_CASES"] = cf
            fam2["env"] = env
            shape_info = dict(module="DnsCacheShape", cfg="MC_shape_orig.cfg", states=res["distinct"], transitions=res["generated"],
                              counterexamples=[dict(clauses=cl, events=[{k: v for k, v in e.items() if v not in (0, "", False) or k == "op"} for e in evs]) for cl, evs in cex],
                              note="counterexamples of the design as found; each is executed on the real resolver as chain shape#cex<i> "
                                   "(a history that violates on the real code is reported through the normal VIOLATION / KNOWN-FINDING path)")
            log("design as found: %d counterexample histories (%s)" % (len(cex), "; ".join(",".join(c) for c, _ in cex)))
        try:
            rc = table_check(prop, fam2, tier, seed, replay)
        except Exception:   # a crash of the driver is never a verdict
            import traceback
            print("INFRA-FAILURE property=%s driver exception: %s" % (prop, traceback.format_exc()[-2000:]), flush=True)
            rc = 2
        if pool is not None:
            try:
                design_stats = [f.result() for f in futures]
            except Infra as e:
                print("INFRA-FAILURE property=%s %s" % (prop, str(e)[:3000]), flush=True)
                rc = 2
            finally:
                pool.shutdown(wait=True)
            for d in design_stats:
                log("design %s/%s: %d distinct states" % (d["module"], d["cfg"], d["states"]))
        if rc == 2:
            return 2
        if shape_info is not None:
            p = vcheck.evidence_path(prop)
            try:
                ev = json.load(open(p))
                ev["coverage"]["original_design_model"] = shape_info
                ev["coverage"]["design_runs"] = design_stats
                ev["coverage"]["states"] += shape_info["states"] + sum(d["states"] for d in design_stats)
                ev["coverage"]["transitions"] += shape_info["transitions"] + sum(d["transitions"] for d in design_stats)
                ev["wall_s"] = round(time.time() - t0, 2)
                tmp = p + ".tmp%d" % os.getpid()
                json.dump(ev, open(tmp, "w"), indent=1, sort_keys=True)
                os.replace(tmp, p)
            except Exception:
                pass
        return rc
    finally:
        shutil.rmtree(pre, ignore_errors=True)


CHECKS = {
    "X06": dict(
        runner=runner,
        pkg="./dnscache", test="TestExplore", spec_dir="DnsCache", impl_module="DnsCacheImpl",
        design=DESIGN,
        watch=CLAUSES,
        sig_extra=_sig_extra,
        impl_workers=4,
        assumptions=[
            "virtual time: every cache / resolver lives in its own testing/synctest bubble, bubbles strictly one after the other; one unit of the specification's "
            "time = 20 s; TTLs, TTL bounds, the negative TTL and the resolver's one-minute cleanup ticker (3 units) are whole units and the harness advances time by "
            "whole units only, so the code compares instants that are equal or a whole unit apart; the contract leaves the instant age = lifetime open (either answer)",
            "upstreams are scripted UDP servers on 127.0.0.1 living outside the bubbles (a goroutine blocked in a socket read would stop a bubble's clock); Resolve runs "
            "its own Dial/Write/Read unmodified; while it waits for the datagram no virtual time passes; the per-upstream timeout is 30 s of real time and is never "
            "reached by a script (no script stays silent); what an upstream answers is the script installed for the call: ok (two records, TTLs ttl+2 and ttl units), nx, "
            "nxc (NXDOMAIN with a CNAME), nodata, sf (SERVFAIL), junk (unparsable), spoofid / spoofq (a datagram with a wrong id / another question and poison data, "
            "then the genuine answer)",
            "the harness projects answers: data version from the address bytes (10.9.<name>.<version>), 7 = CNAME, 8 = portal address, 9 = poison, 97 = data of another "
            "question; records of types the resolver does not parse (DS, DNSKEY, SPF) reach the client without data and have a single version; TTL = the largest TTL among "
            "the records handed out, in seconds",
            "which keys the cache holds before and after a call is read from the cache's unexported LRU list by reflection (no hook in /repo); an entry is attributed to "
            "the key / question whose call stored it (entry object identity), so two questions sharing one key string are told apart",
            "minimum TTL <= negative TTL <= maximum TTL in every configuration (Cache.Set applies the bounds to negative entries too); rate limiting and DNS64 are off; "
            "a block rule is added only while there is none for the name; the walled-garden portal is 10.8.8.8",
            "statistics are judged as differences per call and are not part of the fingerprint (they influence nothing); fingerprint = LRU list in order with the time "
            "each entry has left (whole units, -1 once expired), its kind, records and the question that stored it + walled-garden clients + rules + round-robin "
            "position modulo the number of upstreams + phase of the cleanup ticker; adequacy re-checked on 20 re-reached nodes per system",
            "TtlAged and NoPoison go beyond what the package documents (RFC 1035/2181 and RFC 5452 respectively; see proposals/dnscache.json); they are separate clauses; "
            "a state that violates only TtlAged does not end the monitor's walk",
            "not covered: TCP upstreams, DNS64, rate limiting, redirect/CNAME interception rules and suffix/wildcard rule matching, query-type statistics, latency figures, "
            "CacheSize <= 0 (Cache.Set would spin forever on an empty cache) and the int32 round-robin counter after 2^31 upstream queries (negative index)",
        ],
        explanation="DnsCache.tla (contract, 7 sentences / 15 clauses) is model-checked against the guarantees stated over absolute histories (DnsCacheDesign: verdicts "
                    "coincide step by step, ghost = history); DnsCacheShape models cache.go/resolver.go function by function (as found: TLC finds the unaged TTLs, the "
                    "accepted foreign datagram, the shared cache key of unknown query types and the NXDOMAIN-with-CNAME answer served as NOERROR; with the proposed "
                    "repairs: clean). DnsCacheImpl walks the transition tables extracted from the real Cache / Resolver under virtual time (closed under the alphabet: "
                    "unbounded-length verdict relative to alphabet and fingerprint), seeded random chains on larger configurations, and the design counterexamples "
                    "replayed on the real code.",
    ),
}
