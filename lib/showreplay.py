#!/usr/bin/env python3
"""Run a replay file on the real code and print every step's event, result and the observation after it (diagnostic aid).
usage: lib/showreplay.py <fam-module>:<FAMDICT> <replay.json>"""
import importlib, json, os, sys
sys.path.insert(0, os.path.dirname(os.path.abspath(__file__)))
import vcheck, tablecheck
modname, famname = sys.argv[1].split(":")
_m = importlib.import_module(modname)
fam = getattr(_m, famname) if hasattr(_m, famname) else _m.CHECKS[famname]
work = vcheck.workdir("show")
binp = vcheck.build_harness(fam["pkg"], work)
env = dict(fam.get("env", {})); env["VERIF_REPLAY"] = os.path.abspath(sys.argv[2])
out = os.path.join(work, "r")
vcheck.run_explorer(binp, fam["test"], out, "quick", 1, env, timeout=1200)
b = json.load(open(os.path.join(out, "bundle.json")))
for s in b["systems"]:
    print("==", s["name"], json.dumps(s.get("cfg")))
    node = s.get("init", 1)      # node ids are 1-based
    print("   init:", json.dumps(s["nodes"][node - 1]))
    while node - 1 < len(s["edges"]) and s["edges"][node - 1]:
        e = s["edges"][node - 1][0]
        print("  ", json.dumps(e["ev"]))
        node = e["to"]
        print("      ->", json.dumps(s["nodes"][node - 1]))
res, viols = tablecheck._run_impl_tlc(fam, fam["watch"], work, os.path.join(out, "bundle.json"), "show")
for v in viols:
    print("VIOLATES", v["system"], v["clauses"], "after", len(v.get("path", [])), "events")
vcheck.cleanup(work)
