"""Family "intercept" (extra family X08, not one of the 20 listed properties): pkg/intercept - the real lawful-intercept
Manager (warrants, target indexes, MatchSession, intercept sessions, IRI/CC records, delivery to the exporters, the expiry
checker, statistics) under testing/synctest virtual time with recording exporters of the harness.

Extra family: no MANIFEST entry."""
import json, os, shutil, sys, time
import vcheck
from vcheck import SPECS, WORK, Infra, log, run_tlc
from tablecheck import table_check

CLAUSES = ["MatchSound", "MatchComplete", "IndexExact", "Rejects", "AddStatus", "RemoveEffective", "StatusSet", "ExpiryMarked", "StatusStable",
           "SessionTable", "CcOnlyIfWarranted", "ActiveOnly", "DropOnlyFull", "DeliverOnce", "DeliverAll", "DeliverOrder", "DeliverRoute",
           "NoDeliverRemoved", "StatsTrue"]

# must describe the same configuration as Cfg in specs/Intercept/InterceptShape.tla
def _t(a, b, c, d):
    return dict(sub=a, mac=b, ip4=c, ip6=d)


SHAPE_CFG = dict(impl="shape", nw=2, ns=1, buf=1, exp=[1], tg=[_t(1, 0, 0, 0), _t(1, 0, 0, 1)], ty=["IRI+CC", "IRI"], me=[1, 1],
                 probes=[_t(1, 0, 0, 0), _t(0, 0, 0, 1)], wins=[[0, 1]], statuses=["REVOKED"], evts=["AUTH_SUCCESS"], lens=[100], hold=[1], fail=[],
                 time=True, tick=2, bad=False, readd=True, restart=True, strict=True, unit=30, nsubs=0)

DESIGN = [("InterceptDesign", "MC_design_tab.cfg", 2), ("InterceptDesign", "MC_design_dlv.cfg", 2), ("InterceptShape", "MC_shape_fixed.cfg", 1)]
DESIGN_THOROUGH = DESIGN + [("InterceptDesign", "MC_design_dlv_deep.cfg", 4),
                            ("InterceptShape", "MC_shape_fixed_deep.cfg", 2)]


def _design_counterexamples(work):
    """TLC on the design as found; returns (tlc result, [(clauses, events)]) - the shortest history per clause set."""
    sd = os.path.join(SPECS, "Intercept")
    cfg = open(os.path.join(sd, "MC_shape_orig.cfg")).read()
    res = run_tlc(sd, "InterceptShape", cfg, work, workers=1, timeout=900, name="shape_orig")
    if "Model checking completed" not in res["out"] or "Error:" in res["out"]:
        raise Infra("InterceptShape (design as found) did not run to completion:\n" + res["out"][-2000:])
    best = {}
    for line in res["out"].splitlines():
        line = line.strip()
        if not line.startswith('<<"DESIGN-CEX"'):
            continue
        raw = line[line.index(',') + 1:].strip()
        raw = raw[1:raw.rindex('"')].replace('\\"', '"').replace("\\\\", "\\")
        j = json.loads(raw)
        # histories that differ in the script that exposes them are kept apart (nxc vs the key of unknown types)
        key = (tuple(sorted(j["clauses"])), j["events"][-1].get("op") if j["events"] else "init")
        evs = j["events"]
        if key not in best or (len(evs), json.dumps(evs, sort_keys=True)) < (len(best[key]), json.dumps(best[key], sort_keys=True)):
            best[key] = evs
    return res, [(list(k[0]), v) for k, v in sorted(best.items())]


def _design_must_pass(work, module, cfgfile, workers):
    sd = os.path.join(SPECS, "Intercept")
    res = run_tlc(sd, module, open(os.path.join(sd, cfgfile)).read(), work, workers=workers, timeout=2400, name=cfgfile[:-4])
    if "No error has been found" not in res["out"]:
        raise Infra("design spec %s/%s did not pass TLC (a specification problem, not a verdict):\n%s" % (module, cfgfile, res["out"][-3000:]))
    return dict(module=module, cfg=cfgfile, states=res["distinct"], transitions=res["generated"])


def runner(prop, fam, tier, seed, replay=None):
    t0 = time.time()
    pre = os.path.join(WORK, "%s-shape-%d" % (prop, os.getpid()))
    shutil.rmtree(pre, ignore_errors=True)
    os.makedirs(pre)
    try:
        fam2 = dict(fam)
        fam2.pop("runner", None)
        fam2["design"] = []   # run here, concurrently
        shape_info, design_stats, futures, pool = None, [], [], None
        if not replay:
            from concurrent.futures import ThreadPoolExecutor
            pool = ThreadPoolExecutor(max_workers=4)
            try:
                f0 = pool.submit(_design_counterexamples, pre)
                # U1 and the repaired design run in the background while the real code is explored
                futures = [pool.submit(_design_must_pass, pre, m, c, w) for (m, c, w) in (DESIGN_THOROUGH if tier == "thorough" else DESIGN)]
                res, cex = f0.result()
            except Infra as e:
                pool.shutdown(wait=True)
                print("INFRA-FAILURE property=%s %s" % (prop, str(e)[:3000]), flush=True)
                return 2
            cases = [dict(id="cex%d" % i, system="shape", events=evs, cfg=SHAPE_CFG, clauses=cl) for i, (cl, evs) in enumerate(cex)]
            cf = os.path.join(pre, "extra_cases.json")
            json.dump(dict(property=prop, cases=cases), open(cf, "w"))
            env = dict(fam2.get("env", {}))
            env["VERIF_EXTRA_CASES"] = cf
            fam2["env"] = env
            shape_info = dict(module="InterceptShape", cfg="MC_shape_orig.cfg", states=res["distinct"], transitions=res["generated"],
                              counterexamples=[dict(clauses=cl, events=[{k: v for k, v in e.items() if v not in (0, "", False) or k == "op"} for e in evs]) for cl, evs in cex],
                              note="counterexamples of the design as found; each is executed on the real Manager as chain shape#cex<i> "
                                   "(a history that violates on the real code is reported through the normal VIOLATION / KNOWN-FINDING path)")
            log("design as found: %d counterexample histories (%s)" % (len(cex), "; ".join(",".join(c) for c, _ in cex)))
        try:
            rc = table_check(prop, fam2, tier, seed, replay)
        except Exception:   # a crash of the driver is never a verdict
            import traceback
            print("INFRA-FAILURE property=%s driver exception: %s" % (prop, traceback.format_exc()[-2000:]), flush=True)
            rc = 2
        if pool is not None:
            try:
                design_stats = [f.result() for f in futures]
            except Infra as e:
                print("INFRA-FAILURE property=%s %s" % (prop, str(e)[:3000]), flush=True)
                rc = 2
            finally:
                pool.shutdown(wait=True)
            for d in design_stats:
                log("design %s/%s: %d distinct states" % (d["module"], d["cfg"], d["states"]))
        if rc == 2:
            return 2
        if shape_info is not None:
            p = vcheck.evidence_path(prop)
            try:
                ev = json.load(open(p))
                ev["coverage"]["original_design_model"] = shape_info
                ev["coverage"]["design_runs"] = design_stats
                ev["coverage"]["states"] += shape_info["states"] + sum(d["states"] for d in design_stats)
                ev["coverage"]["transitions"] += shape_info["transitions"] + sum(d["transitions"] for d in design_stats)
                ev["wall_s"] = round(time.time() - t0, 2)
                tmp = p + ".tmp%d" % os.getpid()
                json.dump(ev, open(tmp, "w"), indent=1, sort_keys=True)
                os.replace(tmp, p)
            except Exception:
                pass
        return rc
    finally:
        shutil.rmtree(pre, ignore_errors=True)


def _sig_extra(sig):
    """Known findings are matched on qualified operations: add:dup (AddWarrant with the id of a stored warrant) and start:dup
    (StartInterceptSession with the id of an existing session), so that a finding about those does not cover anything else."""
    ops, stored, ses = set(), set(), set()
    for e in sig.get("events", []):
        op = e.get("op")
        ops.add(op)
        if e.get("skip"):
            continue
        if op == "add" and e.get("ok") and not e.get("bad"):
            if e.get("w") in stored:
                ops.add("add:dup")
            stored.add(e.get("w"))
        elif op == "rm" and e.get("ok"):
            stored.discard(e.get("w"))
        elif op == "start":
            if e.get("s") in ses:
                ops.add("start:dup")
            ses.add(e.get("s"))
        elif op == "stop":
            ses.discard(e.get("s"))
    return dict(ops=sorted(o for o in ops if o))


CHECKS = {
    "X08": dict(
        runner=runner,
        pkg="./intercept", test="TestExplore", spec_dir="Intercept", impl_module="InterceptImpl",
        design=DESIGN,
        watch=CLAUSES,
        sig_extra=_sig_extra,
        impl_workers=4,
        assumptions=[
            "virtual time: every Manager lives in its own testing/synctest bubble, bubbles strictly one after the other; one unit of the specification's time = 30 s; "
            "the Manager is started (Enabled = true), so its real one-minute expiry ticker (2 units) and its two delivery goroutines run; a warrant added with window "
            "(a, b) is valid from now + a units - 15 s until now + b units + 15 s and the harness advances time by whole units only, so the clock never stands on a "
            "boundary of a validity period (the contract leaves those instants open); after every step the harness waits (synctest.Wait) until the delivery goroutines "
            "and the checker are idle or parked, and reports what happened until then",
            "the exporters are recording exporters of the harness, one per delivery method listed in cfg.exp: a call is logged on entry (method, interface, the record's "
            "warrant id, event type, session id, payload size, record type); a held exporter parks the calling delivery goroutine until it is released (a mediation "
            "device that takes no data; the context deadline is ignored, as exporter.go's exporters ignore it), an exporter set to fail returns an error",
            "records are identified by their description (warrant, event type, session, payload size), not individually; whether a record was dropped is read from the "
            "Manager's own warning (`IRI/CC delivery buffer full, record dropped`, captured with a zap observer), whether one was produced from TotalIRIRecords / "
            "TotalCCRecords; what waits in a queue is never read (only the channel length, for the fingerprint)",
            "the caller modelled by the harness: adds a warrant id only while it is not stored (except in system readd / shape), starts a session only for a warrant "
            "MatchSession names for the warrant's own target at that instant and only under a session id that does not exist (except in ses-two / shape), reports "
            "IRI / CC only for a session it started and has not stopped, with the *Warrant and *InterceptSession objects it was given",
            "the three target indexes (and a fourth, byIPv6, if the field exists) are read by reflection after every step, entry by entry; GetWarrant / GetSession / "
            "MatchSession (for the fixed list of sessions cfg.probes) / Stats are called after every step",
            "fingerprint = per stored warrant status, units left until its period begins / ends (saturating), type, method; the index slices in order with object "
            "identity; sessions and the objects the caller holds; exporter switches; per interface the channel length, whether the goroutine is parked and the "
            "descriptions of the records still in flight (the last chanLen + parked accepted ones: the queues are first-in first-out); ticker phase; the two gauges. "
            "Growing counters are judged as differences per call and left out; adequacy re-checked on 15 re-reached nodes per system",
            "ActiveOnly goes beyond what the package documents (see proposals/intercept.json); it is a separate clause judged only in systems with cfg.strict "
            "(act-status, rnd-strict, shape); the contract lets an implementation refuse records for an inactive warrant (the counters then stay)",
            "not covered: the exporters of exporter.go, Manager.Stop during traffic, Enabled = false, per-warrant / per-session counters, TargetUsername / TargetNTEID / "
            "TargetPhoneNumber, the Filter* fields (never read by the package), concurrency between callers (every call is made from one goroutine; the Manager's "
            "own three goroutines run concurrently with it under the race-free synchronisation the package has)",
        ],
        explanation="Intercept.tla (contract, 6 sentences / 19 clauses) is model-checked in InterceptDesign: mode tab compares the contract's verdicts step by step with the "
                    "guarantees stated over an absolute history (any answer, any observation, one facet at a time), mode dlv lets any implementation the contract accepts "
                    "run and checks the delivery guarantees themselves (at most once, nothing invented, never for a removed warrant, never CC for an IRI-only warrant, "
                    "right exporter, nothing left waiting when no exporter is held). InterceptShape models manager.go function by function with warrants as heap objects "
                    "(as found: TLC finds the IPv6-only warrant that never matches, the dangling index entry after AddWarrant of a stored id, the session id shared by two "
                    "warrants, and the records accepted for a revoked / expired / removed warrant; with the proposed repairs: clean). InterceptImpl walks the transition "
                    "tables extracted from the real Manager under virtual time (closed under the alphabet: unbounded-length verdict relative to alphabet and "
                    "fingerprint), seeded random chains on a larger configuration, and the design counterexamples replayed on the real code.",
    ),
}
