#!/bin/bash
# lib/sweep.sh <tier> <seed> [ids...] : runs the registered checks one after the other, prints one line per check
TIER=${1:-quick}; SEED=${2:-1}; shift 2
IDS=${@:-C01 C02 C03 C04 C05 C08 C09 C10 C11 C12 C13 C14 C15 C16 C17 C18 C19 C20 X01 X02 X03 X04 X05 X06 X07 X08 X09 X10 X11 X12}
cd /verif
for p in $IDS; do
  t0=$(date +%s)
  out=$(VERIF_SEED=$SEED bin/check $p --tier $TIER 2>&1); rc=$?
  t1=$(date +%s)
  echo "$p tier=$TIER seed=$SEED rc=$rc wall=$((t1-t0))s viol=$(echo "$out" | grep -c '^VIOLATION') known=$(echo "$out" | grep -c '^KNOWN-FINDING')"
  if [ $rc -ne 0 ]; then echo "$out" | tail -30 | sed "s/^/   $p| /"; fi
done
