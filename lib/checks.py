"""Registry: property id -> how it is decided."""
import sys
from tablecheck import table_check

POOL_COMMON = dict(
    pkg="./pools", test="TestExplore", spec_dir="PoolContract", impl_module="PoolImpl",
    design=[("PoolDesign", "MC_design_session.cfg", 8), ("PoolDesign", "MC_design_lease.cfg", 8)],
    assumptions=[
        "abstraction: an address is identified with its unit index (addr-base)/step computed by the harness; values off the grid or outside base/len are unit -2 (never usable)",
        "usable set per implementation is the one its constructor documents (DESIGN.md section 6)",
        "unexported maps of dhcp.Pool / dhcpv6 pools / pppoe.IPPool are read by reflection for Lookup (no public getter exists)",
        "tables are closed under the alphabet only up to the depth/node bound unless closed_tables says otherwise",
    ],
    explanation="PoolContract.tla is model-checked (PoolDesign) to imply the property; PoolImpl.tla walks transition tables extracted breadth-first from the real "
                "pool objects (and long random chains on large pools) and judges every answer and observation against the contract, keeping a ghost of what each subscriber was told.",
)

CHECKS = {
    "C01": dict(POOL_COMMON, watch=["Unique", "InRange", "Idempotent", "LookupUnique"]),
    "C05": dict(POOL_COMMON, watch=["FalseExhaustion", "ReleaseEffective", "Retained", "StatsTrue", "Drain"]),
}


CHECKS["C12"] = dict(
    pkg="./pools", test="TestExplorePersist", spec_dir="PoolContract", impl_module="PersistImpl",
    design=[("PersistDesign", "MC_persist.cfg", 8)],
    watch=["RestartSame", "RestartUnique", "FailAgreement", "RemoteApplied", "ReloadSame"],
    assumptions=[
        "the backing store is the harness' scripted allocator.Store (synchronous, failure injected per call, query order chosen per restart); a crash is modelled as dropping the allocator object and starting a new one on the same store - for DistributedAllocator every public call performs at most one store write, so 'a stop after every store operation' coincides with a restart after every call",
        "remote changes are delivered by invoking the registered watch callback synchronously",
        "address -> unit projection as in C01",
    ],
    explanation="PersistImpl.tla judges every restart / failed write / remote change / marshal round trip observed on the real DistributedAllocator, IPAllocator, EpochBitmapAllocator "
                "against the C12 clauses; PersistDesign.tla is an implementation-shaped model of load/remote-apply checked exhaustively by TLC.",
)

import glob, importlib, os
for _f in sorted(glob.glob(os.path.join(os.path.dirname(os.path.abspath(__file__)), "fam_*.py"))):
    try:
        _m = importlib.import_module(os.path.basename(_f)[:-3])
    except Exception as _e:  # a family module under construction must not break the other checks
        print("[check] warning: cannot import %s: %s" % (os.path.basename(_f), _e), file=sys.stderr)
        continue
    CHECKS.update(getattr(_m, "CHECKS", {}))


try:
    import fam_poolslin as _pl
    CHECKS["C01"] = dict(CHECKS["C01"], runner=_pl.runner)
except Exception as _e:
    print("[check] warning: concurrent phase of C01 unavailable: %s" % _e, file=sys.stderr)


def run(prop, tier, seed, replay):
    if prop not in CHECKS:
        print("unknown property", prop, file=sys.stderr)
        return 2
    fam = CHECKS[prop]
    runner = fam.get("runner", table_check)
    return runner(prop, fam, tier, seed, replay)
