"""Family "radiusclient" (extra id X04, not one of the 20 listed properties): the real radius.Client of pkg/radius/client.go
(NewClient, Authenticate, SendAccounting) driven against scripted RADIUS servers on loopback UDP, under testing/synctest
virtual time wherever no server is silent, in real time (short Timeout, only clauses a slow machine cannot break) otherwise.

Flow (on top of the generic table flow of tablecheck.py):
  0. TLC model-checks the implementation-shaped design spec of the code AS FOUND (specs/RadiusClient/RadiusClientShape.tla,
     Fixed = FALSE): sequential calls (packet built once with the first server's secret, Identifier never compared, accounting
     Message-Authenticator over the interim authenticator) and two calls in flight (nextServer / getServer on the shared index).
     Each counterexample is a history in the harness' alphabet; the shortest per clause set is handed to the explorer
     (VERIF_EXTRA_CASES) and executed on the real client as one more chain (shape#cex<i>).
  1. U1: RadiusClientDesign (contract == guarantee stated over the whole history: token-bucket window statement, walk through the
     server list) and RadiusClientShape with the proposed repair (clean) must pass.
  2. generic flow: table extraction + seeded random chains + real-time chains on the real code, TLC monitor walk
     (RadiusClientImpl), replay, verdict.
"""
import json, os, shutil, sys, time
import vcheck
from vcheck import SPECS, WORK, Infra, log, run_tlc
from tablecheck import table_check

CLAUSES = ["AcceptOnlyAuthentic", "IdentifierMatch", "VerdictFollowsAnswer", "ResponseFaithful", "RequestFaithful", "RequestAuthentic",
           "ServerOrder", "RetryBudget", "WaitsTimeout", "RateLimit", "CancelNoSend", "IdUnique"]

SPEC_DIR = "RadiusClient"
ORIG = [("RadiusClientShape", "MC_shape_orig.cfg"), ("RadiusClientShape", "MC_shape_gated_orig.cfg")]
ORIG_FINE = ("RadiusClientShape", "MC_shape_gated_fine.cfg")   # nextServer / getServer as two steps: histories the harness cannot schedule (counted only)

DESIGN = [("RadiusClientDesign", "MC_design_rate.cfg", 2), ("RadiusClientDesign", "MC_design_order.cfg", 2),
          ("RadiusClientShape", "MC_shape_fixed.cfg", 1), ("RadiusClientShape", "MC_shape_gated_fixed.cfg", 1)]
DESIGN_THOROUGH = DESIGN + [("RadiusClientDesign", "MC_design_rate11.cfg", 2), ("RadiusClientDesign", "MC_design_rate_deep.cfg", 4), ("RadiusClientDesign", "MC_design_order3.cfg", 4), ("RadiusClientDesign", "MC_design_order_deep.cfg", 4),
                            ("RadiusClientShape", "MC_shape_fixed3.cfg", 2), ("RadiusClientShape", "MC_shape_gated_fixed3.cfg", 1)]


def _cex_lines(out):
    for line in out.splitlines():
        line = line.strip()
        if not line.startswith('<<"DESIGN-CEX"'):
            continue
        raw = line[line.index(',') + 1:].strip()
        raw = raw[1:raw.rindex('"')].replace('\\"', '"').replace("\\\\", "\\")
        yield json.loads(raw)


def _design_counterexamples(work, module, cfgfile):
    """TLC on the design as found; returns (tlc result, [(clauses, events, cfg)]) shortest per clause set, and the number of
    counterexample states that are not schedulable by the harness."""
    sd = os.path.join(SPECS, SPEC_DIR)
    res = run_tlc(sd, module, open(os.path.join(sd, cfgfile)).read(), work, workers=1, timeout=900, name=cfgfile[:-4])
    if "Model checking completed" not in res["out"] or "Error:" in res["out"]:
        raise Infra("%s/%s (design as found) did not run to completion:\n%s" % (module, cfgfile, res["out"][-2000:]))
    best, fine = {}, 0
    for j in _cex_lines(res["out"]):
        if not j.get("replayable", True):
            fine += 1
            continue
        key = tuple(sorted(j["clauses"]))
        cand = (len(j["events"]), json.dumps(j["events"], sort_keys=True))
        if key not in best or cand < (len(best[key][0]), json.dumps(best[key][0], sort_keys=True)):
            best[key] = (j["events"], j["cfg"])
    return res, [(list(k), v[0], v[1]) for k, v in sorted(best.items())], fine


def _design_must_pass(work, module, cfgfile, workers):
    sd = os.path.join(SPECS, SPEC_DIR)
    res = run_tlc(sd, module, open(os.path.join(sd, cfgfile)).read(), work, workers=workers, timeout=1500, name=cfgfile[:-4])
    if "No error has been found" not in res["out"]:
        raise Infra("design spec %s/%s did not pass TLC (a specification problem, not a verdict):\n%s" % (module, cfgfile, res["out"][-3000:]))
    return dict(module=module, cfg=cfgfile, states=res["distinct"], transitions=res["generated"])


def runner(prop, fam, tier, seed, replay=None):
    t0 = time.time()
    pre = os.path.join(WORK, "%s-shape-%d" % (prop, os.getpid()))
    shutil.rmtree(pre, ignore_errors=True)
    os.makedirs(pre)
    try:
        fam2 = dict(fam)
        fam2.pop("runner", None)
        fam2["design"] = []   # run here, concurrently
        shape_info, design_stats = None, []
        ex, fs = None, []
        if not replay:
            from concurrent.futures import ThreadPoolExecutor
            ex = ThreadPoolExecutor(max_workers=4)
            try:
                f0 = [ex.submit(_design_counterexamples, pre, m, c) for (m, c) in ORIG]
                ff = ex.submit(_design_counterexamples, pre, *ORIG_FINE)
                # the U1 runs go on in the background while the real code is explored; they are collected (and must have passed) before the verdict
                fs = [ex.submit(_design_must_pass, pre, m, c, w) for (m, c, w) in (DESIGN_THOROUGH if tier == "thorough" else DESIGN)]
                origs = [f.result() for f in f0]
                fine = ff.result()
            except Infra as e:
                ex.shutdown(wait=True)
                print("INFRA-FAILURE property=%s %s" % (prop, str(e)[:3000]), flush=True)
                return 2
            if fine[2] == 0:
                ex.shutdown(wait=True)
                print("INFRA-FAILURE property=%s the two-step nextServer/getServer model no longer shows its window (specification problem)" % prop, flush=True)
                return 2
            cases, cexinfo, n = [], [], 0
            st, tr = fine[0]["distinct"], fine[0]["generated"]
            for (res, cex, _), (m, c) in zip(origs, ORIG):
                st += res["distinct"]
                tr += res["generated"]
                for cl, evs, cfg in cex:
                    cases.append(dict(id="cex%d" % n, system="shape", events=evs, cfg=cfg, clauses=cl))
                    cexinfo.append(dict(model=c, clauses=cl, chain="shape#cex%d" % n,
                                        events=[{k: v for k, v in e.items() if v not in (0, "", False, "bg") or k == "op"} for e in evs]))
                    n += 1
            cf = os.path.join(pre, "extra_cases.json")
            json.dump(dict(property=prop, cases=cases), open(cf, "w"))
            env = dict(fam2.get("env", {}))
            env["VERIF_EXTRA_CASES"] = cf
            fam2["env"] = env
            shape_info = dict(module="RadiusClientShape", cfgs=[c for _, c in ORIG] + [ORIG_FINE[1]], states=st, transitions=tr, counterexamples=cexinfo,
                              unschedulable_counterexample_states=fine[2],
                              note="counterexamples of the design as found; each is executed on the real client as a chain (a history that violates on the "
                                   "real code is reported through the normal VIOLATION / KNOWN-FINDING path); the two-step model of nextServer/getServer "
                                   "(MC_shape_gated_fine) has further counterexample states whose schedules need a gate between the two critical sections "
                                   "(no hook was added to /repo for them): counted, not replayed")
            log("design as found: %d counterexample histories (%s)" % (len(cases), "; ".join(",".join(c["clauses"]) for c in cases)))
        # the verdict lines of the table flow are held back until the U1 runs have passed (a specification problem is exit 2
        # and must never be accompanied by a VIOLATION line)
        import io, contextlib
        held = io.StringIO()
        try:
            with contextlib.redirect_stdout(held):
                rc = table_check(prop, fam2, tier, seed, replay)
        except Exception:   # a crash of the driver is never a verdict
            import traceback
            held = io.StringIO("INFRA-FAILURE property=%s driver exception: %s\n" % (prop, traceback.format_exc()[-2000:]))
            rc = 2
        if ex is not None:
            try:
                design_stats = [f.result() for f in fs]
            except Infra as e:
                held = io.StringIO("INFRA-FAILURE property=%s %s\n" % (prop, str(e)[:3000]))
                rc = 2
            finally:
                ex.shutdown(wait=True)
            for d in design_stats:
                log("design %s/%s: %d distinct states" % (d["module"], d["cfg"], d["states"]))
        sys.stdout.write(held.getvalue())
        sys.stdout.flush()
        if rc == 2:
            return 2
        if shape_info is not None:
            p = vcheck.evidence_path(prop)
            try:
                ev = json.load(open(p))
                ev["coverage"]["original_design_model"] = shape_info
                ev["coverage"]["design_runs"] = design_stats
                ev["coverage"]["states"] += shape_info["states"] + sum(d["states"] for d in design_stats)
                ev["coverage"]["transitions"] += shape_info["transitions"] + sum(d["transitions"] for d in design_stats)
                ev["wall_s"] = round(time.time() - t0, 2)
                tmp = p + ".tmp%d" % os.getpid()
                json.dump(ev, open(tmp, "w"), indent=1, sort_keys=True)
                os.replace(tmp, p)
            except Exception:
                pass
        return rc
    finally:
        shutil.rmtree(pre, ignore_errors=True)


CHECKS = {
    "X04": dict(
        runner=runner,
        pkg="./radiusclient", test="TestExplore", spec_dir=SPEC_DIR, impl_module="RadiusClientImpl",
        design=DESIGN,
        watch=CLAUSES,
        cfg_extra="INVARIANT GhostTracks\n",
        assumptions=[
            "scope: pkg/radius/client.go only (NewClient, Authenticate, SendAccounting, waitRateLimit, getServer/nextServer, addMessageAuthenticator, formatMAC) "
            "together with the library path it uses (layeh.com/radius Exchange: one UDP socket per attempt, retransmission every second, MaxPacketErrors = 10, "
            "Response Authenticator check) and golang.org/x/time/rate. The client has NO health / dead-server marking: what is checked is rotation. "
            "AuthRequest.CircuitID / RemoteID and AcctRequest.CircuitID / RemoteID are never put on the wire by the client (recorded, not a clause)",
            "the servers are the harness: per configured server one UDP socket on 127.0.0.1:P (authentication) and one on P+1 (accounting), ports below the ephemeral "
            "range, outside every synctest bubble. They record every datagram and answer according to a scripted mode; what they send is recorded as a recipe (kind, built "
            "with the configured secret over this request or not, same Identifier or not, from the server's own socket or not) - environment facts, not judgements. "
            "A refusing port is a socket connect()ed elsewhere: the kernel answers the client with ICMP port unreachable and the server never sees the datagram; the "
            "contract infers those attempts from the servers' modes",
            "virtual time: a goroutine in a network read is not durably blocked, so inside a bubble the clock stands still during an exchange and moves only while the "
            "client waits in its rate limiter (or the harness sleeps): exchanges take zero virtual time, limiter waits are exact. Every terminal answer of a server is "
            "followed by ten garbage datagrams, which a client that returns on the authentic reply never reads; a client that wrongly ignores the authentic reply fails "
            "its attempt at once instead of waiting for a timeout the bubble's clock could never reach (the deviation then shows in the result)",
            "silent servers (timeouts) cannot be exercised in a bubble: systems rt-* run in real time with Timeout 800 ms (2.5 s for the retransmission history of the "
            "thorough tier) and are judged by clauses that slowness cannot break (attempt count and order, at most 1 + ceil(Timeout/1s) identical datagrams per attempt, "
            "elapsed >= silent attempts x Timeout, elapsed <= Retries x Timeout + 8 s); a chain during which the process was not scheduled for > 120 ms is run again "
            "(up to 4 times); a witness must in any case reproduce on a fresh replay before it counts",
            "datagrams are grouped into attempts by (server, port, source port) until the server gave a terminal answer; flushes use sentinel datagrams through the same "
            "socket queues, no sleeps",
            "request attributes are projected by equality against the three request templates (template index, 100+index for the documented MAC format, 0 absent, -1 other); "
            "User-Password is un-hidden and the Message-Authenticator / Request Authenticator verified with the secret configured for the server the datagram ARRIVED at",
            "rate limiter: 'request' = one Authenticate/SendAccounting call (retries of a call are not charged by the code and not by the contract), charged to the limiter "
            "of the server that is current when the call starts; the contract's reference bucket is the most permissive limiter that keeps 'BurstSize + RequestsPerSecond x T "
            "per interval T' (checked against that sentence in RadiusClientDesign)",
            "fewer than ten invalid replies before the authentic one must not change the outcome; ten end the attempt (library constant MaxPacketErrors)",
            "fingerprint = currentIdx (reflection) + token level of every limiter at the current virtual instant + the servers' modes (+ slots and attempt numbers of the "
            "calls in flight for gated systems); adequacy re-checked on re-reached nodes; ephemeral values (Identifier, source port, Request Authenticator) never enter an edge",
            "every explorer job (one table or one batch of chains) runs in its own process, bubbles of one process strictly one after the other "
            "(go1.25.0 synctest is not safe with bubbles on several Ps)",
            "gated systems: every authentication port keeps requests back and the harness fails / answers them one at a time; nextServer+getServer of one call run "
            "without interruption (no hook between the two critical sections), the finer interleavings exist only in the design model",
        ],
        explanation="RadiusClient.tla (contract: what a caller and the servers may rely on) is model-checked against the guarantees stated over whole histories "
                    "(RadiusClientDesign: the rate limit as a window statement over admission instants, the rotation as a walk through the server list); "
                    "RadiusClientShape models client.go's steps (as found: TLC finds the packet built once with the first server's secret, the Identifier that is never "
                    "compared, the accounting Message-Authenticator computed over the interim authenticator, and two concurrent calls rotating the shared index past the "
                    "healthy server; with the proposed repair: clean). RadiusClientImpl walks the transition tables extracted from the real client (closed under their "
                    "alphabets), seeded random chains, real-time chains with silent servers and the design counterexamples replayed on the real code.",
    ),
}
