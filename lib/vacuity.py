#!/usr/bin/env python3
"""Vacuity audit of the design-level (U1) model-checking runs: every registered (module, cfg) is run once more under
`-coverage 1`; reported per run: the actions TLC never took (a property checked on a model in which an action never
fires says nothing about that action) and the number of sub-expressions never evaluated.

usage: lib/vacuity.py [ids...] [--jobs N]       writes /verif/vacuity-report.json and prints a summary
Diagnostic audit, run by hand (it doubles the TLC time); it produces no verdicts and is not part of any check."""
import json, os, re, sys, concurrent.futures
sys.path.insert(0, os.path.dirname(os.path.abspath(__file__)))
import vcheck, checks

ACT = re.compile(r"^<(\w+) line (\d+), col \d+ to line \d+, col \d+ of module (\w+)>: (\d+):(\d+)")
SUB = re.compile(r"^\s+\|*line (\d+), col (\d+) to line (\d+), col (\d+) of module (\w+): (\d+)")


def one(work, spec_dir, module, cfg, workers):
    sd = os.path.join(vcheck.SPECS, spec_dir)
    res = vcheck.run_tlc(sd, module, open(os.path.join(sd, cfg)).read(), work, workers=max(1, min(2, workers)), timeout=3000,
                         name="vac_%s_%s" % (module, cfg[:-4]), simulate=["-coverage", "1"])
    out = res["out"]
    # the last coverage block is the final one
    idx = out.rfind("The coverage statistics at")
    block = out[idx:] if idx >= 0 else ""
    acts, zero_sub, nsub = {}, [], 0
    for line in block.splitlines():
        m = ACT.match(line)
        if m:
            acts["%s@%s:%s" % (m.group(1), m.group(3), m.group(2))] = (int(m.group(4)), int(m.group(5)))
            continue
        m = SUB.match(line)
        if m:
            nsub += 1
            if int(m.group(6)) == 0:
                zero_sub.append("%s:%s.%s" % (m.group(5), m.group(1), m.group(2)))
    never = sorted(a for a, (d, t) in acts.items() if t == 0 and not a.startswith("Init@"))
    ok = ("No error has been found" in out) or ("Model checking completed" in out)
    return dict(spec=spec_dir, module=module, cfg=cfg, completed=ok, distinct=res["distinct"], actions=len(acts),
                never_taken=never, subexpr=nsub, subexpr_never_evaluated=len(zero_sub), subexpr_zero_sample=zero_sub[:12])


def main():
    args = [a for a in sys.argv[1:] if not a.startswith("--")]
    jobs = 3
    if "--jobs" in sys.argv:
        jobs = int(sys.argv[sys.argv.index("--jobs") + 1])
        args = [a for a in args if a != str(jobs)]
    todo, seen = [], set()
    for pid, fam in sorted(checks.CHECKS.items()):
        if args and pid not in args:
            continue
        for d in fam.get("design") or []:
            key = (fam.get("spec_dir"), d[0], d[1])
            if key in seen:
                continue
            seen.add(key)
            todo.append((pid,) + key + (d[2],))
    work = vcheck.workdir("vacuity")
    rep = []
    with concurrent.futures.ThreadPoolExecutor(max_workers=jobs) as ex:
        futs = {ex.submit(one, work, sd, m, c, w): (pid, sd, m, c) for (pid, sd, m, c, w) in todo}
        for f in concurrent.futures.as_completed(futs):
            pid, sd, m, c = futs[f]
            try:
                r = f.result()
            except Exception as e:
                r = dict(spec=sd, module=m, cfg=c, error=str(e)[:300])
            r["first_user"] = pid
            rep.append(r)
            print("%s %s/%s: %s" % (pid, m, c, ("never taken: " + ", ".join(r["never_taken"]) if r.get("never_taken") else
                                                  ("ERROR " + r["error"] if "error" in r else "all %d actions taken" % r["actions"]))
                                    + ("" if "error" in r else "; %d/%d sub-expressions never evaluated" % (r["subexpr_never_evaluated"], r["subexpr"]))), flush=True)
    rp = os.path.join(vcheck.VERIF, "vacuity-report.json")
    if args and os.path.exists(rp):   # a partial run updates the report
        keys = {(r["module"], r["cfg"]) for r in rep}
        rep += [r for r in json.load(open(rp)) if (r["module"], r["cfg"]) not in keys]
    rep.sort(key=lambda r: (r["first_user"], r["module"], r["cfg"]))
    json.dump(rep, open(os.path.join(vcheck.VERIF, "vacuity-report.json"), "w"), indent=1, sort_keys=True)
    vcheck.cleanup(work)


if __name__ == "__main__":
    main()
