"""Family "nat": property C10 (CGNAT port blocks never overlap and are always attributable).

specs/NatBlocks/NatBlocks.tla        the contract (clauses NoOverlap, InRange, Stable, Attributable)
specs/NatBlocks/NatBlocksDesign.tla  U1: any allocator accepted by the contract has the property
specs/NatBlocks/NatBlocksAlgo.tla    implementation-shaped spec of AllocateNAT/DeallocateNAT (one action per
                                     critical section), judged by the same contract: the repaired design passes
                                     under every schedule, the design as found must FAIL (self-test of the oracle)
specs/NatBlocks/NatBlocksImpl.tla    U2/U3: walks the tables / histories / interleavings extracted from the real
                                     nat.Manager by harness/nat
"""
import json, os, re, time
import vcheck
from vcheck import *
from tablecheck import table_check

SPEC_DIR = "NatBlocks"
WATCH = ["NoOverlap", "InRange", "Stable", "Attributable"]

# (module, cfg, workers): must pass
DESIGN_QUICK = [("NatBlocksDesign", "MC_design.cfg", 2), ("NatBlocksAlgo", "MC_algo_fixed.cfg", 2)]
DESIGN_THOROUGH = DESIGN_QUICK + [("NatBlocksDesign", "MC_design_2ip.cfg", 8), ("NatBlocksDesign", "MC_design_3subs.cfg", 8),
                                  ("NatBlocksAlgo", "MC_algo_fixed_3thr.cfg", 8)]
# (module, cfg, invariant TLC must report violated): the design as found in the repository. If TLC stops finding
# these counterexamples the specification has rotted -> infrastructure failure, never a verdict.
EXPECTED_CEX = [
    ("NatBlocksAlgo", "MC_algo_asfound_seq.cfg", "NoOverlapOK"),
    ("NatBlocksAlgo", "MC_algo_asfound_sameip.cfg", "StableOK"),
    ("NatBlocksAlgo", "MC_algo_asfound_relrace.cfg", "AttributableOK"),
    ("NatBlocksDesign", "MC_design_nonvacuous.cfg", "NeverTwo"),
]


def _sig_extra(sig):
    """Shape of the failing history, for narrow known-finding matching and grouping:
    concurrent (some call was split by a gate) or sequential."""
    conc = any(int(e.get("call", 0) or 0) > 0 for e in sig["events"])
    shape = "concurrent" if conc else "sequential"
    return dict(group_extra=shape, witness_key=shape, ops=sorted(set(sig["ops"]) | {shape}))


def _one_cex(work, module, cfgfile, inv):
    cfgtxt = open(os.path.join(SPECS, SPEC_DIR, cfgfile)).read()
    res = run_tlc(os.path.join(SPECS, SPEC_DIR), module, cfgtxt, work, workers=1, timeout=600, name="cex_" + cfgfile[:-4])
    if ("Invariant %s is violated" % inv) not in res["out"]:
        raise Infra("design self-test: TLC no longer finds the expected counterexample (%s/%s, invariant %s):\n%s"
                    % (module, cfgfile, inv, res["out"][-2000:]))
    steps = re.findall(r"^State \d+: <(\w+)", res["out"], re.M)
    log("design self-test %s: %s violated after %d steps (expected)" % (cfgfile, inv, max(0, len(steps) - 1)))
    return dict(module=module, cfg=cfgfile, violated=inv, counterexample_actions=steps[1:] if steps else [], states=res["distinct"])


def _one_design(work, module, cfgfile, workers):
    cfgtxt = open(os.path.join(SPECS, SPEC_DIR, cfgfile)).read()
    res = run_tlc(os.path.join(SPECS, SPEC_DIR), module, cfgtxt, work, workers=workers, timeout=1800, name=cfgfile[:-4])
    if "No error has been found" not in res["out"]:
        raise Infra("design spec %s/%s did not pass TLC (a specification problem, not a verdict):\n%s" % (module, cfgfile, res["out"][-3000:]))
    log("design %s/%s: %d distinct states" % (module, cfgfile, res["distinct"]))
    return dict(module=module, cfg=cfgfile, states=res["distinct"], transitions=res["generated"])


def _design_batch(work, tier):
    """All exhaustive TLC runs on the hand-written specs, side by side (each in its own scratch dir)."""
    from concurrent.futures import ThreadPoolExecutor
    design = DESIGN_THOROUGH if tier == "thorough" else DESIGN_QUICK
    with ThreadPoolExecutor(max_workers=6) as ex:
        fd = [ex.submit(_one_design, work, m, c, w) for (m, c, w) in design]
        fc = [ex.submit(_one_cex, work, m, c, i) for (m, c, i) in EXPECTED_CEX]
        return [f.result() for f in fd], [f.result() for f in fc]


def runner(prop, fam, tier, seed, replay=None):
    t0 = time.time()
    design_stats, cex = [], []
    if not replay:
        work = workdir(prop + "design")
        try:
            design_stats, cex = _design_batch(work, tier)
        except Infra as e:
            print("INFRA-FAILURE property=%s %s" % (prop, str(e)[:3000]), flush=True)
            return 2
        finally:
            cleanup(work)
    rc = table_check(prop, dict(fam, design=[]), tier, seed, replay)
    if rc in (0, 1) and not replay:
        p = vcheck.evidence_path(prop)
        try:
            ev = json.load(open(p))
            cov = ev["coverage"]
            cov["design_runs"] = design_stats
            cov["states"] += sum(d["states"] for d in design_stats)
            cov["transitions"] += sum(d["transitions"] for d in design_stats)
            cov["design_counterexamples_of_the_code_as_found"] = cex
            ev["wall_s"] = round(time.time() - t0, 2)
            tmp = p + ".tmp%d" % os.getpid()
            json.dump(ev, open(tmp, "w"), indent=1, sort_keys=True)
            os.replace(tmp, p)
        except Exception as e:
            print("INFRA-FAILURE property=%s cannot complete evidence: %s" % (prop, e), flush=True)
            return 2
    return rc


CHECKS = {
    "C10": dict(
        pkg="./nat", test="TestExplore", spec_dir=SPEC_DIR, impl_module="NatBlocksImpl",
        design=DESIGN_QUICK, watch=WATCH, runner=runner, sig_extra=_sig_extra, nsubs=3,
        tlc_timeout=1500, explore_timeout=1500,
        assumptions=[
            "the subscriber is identified with the private address handed to AllocateNAT/DeallocateNAT; subscriber-id numbering is not observed",
            "a public address is identified with its position in the configured list (harness projection; an unknown address is -1 and never in range)",
            "the log is the nat.Logger stream (JSON, both the RFC 6908 bulk format and the allocate/deallocate format), attached with SetLogger and read "
            "through its real format/flush path; in the non-bulk format a record carries only the first port and the end is derived from the configured block size",
            "cmd/bng never calls SetLogger on the NAT manager, so in the shipped wiring no such record is produced at all - outside pkg/nat, not judged here",
            "no eBPF maps are loaded (subscriberNAT == nil): the Put/Delete on the kernel map and its failure path are not executed",
            "concurrent callers: every interleaving of the segments delimited by the verifGate points (lock-free windows) for 2 (quick, plus one setup with 3; "
            "thorough: 3 everywhere) calls; data races inside a critical section are not modelled",
            "tables are fixed points of the real object under {allocate, release} x subscribers unless closed_tables says otherwise",
        ],
        explanation="NatBlocks.tla is model-checked (NatBlocksDesign) to imply the property; NatBlocksAlgo models AllocateNAT/DeallocateNAT one action per critical "
                    "section and is judged by the same contract (repaired design passes under all schedules, the design as found must fail); NatBlocksImpl.tla walks "
                    "closed transition tables, long random histories and all gate interleavings extracted from the real nat.Manager with its captured compliance log, "
                    "judging every answer, log record and observed block table.",
    ),
}

MANIFEST = {
    "C10": dict(
        engine="tlc-table", category="model_checking", design_ref="DESIGN.md section 7 C10",
        text=("TLC decides it three times: (1) the contract NatBlocks.tla is model-checked to imply the property for every allocator it accepts; "
              "(2) an implementation-shaped TLA+ model of AllocateNAT/DeallocateNAT (one action per critical section) is model-checked against the same contract under "
              "every schedule - the repaired design passes, the design as found yields the counterexamples that were replayed on the code; (3) the behaviour of the real "
              "nat.Manager - transition tables closed to a fixed point for 12 (quick) or 16 (thorough) port-range x public-address configurations with up to 6 subscribers, seeded random histories, and every "
              "interleaving of the gate-delimited critical sections of 2-3 concurrent calls - is walked by TLC with the contract as monitor, every clause evaluated at "
              "every step including between the critical sections. Bounded by the alphabet, the subscriber/address counts and the number of concurrent calls."),
        technique="TLA+ contract + implementation-shaped design spec + TLC over transition tables, histories and gate-scheduled interleavings extracted from the real nat.Manager with captured log",
        note="trusted: harness projection (private address -> subscriber, public address -> index, JSON log line -> record), the gate scheduler, TLC; "
             "hooks: verifGate call sites in pkg/nat/manager.go, Logger.VerifSetWriter",
    ),
}
