"""C01 runner: the sequential table/trace check plus the concurrent-history linearizability search."""
import json, os, time
import vcheck, tablecheck
from vcheck import Infra, log

SPEC_DIR = os.path.join(vcheck.SPECS, "PoolContract")


def lin_phase(prop, tier, seed, work, rounds=1):
    binp = vcheck.build_harness("./pools", work)
    found, stats = [], dict(histories=0, states=0, transitions=0)
    for r in range(rounds):
        outdir = os.path.join(work, "lin%d" % r)
        vcheck.run_explorer(binp, "TestConcurrent", outdir, tier, seed + 7919 * r, {}, timeout=1200)
        hp = os.path.join(outdir, "histories.json")
        hs = json.load(open(hp))["histories"]
        res = vcheck.run_tlc(SPEC_DIR, "PoolLin", open(os.path.join(SPEC_DIR, "MC_lin.cfg")).read(), work, files={hp: "histories.json"}, workers=1, timeout=1800, name="lin%d" % r)
        err = vcheck.tlc_error(res)
        if err:
            raise Infra("TLC failed on PoolLin:\n" + err)
        stats["histories"] += len(hs)
        stats["states"] += res["distinct"]
        stats["transitions"] += res["generated"]
        byname = {h["name"]: h for h in hs}
        for v in vcheck.parse_violations(res["out"]):
            found.append(byname[v["system"]])
    return found, stats


def runner(prop, fam, tier, seed, replay):
    t0 = time.time()
    rc = tablecheck.table_check(prop, fam, tier, seed, replay)
    if replay or rc == 2:
        return rc
    evp = vcheck.evidence_path(prop)
    ev = json.load(open(evp))
    work = vcheck.workdir(prop + "lin")
    try:
        found, stats = lin_phase(prop, tier, seed, work)
        new = []
        if found:
            # a concurrent history cannot be replayed step by step: the implementation must show a
            # non-linearizable history again in fresh runs before it counts
            impls = {h["cfg"]["impl"] for h in found}
            again, _ = lin_phase(prop, tier, seed + 1, work, rounds=3)
            confirmed = {h["cfg"]["impl"] for h in again} & impls
            if not confirmed:
                # keep what was seen: a schedule that rare can only be understood from the recorded history
                keep = os.path.join(vcheck.WORK, "lin-unconfirmed-%d.json" % int(time.time()))
                json.dump(found, open(keep, "w"), indent=1)
                raise Infra("non-linearizable concurrent history on %s did not recur in 3 fresh rounds (kept in %s): %s"
                            % (sorted(impls), keep, json.dumps([dict(name=h["name"], pre=h["cfg"].get("pre"), final=h["final"], ops=h["ops"]) for h in found[:2]])[:1800]))
            known = vcheck.load_known()
            for h in found:
                if h["cfg"]["impl"] not in confirmed:
                    continue
                sig = dict(impl=h["cfg"]["impl"], clauses=["Linearizable"], last_op="concurrent", ops=sorted({o["op"] for o in h["ops"]}))
                f = vcheck.match_known(known, prop, sig)
                if f:
                    print("KNOWN-FINDING: property=%s %s [%s]" % (prop, f["what"], f["id"]), flush=True)
                    continue
                if any(n["cfg"]["impl"] == h["cfg"]["impl"] for n in new):
                    continue
                new.append(h)
            for h in new:
                rp = vcheck.write_replay(prop, h["cfg"]["impl"] + "-Linearizable", dict(property=prop, history=h, note="concurrent history without a linearization accepted by PoolContract"))
                print("VIOLATION property=%s replay=%s clauses=Linearizable impl=%s ops=%d" % (prop, rp, h["cfg"]["impl"], len(h["ops"])), flush=True)
                rc = 1
        cov = ev["coverage"]
        cov["concurrent_histories"] = stats["histories"]
        cov["concurrent_lin_states"] = stats["states"]
        cov["traces_validated_against_impl"] += stats["histories"]
        cov["states"] += stats["states"]
        cov["transitions"] += stats["transitions"]
        cov["clauses_watched"] = sorted(set(cov["clauses_watched"]) | {"Linearizable"})
        cov["new_violations"] += len(new)
        vcheck.write_evidence(prop, tier, seed, "model_checking", cov, ev["assumptions"] + [
            "concurrent callers: 3 goroutines x 2 calls on every thread-safe pool; invocation/response order from one atomic counter; TLC searches a linearization accepted by the sequential contract"],
            time.time() - t0 + ev["wall_s"], ev.get("violations", 0) + len(new))
        return rc
    except Infra as e:
        print("INFRA-FAILURE property=%s %s" % (prop, str(e)[:3000]), flush=True)
        return 2
    finally:
        if not os.environ.get("VERIF_KEEP"):
            vcheck.cleanup(work)


CHECKS = {}
