"""Family "agentfsm" (extra id X11, not one of the 20 listed properties): pkg/agent - the registration protocol of
bootstrap.go (Register / RegisterWithRetry / BootstrapWithZTP with ZTP disabled) against a scripted Nexus, the Agent
life cycle of agent.go (bootstrapLoop, state-change handlers, heartbeatLoop, Stop) under testing/synctest virtual time,
and the agent's subscriber / NTE tables with ISP churn detection.

Flow (on top of the generic table flow of tablecheck.py):
  0. TLC model-checks the implementation-shaped design spec of the code AS FOUND (specs/AgentFsm/AgentFsmShape.tla,
     Fixed = FALSE: one operator per function / critical section of agent.go and bootstrap.go).  Each counterexample is
     a history in the harness' alphabet; the shortest per clause set is handed to the explorer (VERIF_EXTRA_CASES) and
     executed on the real code as one more chain (shape-tab#cex<i>), judged like everything else.
  1. U1, concurrently: AgentFsmDesign (the contract implies the guarantees stated over absolute histories, modes reg /
     agent / tab) and AgentFsmShape for the registration loop and the life cycle as found and for the tables with the
     proposed repair (all clean) must pass.
  2. generic flow: table extraction until closed + seeded random chains on the real code, TLC monitor walk
     (AgentFsmImpl), replay of every witness on fresh objects, known findings, evidence.

Extra family: no MANIFEST entry."""
import json, os, shutil, sys, time
import vcheck
from vcheck import SPECS, WORK, Infra, log, run_tlc
from tablecheck import table_check

CLAUSES = ["RetrySpacing", "AttemptBudget", "RejectedStops", "CancelStops", "ApprovedReturns", "RetriesUntilDecided", "RequestWellFormed",
           "OnlineOnlyApproved", "ApprovedConnects", "DocumentedEdges", "HandlerPerChange", "HandlersUnlocked", "HeartbeatCadence",
           "HeartbeatTruth", "StopQuiesces", "LookupAgrees", "NoStaleMatch", "CountsTrue", "ChurnOnce", "ChurnOnlyOnChange", "NteAgrees"]

SPEC_DIR = "AgentFsm"

# must describe the same configuration as Cfg (Kind = "tab") in specs/AgentFsm/AgentFsmShape.tla
SHAPE_TAB_CFG = dict(impl="shape-tab", kind="tab", maxretries=0, retry=1, hb=3, nh=0, scripts=[], adv=[], nid=2,
                     macs=["02:00:00:00:00:01", "02:00:00:00:00:02", "02:00:00:00:00:ff"], amac=2, ntes=["ont-1", "ont-ff"], ante=1,
                     isps=["", "ispA", "ispB"], nch=2, nser=1, ports=1, nosub=True, nsubs=0)

# (cfg file of the design as found, system name of the replayed chains, harness configuration = the cfg's constants)
SHAPES_ORIG = [("MC_shape_tab_orig.cfg", "shape-tab", SHAPE_TAB_CFG)]

DESIGN = [("AgentFsmDesign", "MC_design_reg.cfg", 1), ("AgentFsmDesign", "MC_design_agent.cfg", 2), ("AgentFsmDesign", "MC_design_tab.cfg", 1),
          ("AgentFsmShape", "MC_shape_agent.cfg", 1), ("AgentFsmShape", "MC_shape_tab_fixed.cfg", 1)]
DESIGN_THOROUGH = DESIGN + [("AgentFsmDesign", "MC_design_reginf.cfg", 1), ("AgentFsmDesign", "MC_design_agent5.cfg", 2), ("AgentFsmShape", "MC_shape_reg.cfg", 1), ("AgentFsmShape", "MC_shape_reginf.cfg", 1),
                            ("AgentFsmDesign", "MC_design_reg_deep.cfg", 2), ("AgentFsmDesign", "MC_design_agent_deep.cfg", 4),
                            ("AgentFsmShape", "MC_shape_reg_deep.cfg", 1), ("AgentFsmShape", "MC_shape_agent_deep.cfg", 2),
                            ("AgentFsmShape", "MC_shape_tab_fixed_deep.cfg", 1)]


def _design_counterexamples(work, cfgfile):
    """TLC on the design as found; returns (tlc result, [(clauses, events)] shortest per clause set)."""
    sd = os.path.join(SPECS, SPEC_DIR)
    cfg = open(os.path.join(sd, cfgfile)).read()
    res = run_tlc(sd, "AgentFsmShape", cfg, work, workers=1, timeout=900, name=cfgfile[:-4])
    if "Model checking completed" not in res["out"] or "Error:" in res["out"]:
        raise Infra("AgentFsmShape/%s (design as found) did not run to completion:\n%s" % (cfgfile, res["out"][-2000:]))
    best = {}
    for line in res["out"].splitlines():
        line = line.strip()
        if not line.startswith('<<"DESIGN-CEX"'):
            continue
        raw = line[line.index(',') + 1:].strip()
        raw = raw[1:raw.rindex('"')].replace('\\"', '"').replace("\\\\", "\\")
        j = json.loads(raw)
        key = tuple(sorted(j["clauses"]))
        if key not in best or (len(j["events"]), json.dumps(j["events"], sort_keys=True)) < (len(best[key]), json.dumps(best[key], sort_keys=True)):
            best[key] = j["events"]
    return res, [(list(k), v) for k, v in sorted(best.items())]


def _design_must_pass(work, module, cfgfile, workers):
    sd = os.path.join(SPECS, SPEC_DIR)
    res = run_tlc(sd, module, open(os.path.join(sd, cfgfile)).read(), work, workers=workers, timeout=2400, name=cfgfile[:-4])
    if "No error has been found" not in res["out"]:
        raise Infra("design spec %s/%s did not pass TLC (a specification problem, not a verdict):\n%s" % (module, cfgfile, res["out"][-3000:]))
    return dict(module=module, cfg=cfgfile, states=res["distinct"], transitions=res["generated"])


def _prewarm(pkg, work):
    try:
        os.makedirs(os.path.join(work, "warm"), exist_ok=True)
        vcheck.build_harness(pkg, os.path.join(work, "warm"))
    except Exception:
        pass      # the generic flow builds again and reports


def runner(prop, fam, tier, seed, replay=None):
    t0 = time.time()
    pre = os.path.join(WORK, "%s-shape-%d" % (prop, os.getpid()))
    shutil.rmtree(pre, ignore_errors=True)
    os.makedirs(pre)
    try:
        fam2 = dict(fam)
        fam2.pop("runner", None)
        fam2["design"] = []   # run here, concurrently
        shape_infos, design_stats = [], []
        ex, fs = None, []
        if not replay:
            from concurrent.futures import ThreadPoolExecutor
            # the must-pass design runs go on while the real code is explored; only the counterexamples of the design as
            # found are needed before (they become chains of the exploration)
            ex = ThreadPoolExecutor(max_workers=8)
            try:
                f0 = [(name, hcfg, cfgfile, ex.submit(_design_counterexamples, pre, cfgfile)) for (cfgfile, name, hcfg) in SHAPES_ORIG]
                warm = ex.submit(_prewarm, fam["pkg"], pre)    # compile the harness while TLC runs (fills the Go build cache)
                fs = [ex.submit(_design_must_pass, pre, m, c, w) for (m, c, w) in (DESIGN_THOROUGH if tier == "thorough" else DESIGN)]
                orig = [(name, hcfg, cfgfile) + f.result() for (name, hcfg, cfgfile, f) in f0]
            except Infra as e:
                ex.shutdown(wait=True)
                print("INFRA-FAILURE property=%s %s" % (prop, str(e)[:3000]), flush=True)
                return 2
            cases = []
            for (name, hcfg, cfgfile, res, cex) in orig:
                for i, (cl, evs) in enumerate(cex):
                    cases.append(dict(id="cex%d" % i, system=name, events=evs, cfg=hcfg, clauses=cl))
                shape_infos.append(dict(module="AgentFsmShape", cfg=cfgfile, states=res["distinct"], transitions=res["generated"], replayed_as=name,
                                        counterexamples=[dict(clauses=cl, events=[{k: v for k, v in e.items() if v not in (0, "", False) or k == "op"} for e in evs]) for cl, evs in cex]))
                log("design as found %s: %d counterexample histories (%s)" % (cfgfile, len(cex), "; ".join(",".join(c) for c, _ in cex)))
            cf = os.path.join(pre, "extra_cases.json")
            json.dump(dict(property=prop, cases=cases), open(cf, "w"))
            env = dict(fam2.get("env", {}))
            env["VERIF_EXTRA_CASES"] = cf
            fam2["env"] = env
        try:
            rc = table_check(prop, fam2, tier, seed, replay)
        except Exception:   # a crash of the driver is never a verdict
            import traceback
            print("INFRA-FAILURE property=%s driver exception: %s" % (prop, traceback.format_exc()[-2000:]), flush=True)
            rc = 2
        if ex is not None:
            try:
                design_stats = [f.result() for f in fs]
            except Infra as e:
                print("INFRA-FAILURE property=%s %s" % (prop, str(e)[:3000]), flush=True)
                rc = 2
            finally:
                ex.shutdown(wait=True)
            for d in design_stats:
                log("design %s/%s: %d distinct states" % (d["module"], d["cfg"], d["states"]))
        if rc == 2:
            return 2
        if shape_infos:
            p = vcheck.evidence_path(prop)
            try:
                ev = json.load(open(p))
                ev["coverage"]["original_design_models"] = dict(
                    runs=shape_infos,
                    note="counterexamples of the design as found; each is executed on the real code as chain <replayed_as>#cex<i> "
                         "(a history that violates on the real code is reported through the normal VIOLATION / KNOWN-FINDING path)")
                ev["coverage"]["design_runs"] = design_stats
                ev["coverage"]["states"] += sum(s["states"] for s in shape_infos) + sum(d["states"] for d in design_stats)
                ev["coverage"]["transitions"] += sum(s["transitions"] for s in shape_infos) + sum(d["transitions"] for d in design_stats)
                ev["wall_s"] = round(time.time() - t0, 2)
                tmp = p + ".tmp%d" % os.getpid()
                json.dump(ev, open(tmp, "w"), indent=1, sort_keys=True)
                os.replace(tmp, p)
            except Exception:
                pass
        return rc
    finally:
        shutil.rmtree(pre, ignore_errors=True)


CHECKS = {
    "X11": dict(
        runner=runner,
        pkg="./agentfsm", test="TestExplore", spec_dir=SPEC_DIR, impl_module="AgentFsmImpl",
        design=DESIGN,
        watch=CLAUSES,
        cfg_extra="INVARIANT GhostTracks\n",
        assumptions=[
            "scope: pkg/agent bootstrap.go (Register, RegisterWithRetry, sendRegistration, BootstrapWithZTP / DiscoverNexusURL with ZTPEnabled = false) and "
            "agent.go (New, OnStateChange, OnISPChurn, Start, bootstrapLoop, heartbeatLoop, Stop, State / IsOnline / DeviceID / DeviceConfig / Health, the "
            "subscriber and NTE tables, churn detection). Not covered: NewBootstrapWithAuth and the deviceauth headers, tls.go, ZTP DHCP discovery, the /sys "
            "readers of GetDeviceInfo (SerialOverride is set), GetISPConfig, OnConfigChange (never invoked by the code), watchLoop (a stub)",
            "this tree has no growing / capped backoff (RetryInterval is fixed), never enters StatePartitioned / StateRecovering and has no reaction to "
            "heartbeat failures (the heartbeat is built and logged, `TODO: Send heartbeat to CLSet. For now, just log it`): nothing is demanded about those; "
            "heartbeats are observed where the code puts them, as `Sending heartbeat` debug entries of the agent's own zap logger (observer core)",
            "the Nexus is an http.RoundTripper placed into the Bootstrap's own *http.Client by reflection (core.Field; no hook in /repo): the client with its "
            "hard-coded 30 s timeout, the request construction and the response parsing are the real ones. Like http.Transport the stub refuses a request "
            "whose context is already over without counting it as sent; every other request waits until the harness answers it (`ans`) or the client gives "
            "it up (`abort`: context cancelled or the 30 s timeout - an environment fact for the contract). Scripts: approved (200, config), approved202, "
            "pending (202), rejected, unknown status, empty object, 500, 401, 403 (with an `approved` body), unparsable body, transport error",
            "virtual time: reg / ztp / agent instances live in their own testing/synctest bubble (real time.After, http client timer, time.NewTicker); one unit = "
            "10 s, RetryInterval = 1..4 units, HeartbeatInterval = 2..4 units; harness actions take no virtual time, `adv` advances by whole units with "
            "d <= min(RetryInterval, 3 units), so a step contains at most one attempt event; every step ends with synctest.Wait()",
            "handlers: the harness' state-change and churn handlers do not call the agent (a blocked handler would hang the explorer) but TryRLock the agent's "
            "three mutexes (a.mu, subscribersMu, ntesMu, reached by reflection) and report whether one is write-held - that is what HandlersUnlocked judges",
            "by-MAC / by-NTE lookups of a key that two stored subscribers share follow Go's map iteration order; the lookup is repeated 256 times and the SET "
            "of answers is the observation (the contract accepts any stored holder)",
            "Start is issued once per agent (a second Start would run a second bootstrap loop; the documentation says nothing about it); the "
            "fingerprint is the reflection walk over Agent / Bootstrap plus the harness' view of the registration goroutine (phase, capped attempt count, "
            "capped ages of the request in flight / of the retry timer, phase of the heartbeat ticker); adequacy re-checked on re-reached nodes",
            "bubbles of one process run strictly one after the other (go1.25.0 synctest is not safe with bubbles on several Ps); the table instances "
            "(kind tab) need no bubble and are explored with 4 workers",
        ],
        explanation="AgentFsm.tla (contract: what a user of the registration call, of the Agent and of its tables may rely on, from the comments of "
                    "bootstrap.go / agent.go / types.go) is model-checked against the guarantees stated over absolute histories (AgentFsmDesign: budget, "
                    "spacing, finality of approved / rejected, nothing after cancellation, what the call returns, progress, online only after approval, "
                    "handler calls = state changes, heartbeat count, churn events = ISP changes); AgentFsmShape models the functions of bootstrap.go and "
                    "agent.go (as found: clean for the registration loop and the life cycle, TLC finds the churn handlers invoked inside SetSubscriber's "
                    "critical section; with the proposed repair: clean). AgentFsmImpl walks the transition tables extracted from the real code (all closed "
                    "under their alphabets), seeded random chains and the design counterexamples replayed on the real code.",
    ),
}
