"""Family "keymaps" (property C20): every map "subscriber-identifying key <-> subscriber" of the gateway.

Generic table/trace flow (tablecheck.table_check). Family-specific:
  * sig_extra: the witness signature uses the implementation-level operation name ("how": Allocate,
    LoadFromStore, RemoveSession, DISCOVER+REQUEST, ...) as last_op / ops, so known findings can be matched narrowly;
  * the design configurations depend on the tier;
  * evidence post-processing (long sample vectors truncated, explorer counters added).
"""
import json, os, time
from tablecheck import table_check
import vcheck
from vcheck import VERIF, WORK

WATCH = ["Bijective", "InRanges", "LookupAgrees", "ReleaseLocal", "ReuseAfterRelease"]

DESIGN_QUICK = [("KeyMapsDesign", "MC_design_unique.cfg", 8), ("KeyMapsDesign", "MC_design_index.cfg", 4)]
DESIGN_THOROUGH = DESIGN_QUICK + [("KeyMapsDesign", "MC_design_unique3.cfg", 16), ("KeyMapsDesign", "MC_design_index2.cfg", 16)]


def sig_extra(sig):
    evs = sig.get("events") or []
    # dhcp.Server-circuit: an exchange of a client whose lease is recorded on ANOTHER circuit is labelled ":moved", and
    # histories containing one form their own violation group (a finding about moved clients hides nothing else)
    hows = [(e.get("how") or e.get("op") or "") + (":moved" if e.get("moved") else "") for e in evs]
    out = dict(ops=sorted(set(h for h in hows if h)))
    if hows:
        out["last_op"] = hows[-1]
    if any(e.get("moved") for e in evs):
        out["group_extra"] = "moved"
    return out


def _trim(v, keep=16):
    if isinstance(v, list):
        if len(v) > keep:
            return [_trim(x, keep) for x in v[:keep]] + ["... %d more" % (len(v) - keep)]
        return [_trim(x, keep) for x in v]
    if isinstance(v, dict):
        return {k: _trim(x, keep) for k, x in v.items()}
    return v


def runner(prop, fam, tier, seed, replay=None):
    fam2 = dict(fam)
    fam2["design"] = DESIGN_THOROUGH if tier == "thorough" else DESIGN_QUICK
    fam2["impl_workers"] = 16 if tier == "thorough" else 6
    t0 = time.time()
    rc = table_check(prop, fam2, tier, seed, replay)
    evp = vcheck.evidence_path(prop)
    try:
        if rc not in (0, 1) or os.path.getmtime(evp) < t0:
            return rc   # no fresh evidence was written by this run (infrastructure failure)
        ev = json.load(open(evp))
        cov = ev.get("coverage", {})
        cov["samples"] = _trim(cov.get("samples", []))
        st = os.path.join(WORK, "last-" + prop, "explore__stats.json")
        if os.path.exists(st) and not replay:
            s = json.load(open(st))
            cov["per_instance_table"] = {k: dict(nodes=v[0], edges=v[1], closed=bool(v[2])) for k, v in (s.get("per_system") or {}).items()}
            cov["circuit_ids_keyed"] = s.get("circuit_ids")
        tmp = evp + ".tmp%d" % os.getpid()
        json.dump(ev, open(tmp, "w"), indent=1, sort_keys=True)
        os.replace(tmp, evp)
    except Exception:
        pass
    return rc


CHECKS = {
    "C20": dict(
        runner=runner, sig_extra=sig_extra,
        pkg="./keymaps", test="TestExplore", spec_dir="KeyMaps", impl_module="KeyMapsImpl",
        design=DESIGN_QUICK, watch=WATCH, design_timeout=1500, tlc_timeout=2400, explore_timeout=1500,
        assumptions=[
            "keys and subscribers are numbered by the harness (VLAN pair -> index in the configured ranges, session id / address / MAC -> index in a listed universe; any other value is -2 and never acceptable)",
            "in-range judgement: C-TAG always; S-TAG for allocator-chosen tags; a caller-supplied S-TAG outside the range is not judged (DESIGN.md section 6); untagged (0,0) registrations are not part of the alphabet",
            "VLANAllocator has no reverse getter: its per-outer-tag usage map is read by reflection as the reverse lookup; SessionManager.nextID is pre-set by reflection to cross the 16-bit wrap",
            "attribute indexes (by-MAC where two live objects may share the MAC) are judged by the weaker index contract: no stale / dangling entry, the bound key leads to a holder, a release redirects no other key; an older holder need not be found again after the newer one is gone",
            "LoadFromStore is driven with in-range stored pairs (duplicate, conflicting and re-loaded records); addresses are never shared between slots of the store indexes (a double allocation is property C01)",
            "dhcp.Server relay circuit-id index (leases / leasesByCircuitID, read by reflection): real relayed DHCPv4 messages (giaddr, option 82 with circuit-id and remote-id; the remote-id of every circuit is the circuit-id of another one) through the packet handler in testing/synctest virtual time; forward = circuit-id recorded in the client's lease-table entry, reverse = client whose lease the index names (-1 when that lease object is not the lease table's); a DISCOVER+REQUEST on a circuit whose index entry names another client's lease is a move of the lease (contract op load over the two clients: the result must be a consistent map); [home] every client has one circuit (two clients share one), [roam] every client on every circuit, without time events; address-pool exhaustion is not reached (/23 pool)",
            "circuit-id keys: injectivity is judged on generated corpora (all byte strings <= 2 bytes, relay-style text <= 32 bytes, random 3..64 bytes, pairs sharing a 32-byte prefix, one published FNV-1a collision); the fixed-length 32-byte key is handed to TLC with trailing zero bytes dropped (lossless)",
            "tables are closed under the alphabet where closed=true in per_instance_table; SessionManager tables are bounded prefixes (the id counter grows)",
        ],
        explanation="KeyMaps.tla states C20 as a partial-bijection contract (plus a weaker contract for attribute indexes); KeyMapsDesign model-checks that any answers and lookups the contract accepts "
                    "keep one subscriber per key, in range, with lookups inverse to each other, local releases and obtainable free keys. KeyMapsImpl walks transition tables extracted breadth-first "
                    "from the real VLAN allocator, QinQ mapper, PPPoE session manager (incl. id wrap), the by-IP/by-MAC indexes of three stores and the relay circuit-id index of the DHCPv4 server (real DHCP exchanges), long random chains, and the keys computed for "
                    "corpora of circuit-ids, judging every answer and every forward/reverse lookup.",
    ),
}

MANIFEST = {
    "C20": dict(
        engine="tlc-table", category="model_checking", design_ref="DESIGN.md section 7 C20",
        text=("TLC decides it twice: (1) the contract specification KeyMaps.tla (Bijective, InRanges, LookupAgrees, ReleaseLocal, ReuseAfterRelease) is model-checked exhaustively for small constants "
              "to imply the property for every history of accepted answers; (2) transition tables extracted breadth-first from the real key maps (to a fixed point where the state space is finite), "
              "long random traces and circuit-id corpora are walked by TLC with the contract as monitor, every clause evaluated at every step. Bounded: alphabets, tag ranges, subscriber counts and corpora are finite."),
        technique="TLA+ partial-bijection contract + TLC over extracted transition tables / traces of 16+ key-map instances (VLAN, QinQ, session manager incl. counter jump, state store, subscriber manager, allocation store, DHCP circuit index) and circuit-id key corpora",
        note="trusted: harness numbering of keys and subscribers, reflection-based reads of unexported maps, TLC",
    ),
}
