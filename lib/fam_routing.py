"""Family "routing" (extra family X17, not one of the 20 listed properties): pkg/routing other than BFD / HealthChecker (X03) -
the real SubscriberRouteManager with its retry worker behind an in-memory FRRExecutor, the real SessionRouteIntegration on top of it,
the real route-table Manager with an in-memory RoutingPlatform and its health-check loop (all under testing/synctest virtual time),
and the real BGPController executing a stand-in `vtysh`.

Flow (generic table flow of tablecheck.py): U1 TLC on specs/Routing/RoutingDesign.tla (the repaired design: the contract is silent and the
guarantees stated directly hold), TLC on the design AS FOUND (Fixed = FALSE) whose counterexamples are executed on the real code as chains
(shape#cex<i>), table extraction + seeded random chains on the real code, TLC monitor walk (RoutingImpl), replay of every witness on fresh
objects, findings matched against proposals/routing.json, evidence to evidence-extra/.  Extra family: no MANIFEST entry."""
import json, os, shutil, time
import vcheck
from vcheck import SPECS, WORK, Infra, log, run_tlc
from tablecheck import table_check

CLAUSES = ["CacheExact", "NoLeak", "LiveInstalled", "Idempotent", "Mismatch", "ResultFollowsFrr", "TrackExact", "SrmStatsTrue",
           "TableMirror", "RouteSet", "StateFollowsHealth", "CallbackOnChange", "MgrStatsTrue",
           "BgpMirror", "BgpSet", "BgpResult", "BgpStatsTrue"]

# must describe the same configuration as Cfg in specs/Routing/RoutingDesign.tla
SHAPE_CFG = dict(kind="srm", impl="shape", ns=2, ni=1, maxr=2, ipof=[], nu=0, ops=["inject", "withdraw", "fail", "adv"], depth=0, nsubs=0)

DESIGN = [("RoutingDesign", "MC_design_fixed.cfg", 2)]
DESIGN_THOROUGH = [("RoutingDesign", "MC_design_fixed.cfg", 2), ("RoutingDesign", "MC_design_fixed_deep.cfg", 4)]


def _design_counterexamples(work):
    """TLC on the design as found; returns (tlc result, [(clauses, events)]) - the shortest history per clause set."""
    sd = os.path.join(SPECS, "Routing")
    cfg = open(os.path.join(sd, "MC_design_orig.cfg")).read()
    res = run_tlc(sd, "RoutingDesign", cfg, work, workers=1, timeout=900, name="design_orig")
    if "Model checking completed" not in res["out"] or "Error:" in res["out"]:
        raise Infra("RoutingDesign (design as found) did not run to completion:\n" + res["out"][-2000:])
    best = {}
    for line in res["out"].splitlines():
        line = line.strip()
        if not line.startswith('<<"DESIGN-CEX"'):
            continue
        raw = line[line.index(',') + 1:].strip()
        raw = raw[1:raw.rindex('"')].replace('\\"', '"').replace("\\\\", "\\")
        j = json.loads(raw)
        key = tuple(sorted(j["clauses"]))
        evs = j["events"]
        if key not in best or (len(evs), json.dumps(evs, sort_keys=True)) < (len(best[key]), json.dumps(best[key], sort_keys=True)):
            best[key] = evs
    return res, [(list(k), v) for k, v in sorted(best.items())]


def _design_must_pass(work, module, cfgfile, workers):
    sd = os.path.join(SPECS, "Routing")
    res = run_tlc(sd, module, open(os.path.join(sd, cfgfile)).read(), work, workers=workers, timeout=1500, name=cfgfile[:-4])
    if "No error has been found" not in res["out"]:
        raise Infra("design spec %s/%s did not pass TLC (a specification problem, not a verdict):\n%s" % (module, cfgfile, res["out"][-3000:]))
    return dict(module=module, cfg=cfgfile, states=res["distinct"], transitions=res["generated"])


def runner(prop, fam, tier, seed, replay=None):
    t0 = time.time()
    pre = os.path.join(WORK, "%s-shape-%d" % (prop, os.getpid()))
    shutil.rmtree(pre, ignore_errors=True)
    os.makedirs(pre)
    try:
        fam2 = dict(fam)
        fam2.pop("runner", None)
        fam2["design"] = []
        shape_info, design_stats = None, []
        if not replay:
            try:
                res, cex = _design_counterexamples(pre)
                design_stats = [_design_must_pass(pre, m, c, w) for (m, c, w) in (DESIGN_THOROUGH if tier == "thorough" else DESIGN)]
            except Infra as e:
                print("INFRA-FAILURE property=%s %s" % (prop, str(e)[:3000]), flush=True)
                return 2
            for d in design_stats:
                log("design %s/%s: %d distinct states" % (d["module"], d["cfg"], d["states"]))
            if not cex:
                print("INFRA-FAILURE property=%s the design as found produced no counterexample (the model no longer describes the code as found)" % prop, flush=True)
                return 2
            cases = [dict(id="cex%d" % i, system="shape", events=evs, cfg=SHAPE_CFG, clauses=cl) for i, (cl, evs) in enumerate(cex)]
            cf = os.path.join(pre, "extra_cases.json")
            json.dump(dict(property=prop, cases=cases), open(cf, "w"))
            env = dict(fam2.get("env", {}))
            env["VERIF_EXTRA_CASES"] = cf
            fam2["env"] = env
            shape_info = dict(module="RoutingDesign", cfg="MC_design_orig.cfg", states=res["distinct"], transitions=res["generated"],
                              counterexamples=[dict(clauses=cl, events=evs) for cl, evs in cex],
                              note="counterexamples of the design as found; each is executed on the real SubscriberRouteManager as chain shape#cex<i>")
            log("design as found: %d counterexample histories (%s)" % (len(cex), "; ".join(",".join(c) for c, _ in cex)))
        try:
            rc = table_check(prop, fam2, tier, seed, replay)
        except Exception:   # a crash of the driver is never a verdict
            import traceback
            print("INFRA-FAILURE property=%s driver exception: %s" % (prop, traceback.format_exc()[-2000:]), flush=True)
            return 2
        if rc == 2:
            return 2
        if shape_info is not None:
            p = vcheck.evidence_path(prop)
            try:
                ev = json.load(open(p))
                ev["coverage"]["original_design_model"] = shape_info
                ev["coverage"]["design_runs"] = design_stats
                ev["coverage"]["states"] += shape_info["states"] + sum(d["states"] for d in design_stats)
                ev["coverage"]["transitions"] += shape_info["transitions"] + sum(d["transitions"] for d in design_stats)
                ev["wall_s"] = round(time.time() - t0, 2)
                tmp = p + ".tmp%d" % os.getpid()
                json.dump(ev, open(tmp, "w"), indent=1, sort_keys=True)
                os.replace(tmp, p)
            except Exception:
                pass
        return rc
    finally:
        shutil.rmtree(pre, ignore_errors=True)


CHECKS = {
    "X17": dict(
        runner=runner,
        pkg="./routing", test="TestExplore", spec_dir="Routing", impl_module="RoutingImpl",
        design=DESIGN,
        watch=CLAUSES,
        impl_workers=4,
        assumptions=[
            "FRR is the harness: SubscriberRouteManager / SessionRouteIntegration run against an in-memory FRRExecutor (SetFRRExecutor, the seam the package provides "
            "'for testing') that applies `network` / `no network` lines to a set, refuses every command while the harness' fail switch is on, and forgets everything on "
            "`reset` (an FRR restart); BGPController executes a stand-in `vtysh` (shell script, real os/exec path, own directory per controller) with the same semantics",
            "the kernel is the harness: Manager runs against an in-memory RoutingPlatform with the semantics of the package's own StubPlatform and of netlink_linux.go "
            "(adding an existing (destination, gateway) replaces it, deleting an absent route is not an error), a fail switch, and a scripted Ping",
            "virtual time: every srm / sri / mgr instance lives in its own testing/synctest bubble, bubbles strictly one after the other; RetryInterval and "
            "HealthCheckInterval are 5 s, the harness acts half an interval off the ticks and `adv` advances exactly one interval (one retry pass / one CheckAll)",
            "WithdrawalDelay = 0, EnableGracefulShutdown = false (its body is a log line), BulkInject/BulkWithdraw are loops over the single calls and not driven separately",
            "`sure` (the contract's ghost) is the weakest reading of when FRR must agree with the cache: after a call on that address that returned nil, after a retry pass "
            "with a healthy FRR while a failed operation on that address was still within MaxRetries, after ReconcileRoutes returned nil (live addresses only); never after an "
            "FRR restart until one of these happens",
            "sri: one address is never used by two live sessions at once (the monitor stops judging a history in which the harness does that); RecoverRoutes = ReconcileRoutes",
            "fingerprint = observation + reflection walk over the manager (statistics and wall-clock fields skipped) + the fail switch + a digest of the retry worker's "
            "goroutine-local queue kept by the harness (failed operations with their retry counts; node identity only, never a verdict; adequacy re-checked on re-reached nodes); "
            "mgr: + the health checker's hysteresis counters saturated at their thresholds. The retry queue and the duplicate table entries make most tables unbounded: they are "
            "cut at a depth cap (cfg.depth) and are not closed",
            "not covered: policy rules, ISP tables, ECMP next-hops, BGP neighbours / monitor loop (refreshNeighbors has the shape of X03's BFD finding), metrics.go, "
            "netlink_linux.go itself, context cancellation inside WithdrawRoute",
        ],
        explanation="Routing.tla (contract, 17 clauses) judges every step of the real objects; RoutingDesign models subscriber_routes.go section by section (cache update, FRR call, "
                    "retry pass) with the contract as monitor next to the guarantee stated directly (FRR = cache whenever nothing is pending and FRR is healthy): as found TLC finds "
                    "the stale retries (a queued injection re-installs the route of an ended session; a queued withdrawal removes a live session's route), with the proposed repair "
                    "(the retry pass consults the cache) contract and guarantee are clean. RoutingImpl walks the transition tables extracted from the real objects, seeded random "
                    "chains and the design counterexamples replayed on the real code.",
    ),
}
