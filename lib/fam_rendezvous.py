"""Family "rendezvous" (property C17): subscriber ownership among peer gateways (pkg/pool/peer.go).

Generic table/trace flow (tablecheck.table_check) with two family-specific touches:
  * the exhaustive design configurations depend on the tier (the 4-node "every ranking" run of the
    intended design and the second observation order only in the thorough tier);
  * evidence post-processing: the answer vectors of the sample events are truncated (they carry one
    packed answer per subscriber id) and the explorer's own counters are added.
"""
import json, os, time
from tablecheck import table_check
import vcheck
from vcheck import VERIF, WORK

WATCH = ["Agreement", "RankedStartsWithOwner", "RankedIsPermutation", "MinimalDisruption", "ServedByOne"]

DESIGN_QUICK = [("RendezvousDesign", "MC_design_contract3.cfg", 8), ("RendezvousDesign", "MC_design_owner4asc.cfg", 8),
                ("RendezvousDesign", "MC_design_health.cfg", 4), ("RendezvousDesign", "MC_design_hrw3.cfg", 4)]
DESIGN_THOROUGH = DESIGN_QUICK + [("RendezvousDesign", "MC_design_owner4desc.cfg", 8), ("RendezvousDesign", "MC_design_hrw4.cfg", 16)]


def _trim(v, keep=12):
    if isinstance(v, list):
        if len(v) > keep and all(not isinstance(x, (dict, list)) for x in v):
            return v[:keep] + ["... %d more" % (len(v) - keep)]
        if len(v) > keep:
            return [_trim(x, keep) for x in v[:keep]] + ["... %d more" % (len(v) - keep)]
        return [_trim(x, keep) for x in v]
    if isinstance(v, dict):
        return {k: _trim(x, keep) for k, x in v.items()}
    return v


def runner(prop, fam, tier, seed, replay=None):
    fam2 = dict(fam)
    fam2["design"] = DESIGN_THOROUGH if tier == "thorough" else DESIGN_QUICK
    fam2["impl_workers"] = 16 if tier == "thorough" else 6
    t0 = time.time()
    rc = table_check(prop, fam2, tier, seed, replay)
    evp = vcheck.evidence_path(prop)
    try:
        if rc not in (0, 1) or os.path.getmtime(evp) < t0:
            return rc   # no fresh evidence was written by this run (infrastructure failure)
        ev = json.load(open(evp))
        cov = ev.get("coverage", {})
        cov["samples"] = _trim(cov.get("samples", []))
        st = os.path.join(WORK, "last-" + prop, "explore__stats.json")
        if os.path.exists(st) and not replay:
            s = json.load(open(st))
            cov["peer_sets_by_size"] = s.get("universes_by_size")
            cov["subscriber_ids_per_block"] = s.get("subs_per_block")
            cov["owner_answers_judged"] = s.get("owner_answers")
            cov["end_to_end_http_requests"] = s.get("e2e_requests")
            cov["rule"] = ("every edge is one observation event on real pool.PeerPool objects: a node freshly configured with a peer list "
                           "(every order / self absent / duplicated entries / every subset), a peer added, removed or marked (un)healthy on the live "
                           "node, or a batch of Allocate requests entering at one node of a three-node loopback HTTP cluster; after every event the node "
                           "is asked GetOwner, IsLocalOwner, the ranked list and the effective owner for every subscriber id of the block "
                           "(owner_answers_judged = events x ids). non-trivial = the event changed the configured peer set or health view.")
        tmp = evp + ".tmp%d" % os.getpid()
        json.dump(ev, open(tmp, "w"), indent=1, sort_keys=True)
        os.replace(tmp, evp)
    except Exception:
        pass
    return rc


CHECKS = {
    "C17": dict(
        runner=runner,
        pkg="./rendezvous", test="TestExplore", spec_dir="Rendezvous", impl_module="RendezvousImpl",
        design=DESIGN_QUICK, watch=WATCH, design_timeout=1500, tlc_timeout=2400, explore_timeout=1500,
        assumptions=[
            "node ids are projected to numbers 1..8 by exact byte-string equality inside one universe (0 = not a node of the universe); answers are packed positionally (Rendezvous.tla 'Answer encoding')",
            "the configured peer set of a node is what the operator gave it: set(Peers) + NodeID, + AddPeer, - RemovePeer (a set of names)",
            "ranked list, effective (healthy) owner and the health setter are reached through the verif-tagged hooks in pkg/pool/verif_hooks.go (rendezvousRanked / getHealthyOwner are unexported); health is set directly instead of through three failed HTTP probes",
            "end-to-end: node id == peer address (what getPeerAddr assumes); the nodes' HTTP clients dial the logical address through a custom dialer to the loopback listener; every node has its own disjoint pool network so an address identifies its pool; pool contents are read by reflection",
            "end-to-end subscriber ids are valid UTF-8 (a forwarded request carries the id in a JSON body, which replaces invalid bytes: the owner books such a subscriber under another id - noted, not judged under C17)",
            "the failure scenario marks the stopped node unhealthy in every surviving view and only asks the surviving nodes for fresh subscriber ids (split views of health are outside the property)",
            "configurations where node ids and peer addresses use different naming (NodeID 'bng-0', Peers 'bng-0:8081,...') give every node a different peer set and are not a common 'peer set' in the sense of the property: not judged",
            "bounded: peer sets of size <= 5 (quick) / <= 8 (thorough) from a pool of 22 tricky strings incl. two ids with equal FNV-1a hash; all orders up to size 4 (quick) / 5 (thorough), sampled above",
        ],
        explanation="Rendezvous.tla states C17 as relations between answers (no hash is modelled). RendezvousDesign model-checks that any answers the contract accepts are explained by ONE "
                    "ranking per subscriber (agreement, multi-step minimal disruption) and that the intended highest-random-weight design is accepted for every ranking. RendezvousImpl walks "
                    "observation chains recorded from real PeerPool instances - every node, order, subset, add/remove/health history, 200-5000 subscriber ids per peer set, three nodes over "
                    "loopback HTTP - and judges every answer against the contract.",
    ),
}

MANIFEST = {
    "C17": dict(
        engine="tlc-table", category="model_checking", design_ref="DESIGN.md section 7 C17",
        text=("TLC decides it twice: (1) the contract specification (Rendezvous.tla: Agreement, RankedStartsWithOwner, RankedIsPermutation, MinimalDisruption, ServedByOne) is model-checked "
              "exhaustively for 3 and 4 nodes to imply the existence of one ranking per subscriber and to accept the intended HRW design for every ranking; (2) observation chains recorded from "
              "real pool.PeerPool instances (all configuration orders, all subsets, add/remove/health histories, end-to-end over loopback HTTP) are walked by TLC with the contract as monitor. "
              "Bounded by the explored peer sets, orders and subscriber ids; within them every answer is judged."),
        technique="TLA+ contract + TLC over recorded observation chains of real PeerPool nodes (sets of 1-8 arbitrary node ids, 200-5000 subscriber ids, 3-node loopback HTTP cluster)",
        note="trusted: harness projection of node-id strings to numbers and the positional packing of answers, the verif hooks exposing the unexported ranked list / effective owner, TLC",
    ),
}
