"""C04: PPPoE access concentrator - no IP service without authentication, foreign frames inert."""
CHECKS = {"C04": dict(
    pkg="./pppoesrv", test="TestExplore", spec_dir="PppoeSession", impl_module="PppoeImpl",
    design=[("PppoeDesign", "MC_design.cfg", 4), ("PppoeDesign", "MC_design_noradius.cfg", 4)],
    watch=["AuthGate", "ForeignInert"],
    assumptions=[
        "frames are injected at the server's discovery/session entry points (verif hook) from an owner or a foreign MAC; the raw socket is an in-memory recorder",
        "RADIUS is a real UDP server on loopback scripted by password: 'good' accept, 'bad' reject, 'slow' no answer (client timeout 60 ms, 1 try); without a RADIUS client the server accepts every PAP request by design",
        "PAP only (the server's inline PPP implementation has no CHAP path)",
    ],
    explanation="PppoeDesign.tla models the handlers of pkg/pppoe/server.go one action per frame kind and is model-checked for AuthGate/ForeignInert; PppoeImpl.tla walks tables extracted "
                "breadth-first from the real server over {PADI,PADR,PADT,LCP cfg-req/ack/nak/term/echo,PAP good/bad/slow,IPCP cfg-req/ack,IP} x {2-3 MACs} x {2-3 session ids} and random traces.",
)}
MANIFEST = {"C04": dict(
    engine="tlc-table", category="model_checking", design_ref="DESIGN.md section 7 C04",
    text="TLC model-checks an implementation-shaped model of the PPPoE server's frame handlers (PppoeDesign) and walks transition tables and random traces extracted from the real server, "
         "judging the session table and the emitted frames after every injected frame against the authentication-gate and foreign-frame clauses.",
    technique="TLA+ session contract + TLC over tables/traces extracted from the real PPPoE server via an in-memory socket",
    note="trusted: frame construction/decoding with the package's own codec, scripted RADIUS peer; bounded by alphabet, depth and node caps")}
