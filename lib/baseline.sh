#!/bin/bash
# Runs the repository's pinned test suite (hooks off: no build tag) and compares with the stable_pass list in /root/.vp/BASELINE.json.
# usage: lib/baseline.sh [repo]   -> prints missing stable-pass tests (those that did not pass)
R=${1:-/repo}
OUT=$(mktemp /tmp/baseline.XXXXXX.json)
(cd $R && GOFLAGS=-mod=mod GOPROXY=off go test -mod=mod -json -vet=off -count=1 -timeout 25m ./... > $OUT 2>/dev/null)
python3 - "$OUT" <<'PY'
import json,sys
base=json.load(open('/root/.vp/BASELINE.json'))
stable=set(base['stable_pass'])
passed=set(); failed=set()
for l in open(sys.argv[1]):
    try: e=json.loads(l)
    except Exception: continue
    if e.get('Test') and e.get('Action') in ('pass','fail'):
        k=e['Package']+'::'+e['Test']
        (passed if e['Action']=='pass' else failed).add(k)
print("stable_pass listed:",len(stable)," passed now:",len(stable&passed)," total passed:",len(passed)," failed:",len(failed))
for k in sorted(stable-passed): print("NOT PASSING (stable):",k)
for k in sorted(failed-stable): print("failing, not in stable list:",k)
PY
rm -f $OUT
