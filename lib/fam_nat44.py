"""Family "nat44" (extra family X13, not one of the 20 listed properties): the fourth kernel program bpf/nat44.c (SNAT / DNAT, session and
reverse maps, port selection inside the subscriber's port block, endpoint-independent mapping, ICMP echo, ALG pass-through) executed NATIVELY
through cshim/drv_nat44.c, fed by the real nat.Manager: the manager decides the port blocks and writes nat_config_map / alg_ports /
hairpin_ips - and, in the mgr systems, subscriber_nat - through cilium/ebpf into REAL kernel maps created with the sizes the C source
declares; the raw bytes are mirrored into the native program.

Generic table flow (tablecheck.py): U1 (Nat44Design: the contract implies the guarantees stated over absolute histories; Nat44Shape: the
port selection of nat44.c one action per step, as found and repaired), table extraction + seeded random chains on the real code, TLC monitor
walk (Nat44Impl), replay of every witness on fresh objects, known findings (proposals/nat44.json), evidence (evidence-extra/).

Extra family: no MANIFEST entry."""

CLAUSES = ["AllocWhenFree", "BlockDisjoint", "LayoutAgree", "NoBlockUntouched", "AlgUntouched", "Translated", "DropOnlyExhausted", "InBlock",
           "Stable", "PortUnique", "Parity", "InboundExact", "InboundDelivered", "UnmappedNotDelivered", "StaleAfterRelease",
           "ChecksumValid", "RestUntouched"]

DESIGN = [("Nat44Design", "MC_design.cfg", 2), ("Nat44Design", "MC_design_eim.cfg", 2), ("Nat44Shape", "MC_shape_fixed.cfg", 1)]

CHECKS = {
    "X13": dict(
        pkg="./nat44", test="TestExplore", spec_dir="Nat44", impl_module="Nat44Impl",
        design=DESIGN,
        watch=CLAUSES,
        impl_workers=4,
        nsubs=0,
        assumptions=[
            "bpf/nat44.c is compiled unmodified as user-space C from the checked tree with the shim helper headers (cshim/, driver cshim/drv_nat44.c); the kernel verifier, the JIT, "
            "LRU eviction (maps behave as plain hash maps) and per-CPU copies are not involved; one packet at a time (no concurrent CPUs)",
            "nat_config_map, alg_ports, hairpin_ips are REAL kernel maps with the key/value sizes the C source declares, injected into the real nat.Manager by reflection; the "
            "manager's own writes (AddPublicIP, ConfigureALG) go through cilium/ebpf; Manager.Start (needs the compiled object and an interface) is replaced by the one write it "
            "makes into nat_config_map, with the flag word read back from the real buildFlags() via the pool entry; the bytes are mirrored into the native program (changes only)",
            "writer=native (systems dp-*, rnd): the real manager decides the block (AllocateNAT / DeallocateNAT, no subscriber_nat map attached - as in its own tests) and the "
            "harness encodes the subscriber_nat entry the way bpf/nat44.c declares struct subscriber_nat (key = address bytes in wire order): the data plane is judged on what a "
            "control plane that agrees with the C declaration would write.  writer=mgr: subscriber_nat is a kernel map of the C-declared size written by the manager itself; "
            "writer=mgrpad: a kernel map of the size cilium/ebpf marshals nat.SubscriberNAT to (60 bytes), zero-padded to the C size (64) when mirrored",
            "frames: Ethernet + IPv4 without options + UDP / TCP / ICMP echo with correct checksums; the projection of the frame that comes out (which address / port changed, whether "
            "anything else changed, whether the checksums verify by full recomputation) is the trusted byte-level step; what the program sees under an address (clause LayoutAgree) "
            "is produced by the C compilation itself (pseudo program `view` of the driver), not by offsets known to the harness",
            "a mapping lives from the first translated packet until the subscriber's allocation is released (the program has no expiry: the timeout constants are never used - recorded); "
            "packets from a remote the endpoint never contacted are unconstrained (the EIF flag is never read by the program - recorded)",
            "not covered: fragments, IP options, ICMP errors, the XDP hairpin detector and hairpin delivery (the program only SNATs a hairpin packet - recorded), the log ring, statistics, "
            "pkg/nat/alg.go (its dynamic mappings live in a Go map only and never reach a kernel map - recorded, nothing to bind)",
        ],
        explanation="Nat44.tla (contract, 17 clauses) restates the comments of bpf/nat44.c and pkg/nat/manager.go; Nat44Impl walks the transition tables (breadth-first closure over "
                    "ALLOC / DEALLOC / outbound / inbound packets from fresh objects) and seeded random chains extracted from the real manager + the natively executed nat44.c.",
    ),
}
