"""Generic flow for families whose implementation behaviour is extracted as transition tables /
chains (bundle.json) and judged by a TLA+ monitor spec walking them."""
import json, os, sys, time, collections
from vcheck import *


def cfg_impl(watch, extra=""):
    w = ", ".join('"%s"' % c for c in sorted(watch))
    return ("SPECIFICATION Spec\nCONSTANT Watch = {%s}\n%sINVARIANTS Report\nVIEW View\nCHECK_DEADLOCK FALSE\n" % (w, extra))


class Bundle:
    def __init__(self, path):
        self.b = json.load(open(path))
        self.b["systems"] = self.b.get("systems") or []   # every case of a replay may have panicked
        self.by_name = {}
        for s in self.b["systems"]:
            em = {}
            for i, es in enumerate(s["edges"]):
                for e in es:
                    em[e["id"]] = (i + 1, e)
            self.by_name[s["name"]] = (s, em)

    def events(self, system, path):
        s, em = self.by_name[system]
        return [em[i][1]["ev"] for i in path]

    def cfg(self, system):
        return self.by_name[system][0]["cfg"]

    def counts(self):
        tables = [s for s in self.b["systems"] if "#" not in s["name"]]
        chains = [s for s in self.b["systems"] if "#" in s["name"]]
        nodes = sum(len(s["nodes"]) for s in tables)
        edges = sum(len(es) for s in tables for es in s["edges"])
        cev = sum(len(s["nodes"]) - 1 for s in chains)
        closed = sum(1 for s in tables if s.get("closed"))
        return dict(tables=len(tables), chains=len(chains), table_nodes=nodes, table_edges=edges, chain_events=cev, closed_tables=closed)

    def nontrivial(self):
        """distinct (impl, op, result, changed?) classes among all observed transitions that changed the
        observation or returned an error"""
        seen = set()
        for s in self.b["systems"]:
            impl = s["cfg"].get("impl", s["name"])
            for i, es in enumerate(s["edges"]):
                for e in es:
                    ev = e["ev"]
                    changed = json.dumps(s["nodes"][i], sort_keys=True) != json.dumps(s["nodes"][e["to"] - 1], sort_keys=True)
                    if changed or not ev.get("ok", True):
                        key = (impl, s["cfg"].get("geo", ""), json.dumps({k: v for k, v in ev.items() if k != "err"}, sort_keys=True),
                               json.dumps(s["nodes"][i], sort_keys=True))
                        seen.add(key)
        return len(seen)

    def samples(self, n=3):
        out = []
        for s in self.b["systems"]:
            # walk first edges to depth 5
            path, node = [], s["init"]
            for _ in range(6):
                es = s["edges"][node - 1]
                if not es:
                    break
                e = es[len(path) % len(es)]
                path.append({k: v for k, v in e["ev"].items()})
                node = e["to"]
            out.append({"system": s["name"], "events": path, "final_observation": s["nodes"][node - 1]})
            if len(out) >= n:
                break
        return out


def table_check(prop, fam, tier, seed, replay=None):
    t0 = time.time()
    work = workdir(prop)
    known = load_known()
    try:
        return _table_check(prop, fam, tier, seed, replay, work, known, t0)
    except Infra as e:
        print("INFRA-FAILURE property=%s %s" % (prop, str(e)[:3000]), flush=True)
        return 2
    finally:
        if not os.environ.get("VERIF_KEEP"):
            cleanup(work)


def _sig(bundle, v, fam):
    evs = bundle.events(v["system"], v["path"])
    cfg = bundle.cfg(v["system"])
    sig = dict(impl=cfg.get("impl", v["system"].split("#")[0]), system=v["system"], clauses=sorted(v["clauses"]),
               last_op=(evs[-1].get("op") if evs else "init"), ops=sorted({e.get("op") for e in evs}), events=evs, cfg=cfg)
    if fam.get("sig_extra"):
        sig.update(fam["sig_extra"](sig))
    return sig


def _run_impl_tlc(fam, watch, work, bundle_path, name, workers=1):
    res = run_tlc(os.path.join(SPECS, fam["spec_dir"]), fam["impl_module"], cfg_impl(watch, fam.get("cfg_extra", "")), work,
                  files={bundle_path: "bundle.json"}, workers=workers, timeout=fam.get("tlc_timeout", 3000), name=name)
    err = tlc_error(res)
    if err:
        raise Infra("TLC failed on %s:\n%s" % (name, err))
    return res, parse_violations(res["out"])


def _add_regressions(prop, fam, binp, work, tier, seed, env, bpath, stats):
    """Histories that once exposed a defect (regress/<prop>/<harness package>/*.json, replay-file format) are run again
    on the real code in every run and judged with everything else: their chains are appended to the bundle."""
    import glob
    d = os.path.join(VERIF, "regress", prop, fam["pkg"].strip("./"))
    cases = []
    for f in sorted(glob.glob(os.path.join(d, "*.json"))):
        for c in json.load(open(f)).get("cases", []):
            c = dict(c, id="reg-%s-%s" % (os.path.basename(f)[:-5], c.get("id", "0")))
            cases.append(c)
    if not cases:
        return 0
    rfile = os.path.join(work, "regress_cases.json")
    json.dump(dict(property=prop, cases=cases), open(rfile, "w"))
    rout = os.path.join(work, "regress")
    renv = dict(env)
    renv["VERIF_REPLAY"] = rfile
    run_explorer(binp, fam["test"], rout, tier, seed, renv, timeout=1200)
    rb = json.load(open(os.path.join(rout, "bundle.json")))
    rst = json.load(open(os.path.join(rout, "stats.json")))
    b = json.load(open(bpath))
    b["systems"].extend(rb["systems"])
    json.dump(b, open(bpath, "w"))
    stats["chains"] = stats.get("chains", 0) + len(rb["systems"])
    stats["regression_chains"] = len(rb["systems"])
    if rst.get("panics"):
        stats["panics"] = (stats.get("panics") or []) + rst["panics"]
    log("%d regression histories replayed" % len(rb["systems"]))
    return len(rb["systems"])


def _table_check(prop, fam, tier, seed, replay, work, known, t0):
    watch = fam["watch"]
    binp = build_harness(fam["pkg"], work)
    design_stats = []
    if not replay:
        for ent in fam.get("design", []):
            (module, cfgfile, workers) = ent[:3]
            if len(ent) > 3 and ent[3] != tier:
                continue
            cfgtxt = open(os.path.join(SPECS, fam["spec_dir"], cfgfile)).read()
            res = run_tlc(os.path.join(SPECS, fam["spec_dir"]), module, cfgtxt, work, workers=workers, timeout=fam.get("design_timeout", 1800), name=cfgfile[:-4])
            if "No error has been found" not in res["out"]:
                raise Infra("design spec %s/%s did not pass TLC (a specification problem, not a verdict):\n%s" % (module, cfgfile, res["out"][-3000:]))
            design_stats.append(dict(module=module, cfg=cfgfile, states=res["distinct"], transitions=res["generated"]))
            log("design %s/%s: %d distinct states" % (module, cfgfile, res["distinct"]))

    env = dict(fam.get("env", {}))
    env["VERIF_PROP"] = prop
    outdir = os.path.join(work, "explore")
    if replay:
        env["VERIF_REPLAY"] = os.path.abspath(replay)
    run_explorer(binp, fam["test"], outdir, tier, seed, env, timeout=fam.get("explore_timeout", 3000))
    bpath = os.path.join(outdir, "bundle.json")
    stats = json.load(open(os.path.join(outdir, "stats.json")))
    nreg = 0
    if not replay:
        nreg = _add_regressions(prop, fam, binp, work, tier, seed, env, bpath, stats)
    bundle = Bundle(bpath)
    res, viols = _run_impl_tlc(fam, watch, work, bpath, "impl", workers=fam.get("impl_workers", 1))
    log("impl TLC: %d distinct states, %d violating states" % (res["distinct"], len(viols)))

    # group, pick the shortest witness per group
    groups = {}
    for v in viols:
        sig = _sig(bundle, v, fam)
        key = (sig["impl"], tuple(sig["clauses"]), sig["last_op"], sig.get("group_extra", ""))
        if key not in groups or len(sig["events"]) < len(groups[key]["events"]):
            groups[key] = sig
    panics = stats.get("panics") or []
    for p in panics:
        evs = p.get("path") or []
        impl = p["system"].split("#")[0]
        key = (impl, ("Panic",), evs[-1].get("op") if evs else "init", "")
        pcfg = {"nsubs": fam.get("nsubs", 3)}
        if p.get("cfg"):
            pcfg = dict(p["cfg"])
        for sysm in ([] if p.get("cfg") else bundle.b["systems"]):       # the configuration of the system that panicked, if its table was emitted
            if sysm["name"] == p["system"] or sysm["name"].split("#")[0] == impl:
                pcfg = dict(sysm.get("cfg") or pcfg)
                break
        sig = dict(impl=impl.split("/")[0], system=p["system"], clauses=["Panic"], last_op=key[2], ops=sorted({e.get("op") for e in evs}), events=evs,
                   cfg=pcfg, msg=p["msg"][:300])
        if key not in groups or len(evs) < len(groups[key]["events"]):
            groups[key] = sig

    new, knownhits = [], []
    if groups:
        # confirm every group's witness on fresh objects (one explorer run + one TLC run)
        cases = []
        for i, (key, sig) in enumerate(sorted(groups.items(), key=lambda kv: str(kv[0]))):
            cases.append(dict(id="r%d" % i, system=sig["system"], nsubs=sig["cfg"].get("nsubs", 3), events=sig["events"], cfg=sig["cfg"]))
            sig["case_id"] = "r%d" % i
        rfile = os.path.join(work, "replay_cases.json")
        json.dump(dict(property=prop, cases=cases), open(rfile, "w"))
        routdir = os.path.join(work, "replay")
        renv = dict(env)
        renv["VERIF_REPLAY"] = rfile
        run_explorer(binp, fam["test"], routdir, tier, seed, renv, timeout=1200)
        rb = os.path.join(routdir, "bundle.json")
        rstats = json.load(open(os.path.join(routdir, "stats.json")))
        rbundle = Bundle(rb)
        if rbundle.b["systems"]:
            rres, rviols = _run_impl_tlc(fam, watch, work, rb, "replay")
        else:
            rviols = []          # every replayed case panicked: nothing for the monitor to walk
        confirmed = collections.defaultdict(set)
        for v in rviols:
            confirmed[v["system"].split("#")[-1]] |= set(v["clauses"])
        for p in (rstats.get("panics") or []):
            confirmed[p["system"].split("#")[-1]].add("Panic")
        for key, sig in sorted(groups.items(), key=lambda kv: str(kv[0])):
            got = confirmed.get(sig["case_id"], set())
            if not (set(sig["clauses"]) & got):
                raise Infra("violation %s on %s did not reproduce on a fresh object (events=%s)" % (sig["clauses"], sig["system"], json.dumps(sig["events"])[:1500]))
            f = match_known(known, prop, sig)
            if f:
                knownhits.append((f, sig))
            else:
                new.append(sig)

    seen_known = set()
    for f, sig in knownhits:
        if f["id"] in seen_known:
            continue
        seen_known.add(f["id"])
        print("KNOWN-FINDING: property=%s %s [%s] (witness on %s: %d events, clauses %s)" % (prop, f["what"], f["id"], sig["system"], len(sig["events"]), ",".join(sig["clauses"])), flush=True)
    rc = 0
    for sig in new:
        rp = write_replay(prop, sig["impl"] + "-" + "-".join(sig["clauses"]),
                          dict(property=prop, cases=[dict(id="r0", system=sig["system"], nsubs=sig["cfg"].get("nsubs", 3), events=sig["events"], cfg=sig["cfg"])],
                               clauses=sig["clauses"], note=sig.get("msg", "")))
        print("VIOLATION property=%s replay=%s clauses=%s impl=%s last_op=%s events=%d" % (prop, rp, ",".join(sig["clauses"]), sig["impl"], sig["last_op"], len(sig["events"])), flush=True)
        rc = 1

    inadequate = [m for sysm in bundle.b["systems"] for m in (sysm.get("adequacy") or [])]
    if inadequate:
        if rc == 0:
            raise Infra("exploration inadequate (non-deterministic implementation or fingerprint too coarse), no reproducible violation:\n" + inadequate[0][:2500])
        log("note: %d adequacy failures during exploration (the violations above were reproduced on fresh objects): %s" % (len(inadequate), inadequate[0][:300]))
    counts = bundle.counts()
    cov = dict(
        states=res["distinct"] + sum(d["states"] for d in design_stats),
        transitions=res["generated"] + sum(d["transitions"] for d in design_stats),
        traces_validated_against_impl=counts["chains"] + counts["tables"],
        samples=bundle.samples(3),
        evaluations=counts["table_edges"] + counts["chain_events"],
        distinct_nontrivial=bundle.nontrivial(),
        rule="every edge is one operation executed on the real implementation object (tables: breadth-first closure over the alphabet from fresh objects, "
             "chains: seeded random sequences); non-trivial = the operation changed the observable abstract state or returned an error; distinct by "
             "(implementation, geometry, operation+result, abstract pre-state)",
        impl_tables=counts["tables"], impl_table_nodes=counts["table_nodes"], impl_table_edges=counts["table_edges"], closed_tables=counts["closed_tables"],
        impl_chains=counts["chains"], impl_chain_events=counts["chain_events"],
        tlc_impl_states=res["distinct"], tlc_impl_transitions=res["generated"],
        design_runs=design_stats, clauses_watched=sorted(watch),
        violating_states=len(viols), violation_groups=len(groups), known_findings_hit=sorted(seen_known), new_violations=len(new),
        exhaustive=False,
        explanation=fam.get("explanation", ""),
    )
    if replay:
        cov["replay_of"] = replay
    write_evidence(prop, tier, seed, "model_checking", cov, fam.get("assumptions", []), time.time() - t0, len(new))
    log("done rc=%d wall=%.1fs" % (rc, time.time() - t0))
    return rc
