"""Family "wire" (C09): no packet from the network can crash or hang the gateway.

Two-phase flow (own runner; the generic table flow does not fit):
  1. TLC enumerates specs/WireGrammar (WireGrammarGen, MC_<tier>.cfg): every initial state is one abstract frame; the run also checks the grammar
     (bounds, completeness of the boundary classes for the safe-slice case analysis, non-vacuity) and writes frames.json.
  2. harness/wire concretises every abstract frame into bytes and delivers it, in child processes, to every (entry point, protocol state) the
     specification lists for its format, on a fresh object each; plus random byte strings and byte-level mutants per entry point. Inputs are logged
     before delivery; a process that dies is attributed to the last logged input and re-checked in isolation; over-budget inputs are re-measured
     three times in isolation.
  3. TLC walks results.json (WireGrammarImpl): every event (entry point, state, abstract frame) -> outcome is judged against NoPanic / NoHang, and the
     coverage of frames.json by the executed events is checked (a gap is exit 2, never a verdict).
  4. every violation group (entry point, clause, code location) is replayed alone in a fresh process and judged again by TLC before it counts.
"""
import json, os, time
import vcheck
from vcheck import Infra, log

SPEC_DIR = os.path.join(vcheck.SPECS, "WireGrammar")
WATCH = ["NoPanic", "NoHang"]

ASSUMPTIONS = [
    "the decision is over the boundary classes of the wire grammar (declared length in {0, header-1, header, actual-1, actual, actual+1, max, header counted the other way} "
    "x leaf size in {0, 1, natural-1, natural, natural+1, oversize} x truncation in {none, inside header, inside value} on small trees) plus seeded random byte strings and "
    "byte-level mutants per entry point; a panic that needs one specific payload byte value outside those classes is out of reach",
    "inputs are handed over in a buffer whose capacity equals its length, so that slicing past the end of the input is a run-time panic instead of a silent read of stale bytes",
    "every input is delivered to a fresh object put into the stated protocol state by the shortest event sequence (PPPoE session establishment, LCP/IPCP/IPv6CP automata driven "
    "through Up/Open/Configure-Request/Ack/Terminate, CHAP challenge outstanding, DHCP binding present, HA standby table populated); the RADIUS CoA listener and the loopback "
    "HTTP/RADIUS peers are one per child process",
    "context-dependent bytes are patched into the concretised frame by the adapter: live PPPoE session id, identifier of the outstanding Configure-Request / CHAP challenge "
    "(every second filling), RADIUS Request Authenticator (state 'signed')",
    "DHCPv4 bytes reach the repository's handler through github.com/insomniacslk/dhcp's decoder (as in production); an input that library rejects counts as 'error'",
    "NoHang budget: 50 ms + 50 ms per KiB of input, wall clock inside the child process around the call; an overrun counts only if it recurs in three isolated re-measurements "
    "in fresh processes; a child that makes no progress for 4 s is killed and the input re-measured the same way",
    "a child process that dies is attributed to the input logged last; the input is re-run alone in a fresh process, and if it does not die again the six previous inputs of "
    "that shard are tried (a goroutine left behind by an earlier input); an unattributable death is exit 2",
    "the concretiser's layout arithmetic is checked against the specification's (total length, declared lengths) on the canonical filling of every layout",
]

EXPLANATION = ("WireGrammar.tla transcribes the case analysis of every listed wire format as a grammar of abstract frames (trees of length-bearing nodes with deviation classes, "
               "text frames for JSON/SSE/FTP/SIP); WireGrammarGen.tla lets TLC enumerate it (one initial state per abstract frame), checks bounds, completeness of the class list for the "
               "safe-slice predicate hdr <= end <= avail at every level of every format, and non-vacuity, and writes frames.json; harness/wire turns every frame into bytes and feeds it "
               "to the real decoders/handlers in child processes; WireGrammarImpl.tla judges every (entry point, state, abstract frame) -> outcome event and checks that frames.json is covered.")


def _cfg_impl(coverage):
    return ('SPECIFICATION Spec\nCONSTANTS Depth = 0  Sibs = 0  Wide = 0  WideDepth = 0  ComboBelow = 0\nCONSTANT Watch = {%s}\nCONSTANT CheckCoverage = %s\nINVARIANTS Report TypeOK\nVIEW View\nCHECK_DEADLOCK FALSE\n'
            % (", ".join('"%s"' % c for c in WATCH), "TRUE" if coverage else "FALSE"))


def _judge(work, name, frames, results, coverage):
    files = {results: "results.json"}
    if frames:
        files[frames] = "frames.json"
    else:
        stub = os.path.join(work, "frames_stub.json")
        json.dump({"formats": {}, "layouts": [], "texts": []}, open(stub, "w"))
        files[stub] = "frames.json"
    res = vcheck.run_tlc(SPEC_DIR, "WireGrammarImpl", _cfg_impl(coverage), work, files=files, workers=1, timeout=2400, name=name)
    out = res["out"]
    if "Invariant TypeOK is violated" in out:
        raise Infra("results.json is malformed (TypeOK):\n" + out[-2000:])
    err = vcheck.tlc_error(res)
    if err:
        raise Infra("TLC failed on %s:\n%s" % (name, err))
    cov = [l for l in out.splitlines() if l.startswith('<<"COVERAGE"')]
    return res, vcheck.parse_violations(out), cov


def _collect_frames(gen):
    """frames.json = formats.json + layouts.ndjson + texts.ndjson, all three written by TLC during the generator run"""
    d = gen["dir"]
    try:
        fj = json.load(open(os.path.join(d, "formats.json")))
        fj["layouts"] = [json.loads(l) for l in open(os.path.join(d, "layouts.ndjson")) if l.strip()]
        fj["texts"] = [json.loads(l) for l in open(os.path.join(d, "texts.ndjson")) if l.strip()]
    except (OSError, ValueError) as e:
        raise Infra("TLC did not write the abstract frames: %s" % e)
    fj["nframes"] = sum(len(l["codes"]) for l in fj["layouts"]) + len(fj["texts"])
    frames = os.path.join(d, "frames.json")
    json.dump(fj, open(frames, "w"))
    return frames, fj


def _groups(results, viols):
    """violating events -> groups (entry point, clauses, code location), shortest input as witness"""
    ev, wit = results["events"], results["witnesses"]
    groups = {}
    for v in viols:
        e = ev[v["path"][0] - 1]
        first, n = e[6], e[7]
        if n == 0:
            raise Infra("violating event %s carries no witness input" % e)
        for w in wit[first - 1:first - 1 + n]:
            clause = "NoHang" if w["outcome"] == "slow" else "NoPanic"
            if clause not in v["clauses"]:
                continue
            key = (w["ep"], clause, w["site"] or ("" if clause == "NoHang" else w["msg"][:80]))
            g = groups.setdefault(key, dict(ep=w["ep"], clause=clause, site=w["site"], witness=w, classes=set(), states=set(), events=0))
            g["events"] += 1
            g["classes"].add(w["class"])
            g["states"].add(w["st"])
            if (w["len"], w["seq"]) < (g["witness"]["len"], g["witness"]["seq"]):
                g["witness"] = w
    return groups


def _case(i, w):
    return dict(id="r%03d" % i, ep=w["ep"], st=w["st"], fmt=w["fmt"], code=w["code"], fill=w["fill"], lay=w.get("lay", 0), hex=w["hex"])


def _sig(g):
    w = g["witness"]
    return dict(impl=g["ep"], clauses=[g["clause"]], last_op=g["site"], ops=sorted(g["classes"]), witness_key=w["class"])


def runner(prop, fam, tier, seed, replay=None):
    t0 = time.time()
    work = vcheck.workdir(prop)
    try:
        return _run(prop, tier, seed, replay, work, t0)
    except Infra as e:
        print("INFRA-FAILURE property=%s %s" % (prop, str(e)[:3000]), flush=True)
        return 2
    finally:
        if not os.environ.get("VERIF_KEEP"):
            vcheck.cleanup(work)


def _explore(binp, work, sub, tier, seed, env):
    outdir = os.path.join(work, sub)
    vcheck.run_explorer(binp, "TestExplore", outdir, tier, seed, env, timeout=3000)
    rp = os.path.join(outdir, "results.json")
    results = json.load(open(rp))
    stats = json.load(open(os.path.join(outdir, "stats.json")))
    if results.get("infra"):
        raise Infra("explorer reports harness failures (no verdict):\n  " + "\n  ".join(results["infra"][:10]))
    return rp, results, stats


def _run(prop, tier, seed, replay, work, t0):
    known = vcheck.load_known()
    binp = vcheck.build_harness("./wire", work)
    design = []
    if replay:
        # a replay file holds explicit inputs: run them alone in fresh processes and judge them
        rp, results, stats = _explore(binp, work, "explore", tier, seed, {"VERIF_REPLAY": os.path.abspath(replay)})
        res, viols, _ = _judge(work, "impl", None, rp, False)
        groups = _groups(results, viols)
        frames_n = 0
        gen = None
    else:
        cfgfile = "MC_%s.cfg" % ("thorough" if tier == "thorough" else "quick")
        gen = vcheck.run_tlc(SPEC_DIR, "WireGrammarGen", open(os.path.join(SPEC_DIR, cfgfile)).read(), work, workers=8, timeout=2400, name="gen")
        if "No error has been found" not in gen["out"]:
            raise Infra("the wire grammar did not pass TLC (a specification problem, not a verdict):\n" + gen["out"][-3000:])
        frames, fj = _collect_frames(gen)
        frames_n = fj["nframes"]
        if frames_n != gen["distinct"]:
            raise Infra("TLC's output holds %d abstract frames but TLC enumerated %d" % (frames_n, gen["distinct"]))
        design.append(dict(module="WireGrammarGen", cfg=cfgfile, states=gen["distinct"], transitions=gen["generated"], bounds=fj.get("bounds")))
        log("grammar: %d abstract frames (%d layouts x codes, %d text frames)" % (frames_n, len(fj["layouts"]), len(fj["texts"])))
        rp, results, stats = _explore(binp, work, "explore", tier, seed, {"VERIF_WIRE_FRAMES": frames})
        res, viols, cov = _judge(work, "impl", frames, rp, True)
        groups = _groups(results, viols)
        if cov and not groups:
            raise Infra("not every abstract frame was executed on every entry point it applies to: " + cov[0][:600])
        if stats.get("unattributed_crashes") and not groups:
            raise Infra("a child process died %d time(s) and the death could not be attributed to an input" % stats["unattributed_crashes"])
    log("impl TLC: %d events judged, %d violating, %d groups" % (res["distinct"], len(viols), len(groups)))

    # confirm every group's witness alone in a fresh process, judged by TLC again
    order = sorted(groups, key=str)
    new, hits = [], []
    if groups and not replay:
        cases = [_case(i, groups[k]["witness"]) for i, k in enumerate(order)]
        rfile = os.path.join(work, "replay_cases.json")
        json.dump(dict(property=prop, cases=cases), open(rfile, "w"))
        rp2, results2, _ = _explore(binp, work, "replay", tier, seed, {"VERIF_REPLAY": rfile})
        _, viols2, _ = _judge(work, "replay", None, rp2, False)
        confirmed = {}
        for v in viols2:
            e = results2["events"][v["path"][0] - 1]
            confirmed.setdefault(e[3] - 1, set()).update(v["clauses"])
        for i, k in enumerate(order):
            if groups[k]["clause"] not in confirmed.get(i, set()):
                w = groups[k]["witness"]
                raise Infra("violation %s at %s on %s did not reproduce on a fresh process (input %s, state %s)" % (groups[k]["clause"], groups[k]["site"], k[0], w["hex"][:200], w["st"]))
    for k in order:
        g = groups[k]
        f = vcheck.match_known(known, prop, _sig(g))
        (hits if f else new).append((f, g))

    seen = set()
    for f, g in hits:
        if f["id"] in seen:
            continue
        seen.add(f["id"])
        print("KNOWN-FINDING: property=%s %s [%s] (witness on %s: %d bytes, class %s, clause %s)" % (prop, f["what"], f["id"], g["ep"], g["witness"]["len"], g["witness"]["class"], g["clause"]), flush=True)
    rc = 0
    for _, g in new:
        w = g["witness"]
        rpath = vcheck.write_replay(prop, g["ep"] + "-" + g["clause"], dict(property=prop, cases=[_case(0, w)], clauses=[g["clause"]],
                                    note="%s in state %s: %s at %s; abstract classes hit: %s" % (g["ep"], w["st"], w["msg"][:200], g["site"], ", ".join(sorted(g["classes"])[:8]))))
        print("VIOLATION property=%s replay=%s clauses=%s impl=%s site=%s state=%s class=%s bytes=%d events=%d" %
              (prop, rpath, g["clause"], g["ep"], (g["site"] or "?").replace(" ", ""), w["st"], w["class"], w["len"], g["events"]), flush=True)
        rc = 1

    nontrivial = len({(e[0], e[1], e[2], e[4]) for e in results["events"] if results["outcomes"][e[4] - 1] != "ok"})
    cov = dict(
        states=res["distinct"] + sum(d["states"] for d in design), transitions=res["generated"] + sum(d["transitions"] for d in design),
        traces_validated_against_impl=len(results["events"]), evaluations=stats.get("inputs", 0), distinct_nontrivial=nontrivial,
        rule="one evaluation = one byte string delivered to one real decoder/handler on a fresh object; one trace = one event (entry point, protocol state, abstract frame) -> worst outcome "
             "over its fillings, judged by TLC; non-trivial = the outcome is not 'ok' (the input was rejected, panicked, killed the process or overran the budget), distinct by "
             "(entry point, state, abstract frame, outcome)",
        abstract_frames=frames_n, design_runs=design, clauses_watched=WATCH, corpus=stats, samples=(stats.get("samples") or [])[:5],
        tlc_impl_states=res["distinct"], tlc_impl_transitions=res["generated"],
        violating_events=len(viols), violation_groups=len(groups), known_findings_hit=sorted(seen), new_violations=len(new), exhaustive=False,
        explanation=EXPLANATION)
    if replay:
        cov["replay_of"] = replay
    vcheck.write_evidence(prop, tier, seed, "exploration", cov, ASSUMPTIONS, time.time() - t0, len(new))
    log("done rc=%d wall=%.1fs" % (rc, time.time() - t0))
    return rc


CHECKS = {"C09": dict(runner=runner)}

ENGINE = dict(name="tlc-generated-tests", path="lib/fam_wire.py",
              kind_free_text="TLA+ wire grammar enumerated by TLC into abstract frames; each is concretised and executed on the real decoders/handlers in child processes; "
                             "the outcomes are judged by a TLA+ monitor spec under TLC, which also checks that every enumerated frame was executed")

MANIFEST = {"C09": dict(
    engine="tlc-generated-tests", category="exploration", design_ref="DESIGN.md section 7 C09",
    text="TLA+ cannot quantify over byte strings, so the decision is over the boundary classes of a wire grammar, not over all byte strings: specs/WireGrammar transcribes the case analysis of every "
         "listed format (PPPoE header/tags, PPP LCP/IPCP/IPv6CP packets and options, PAP/CHAP, LCP echo, DHCPv4 option 82, DHCPv6 message/IA_NA/IA_PD/IAADDR/IAPREFIX nesting, RADIUS CoA header and "
         "attributes, HA sync JSON/SSE, FTP/SIP ALG lines, ZTP option 43, short hardware addresses) as abstract frames; TLC enumerates all of them within the bounds (nesting 2 quick / 3 thorough, "
         "2-3 siblings, one deviation or one truncation per frame, thorough also deviation x truncation and parent/child pairs) and checks the class list complete for the safe-slice predicate at "
         "every level; every frame is concretised (2 quick / 3 thorough fillings, the first canonical) and delivered to every listed entry point in every listed protocol state on the real code, plus random byte "
         "strings and mutants per entry point (quick ~1.5*10^5 inputs, thorough ~2*10^6); TLC judges every (entry point, state, abstract frame) -> outcome event against NoPanic / NoHang and checks "
         "that every enumerated frame was executed.",
    technique="TLA+ wire grammar -> TLC enumeration as test generator -> execution on the real decoders/handlers in child processes (inputs logged before delivery) -> TLC monitor on the outcomes + coverage clause",
    note="exploration, not a proof over all byte strings: a panic that needs a specific payload byte value outside the grammar's classes is out of reach; DHCPv4 wire decoding is the third-party "
         "library's; the NoHang budget is wall clock (50 ms + 50 ms/KiB, three isolated re-measurements before it counts)")}
