"""Family "failover" (C14): the real ha.FailoverController + ha.HealthMonitor under virtual time.

Flow (on top of the generic table flow of tablecheck.py):
  0. TLC model-checks the implementation-shaped design spec of the ORIGINAL design
     (specs/Failover/FailoverShape.tla, Fixed = FALSE).  Each counterexample it finds is a history in
     the harness' alphabet; the shortest per clause is handed to the explorer (VERIF_EXTRA_CASES) and
     executed on the real controller as one more chain, judged like everything else.
  1. generic flow: U1 design checks (contract == direct statement of the property; repaired design is
     clean), table extraction + random chains on the real code, TLC monitor walk, replay, verdict.
"""
import json, os, shutil, sys, time
import vcheck
from vcheck import SPECS, WORK, Infra, log, run_tlc
from tablecheck import table_check

CLAUSES = ["PromoteOnlyAfterDelay", "RecoveryCancels", "RoleAfterCallback", "OneCompletedPerPromotion",
           "FailbackOnlyHealthy", "NoStuckInProgress"]

SHAPE_CFG = dict(impl="shape", orig="standby", delay_q=2, fbdelay_q=2, grace_q=0, failback=True, failth=1, recth=1, gated=True, nsubs=0)


def _design_counterexamples(work):
    """TLC on the original design; returns [(clauses, events)] shortest per clause set."""
    sd = os.path.join(SPECS, "Failover")
    cfg = open(os.path.join(sd, "MC_shape_orig.cfg")).read()
    res = run_tlc(sd, "FailoverShape", cfg, work, workers=1, timeout=600, name="shape_orig")
    if "Model checking completed" not in res["out"] or "Error:" in res["out"]:
        raise Infra("FailoverShape (original design) did not run to completion:\n" + res["out"][-2000:])
    best = {}
    for line in res["out"].splitlines():
        line = line.strip()
        if not line.startswith('<<"DESIGN-CEX"'):
            continue
        raw = line[line.index(',') + 1:].strip()
        raw = raw[1:raw.rindex('"')].replace('\\"', '"').replace("\\\\", "\\")
        j = json.loads(raw)
        key = tuple(sorted(j["clauses"]))
        if key not in best or len(j["events"]) < len(best[key]):
            best[key] = j["events"]
    return res, [(list(k), v) for k, v in sorted(best.items())]


DESIGN = [("FailoverDesign", "MC_design_promotion.cfg", 4), ("FailoverDesign", "MC_design_failback.cfg", 4),
          ("FailoverShape", "MC_shape_fixed.cfg", 2)]
DESIGN_THOROUGH = DESIGN + [("FailoverDesign", "MC_design_full.cfg", 8)]


def _design_must_pass(work, module, cfgfile, workers):
    sd = os.path.join(SPECS, "Failover")
    res = run_tlc(sd, module, open(os.path.join(sd, cfgfile)).read(), work, workers=workers, timeout=1500, name=cfgfile[:-4])
    if "No error has been found" not in res["out"]:
        raise Infra("design spec %s/%s did not pass TLC (a specification problem, not a verdict):\n%s" % (module, cfgfile, res["out"][-3000:]))
    return dict(module=module, cfg=cfgfile, states=res["distinct"], transitions=res["generated"])


def runner(prop, fam, tier, seed, replay=None):
    t0 = time.time()
    pre = os.path.join(WORK, "%s-shape-%d" % (prop, os.getpid()))
    shutil.rmtree(pre, ignore_errors=True)
    os.makedirs(pre)
    try:
        fam2 = dict(fam)
        fam2.pop("runner", None)
        fam2["design"] = []   # run here, concurrently
        shape_info, design_stats = None, []
        if not replay:
            from concurrent.futures import ThreadPoolExecutor
            try:
                with ThreadPoolExecutor(max_workers=4) as ex:
                    f0 = ex.submit(_design_counterexamples, pre)
                    fs = [ex.submit(_design_must_pass, pre, m, c, w) for (m, c, w) in (DESIGN_THOROUGH if tier == "thorough" else DESIGN)]
                    res, cex = f0.result()
                    design_stats = [f.result() for f in fs]
            except Infra as e:
                print("INFRA-FAILURE property=%s %s" % (prop, str(e)[:3000]), flush=True)
                return 2
            for d in design_stats:
                log("design %s/%s: %d distinct states" % (d["module"], d["cfg"], d["states"]))
            cases = [dict(id="cex%d" % i, system="shape", events=evs, cfg=SHAPE_CFG, clauses=cl) for i, (cl, evs) in enumerate(cex)]
            cf = os.path.join(pre, "extra_cases.json")
            json.dump(dict(property=prop, cases=cases), open(cf, "w"))
            env = dict(fam2.get("env", {}))
            env["VERIF_EXTRA_CASES"] = cf
            fam2["env"] = env
            shape_info = dict(module="FailoverShape", cfg="MC_shape_orig.cfg", states=res["distinct"], transitions=res["generated"],
                              counterexamples=[dict(clauses=cl, events=evs) for cl, evs in cex],
                              note="counterexamples of the design as found at the pinned commit; each is executed on the real controller as chain shape#cex<i> "
                                   "(a history that violates on the real code is reported through the normal VIOLATION / KNOWN-FINDING path)")
            log("original design: %d counterexample histories (%s)" % (len(cex), "; ".join(",".join(c) for c, _ in cex)))
        try:
            rc = table_check(prop, fam2, tier, seed, replay)
        except Exception as e:   # a crash of the driver is never a verdict
            import traceback
            print("INFRA-FAILURE property=%s driver exception: %s" % (prop, traceback.format_exc()[-2000:]), flush=True)
            return 2
        if shape_info is not None:
            p = vcheck.evidence_path(prop)
            try:
                ev = json.load(open(p))
                ev["coverage"]["original_design_model"] = shape_info
                ev["coverage"]["design_runs"] = design_stats
                ev["coverage"]["states"] += shape_info["states"] + sum(d["states"] for d in design_stats)
                ev["coverage"]["transitions"] += shape_info["transitions"] + sum(d["transitions"] for d in design_stats)
                ev["wall_s"] = round(time.time() - t0, 2)
                tmp = p + ".tmp%d" % os.getpid()
                json.dump(ev, open(tmp, "w"), indent=1, sort_keys=True)
                os.replace(tmp, p)
            except Exception:
                pass
        return rc
    finally:
        shutil.rmtree(pre, ignore_errors=True)


CHECKS = {
    "C14": dict(
        runner=runner,
        pkg="./failover", test="TestExplore", spec_dir="Failover", impl_module="FailoverImpl",
        design=DESIGN,
        watch=CLAUSES,
        cfg_extra="INVARIANT RoleTracks\n",
        assumptions=[
            "virtual time: controller and monitor run inside testing/synctest bubbles; one quantum = 1 s, durations are reported to the specification in ms; every harness action happens at 0.5 s + k quanta so the controller's own 1 s evaluation tick never coincides with an action or a timer; a configured grace period of g quanta is g x 1.1 s and an operator command in a grace system is issued 1 ms after the instant, so that sleepers never wake at the instant a timer fires or another sleeper wakes (the runtime orders same-instant events randomly; bundles are bit-identical across runs)",
            "health events come from the real HealthMonitor: each probe is one CheckNow() answered by an in-process http.RoundTripper (http.DefaultTransport replaced in the test binary); thresholds 1/1 and 2/2",
            "fingerprint = all fields of controller+monitor by reflection (statistics counters skipped, timer generations rendered as current/stale) + pending timers (Stop()/Reset() to the same deadline) + goroutines held at the verif gate + executions of executeFailover/executeFailback under way (entry/exit calls of the gate hook); adequacy re-checked on 25 re-reached nodes per system",
            "promotions after an accepted ForceFailover are exempt from the delay clauses until the role changes or the callback refuses (weakest reading); ForceFailback never executing a failback is not a violation of any sentence",
            "timer-vs-event races are explored only at the two gate points (top of executeFailover/executeFailback); at most two timer goroutines are held at a time",
            "NoStuckInProgress is decided by a probe: no input for 20x the sum of all configured delays, state still in_progress",
            "a step in which callbacks for both roles succeed may hide a promotion undone within the step; the completed-event count is then only required to lie between the net change and the number of successful 'active' callbacks",
            "go1.25.0 runtime bug (unlocked fixalloc in getOrSetBubbleSpecial) worked around in the harness: FailoverController.Start is serialised and the collector runs only at those points",
            "the role-change callback is always installed (cmd/bng installs none; without one the callback clause is vacuous)",
        ],
        explanation="Failover.tla (contract) is model-checked to coincide with the property stated over absolute time (FailoverDesign); FailoverShape models the code's critical "
                    "sections (original design: TLC finds the stale-timer promotion and the stuck ForceFailover; repaired design: clean). FailoverImpl walks the transition tables "
                    "extracted from the real controller+monitor under virtual time (closed under the alphabet: unbounded-length verdict relative to alphabet and fingerprint), "
                    "random chains with grace periods and held timer goroutines, and the design counterexamples replayed on the real code.",
    ),
}

MANIFEST = {
    "C14": dict(
        engine="tlc-table", category="model_checking", design_ref="DESIGN.md section 7 C14",
        text="TLC decides it three times: (1) the contract is model-checked to flag a step iff the property sentence, stated over absolute time, is broken (both directions); "
             "(2) an implementation-shaped TLA+ model of failover.go (one action per critical section, timer goroutines that have fired but not yet taken the lock) is "
             "model-checked - its counterexamples are replayed on the real controller; (3) the transition tables of the real FailoverController+HealthMonitor, extracted "
             "breadth-first under testing/synctest virtual time until closed, are walked by TLC with the contract as monitor, every clause at every step.",
        technique="TLA+ contract + TLC over closed transition tables of the real controller (virtual time, gate-held timer goroutines) + design-counterexample replay",
        note="trusted: synctest's virtual clock, the in-process health endpoint, the harness' timer peek (Stop/Reset to the same deadline), TLC. Alphabet: probe ok/fail, "
             "advance 1/2/4 quanta, force-failover, force-failback, callback ok/fail, run a held timer goroutine.",
    ),
}
