"""Family "partition" (extra family X01): pkg/resilience - the real partition Manager, its RequestQueue
and the conflict detection/resolution of the reconciliation, under testing/synctest virtual time.

Flow (on top of the generic table flow of tablecheck.py):
  0. TLC model-checks the implementation-shaped design spec of the design AS FOUND
     (specs/Partition/PartitionShape.tla, Fixed = FALSE).  Each counterexample is a history in the
     harness' alphabet; the shortest per clause set is handed to the explorer (VERIF_EXTRA_CASES) and
     executed on the real manager as one more chain (shape#cex<i>), judged like everything else.
  1. U1, concurrently: the contract is model-checked against the guarantees stated over absolute
     histories (PartitionDesign, modes "state" and "queue"); the repaired design (Fixed = TRUE) is clean.
  2. generic flow: table extraction until closed + seeded random chains on the real code, TLC monitor
     walk (PartitionImpl), replay of every witness on fresh objects, known findings, evidence.

Extra family: no MANIFEST entry (not one of the 20 listed properties)."""
import json, os, shutil, sys, time
import vcheck
from vcheck import SPECS, WORK, Infra, log, run_tlc
from tablecheck import table_check

CLAUSES = ["PartitionAfterRetries", "RecoverOnSuccess", "OnlineAfterReconciliation", "OneReconciliationPerRecovery",
           "HandlerPerTransition", "HandlerOrder", "QueueAcceptance", "Capacity", "NoProcessAfterExpiry", "AtMostOnce",
           "FifoOrder", "ExpireOnlyExpired", "ConflictDetected", "ConflictRule", "ConflictSymmetric", "ConflictTieSymmetric"]

SHAPE_CFG = dict(impl="shape", kind="mgr", hkind="mgr", st0="online", retries=1, qsize=1, nh=2, nmac=2, modes=["ok", "hold"],
                 hold=True, hgate=True, rdfail=False, scen=[1, 2], nsubs=0)

DESIGN = [("PartitionDesign", "MC_design_state.cfg", 2), ("PartitionDesign", "MC_design_queue.cfg", 2),
          ("PartitionShape", "MC_shape_fixed.cfg", 2)]
DESIGN_THOROUGH = [("PartitionDesign", "MC_design_state_full.cfg", 4), ("PartitionDesign", "MC_design_queue_full.cfg", 4),
                   ("PartitionShape", "MC_shape_fixed.cfg", 2), ("PartitionShape", "MC_shape_fixed_full.cfg", 4)]


def _design_counterexamples(work):
    """TLC on the design as found; returns (tlc result, [(clauses, events)]) - the shortest history per clause set."""
    sd = os.path.join(SPECS, "Partition")
    cfg = open(os.path.join(sd, "MC_shape_orig.cfg")).read()
    res = run_tlc(sd, "PartitionShape", cfg, work, workers=2, timeout=900, name="shape_orig")
    if "Model checking completed" not in res["out"] or "Error:" in res["out"]:
        raise Infra("PartitionShape (design as found) did not run to completion:\n" + res["out"][-2000:])
    best = {}
    for line in res["out"].splitlines():
        line = line.strip()
        if not line.startswith('<<"DESIGN-CEX"'):
            continue
        raw = line[line.index(',') + 1:].strip()
        raw = raw[1:raw.rindex('"')].replace('\\"', '"').replace("\\\\", "\\")
        j = json.loads(raw)
        key = tuple(sorted(j["clauses"]))
        evs = j["events"]
        if key not in best or (len(evs), json.dumps(evs, sort_keys=True)) < (len(best[key]), json.dumps(best[key], sort_keys=True)):
            best[key] = evs
    return res, [(list(k), v) for k, v in sorted(best.items())]


def _design_must_pass(work, module, cfgfile, workers):
    sd = os.path.join(SPECS, "Partition")
    res = run_tlc(sd, module, open(os.path.join(sd, cfgfile)).read(), work, workers=workers, timeout=1500, name=cfgfile[:-4])
    if "No error has been found" not in res["out"]:
        raise Infra("design spec %s/%s did not pass TLC (a specification problem, not a verdict):\n%s" % (module, cfgfile, res["out"][-3000:]))
    return dict(module=module, cfg=cfgfile, states=res["distinct"], transitions=res["generated"])


def _sig_extra(sig):
    """Known findings are matched on operations qualified by their argument where the argument selects the
    scenario (conf:<k>), so that a finding about one conflict scenario does not cover another one."""
    ops = set()
    for e in sig.get("events", []):
        ops.add(e.get("op"))
        if e.get("op") == "conf":
            ops.add("conf:%s" % e.get("a"))
    return dict(ops=sorted(o for o in ops if o))


def runner(prop, fam, tier, seed, replay=None):
    t0 = time.time()
    pre = os.path.join(WORK, "%s-shape-%d" % (prop, os.getpid()))
    shutil.rmtree(pre, ignore_errors=True)
    os.makedirs(pre)
    try:
        fam2 = dict(fam)
        fam2.pop("runner", None)
        fam2["design"] = []   # run here, concurrently
        shape_info, design_stats, futures, pool = None, [], [], None
        if not replay:
            from concurrent.futures import ThreadPoolExecutor
            pool = ThreadPoolExecutor(max_workers=5)
            try:
                f0 = pool.submit(_design_counterexamples, pre)
                # U1 and the repaired design run in the background while the real code is explored
                futures = [pool.submit(_design_must_pass, pre, m, c, w) for (m, c, w) in (DESIGN_THOROUGH if tier == "thorough" else DESIGN)]
                res, cex = f0.result()
            except Infra as e:
                pool.shutdown(wait=True)
                print("INFRA-FAILURE property=%s %s" % (prop, str(e)[:3000]), flush=True)
                return 2
            cases = [dict(id="cex%d" % i, system="shape", events=evs, cfg=SHAPE_CFG, clauses=cl) for i, (cl, evs) in enumerate(cex)]
            cf = os.path.join(pre, "extra_cases.json")
            json.dump(dict(property=prop, cases=cases), open(cf, "w"))
            env = dict(fam2.get("env", {}))
            env["VERIF_EXTRA_CASES"] = cf
            fam2["env"] = env
            shape_info = dict(module="PartitionShape", cfg="MC_shape_orig.cfg", states=res["distinct"], transitions=res["generated"],
                              counterexamples=[dict(clauses=cl, events=evs) for cl, evs in cex],
                              note="counterexamples of the design as found; each is executed on the real manager as chain shape#cex<i> "
                                   "(a history that violates on the real code is reported through the normal VIOLATION / KNOWN-FINDING path)")
            log("design as found: %d counterexample histories (%s)" % (len(cex), "; ".join(",".join(c) for c, _ in cex)))
        try:
            rc = table_check(prop, fam2, tier, seed, replay)
        except Exception:   # a crash of the driver is never a verdict
            import traceback
            print("INFRA-FAILURE property=%s driver exception: %s" % (prop, traceback.format_exc()[-2000:]), flush=True)
            rc = 2
        if pool is not None:
            try:
                design_stats = [f.result() for f in futures]
            except Infra as e:
                print("INFRA-FAILURE property=%s %s" % (prop, str(e)[:3000]), flush=True)
                rc = 2
            finally:
                pool.shutdown(wait=True)
            for d in design_stats:
                log("design %s/%s: %d distinct states" % (d["module"], d["cfg"], d["states"]))
        if rc == 2:
            return 2
        if shape_info is not None:
            p = vcheck.evidence_path(prop)
            try:
                ev = json.load(open(p))
                ev["coverage"]["original_design_model"] = shape_info
                ev["coverage"]["design_runs"] = design_stats
                ev["coverage"]["states"] += shape_info["states"] + sum(d["states"] for d in design_stats)
                ev["coverage"]["transitions"] += shape_info["transitions"] + sum(d["transitions"] for d in design_stats)
                ev["wall_s"] = round(time.time() - t0, 2)
                tmp = p + ".tmp%d" % os.getpid()
                json.dump(ev, open(tmp, "w"), indent=1, sort_keys=True)
                os.replace(tmp, p)
            except Exception:
                pass
        return rc
    finally:
        shutil.rmtree(pre, ignore_errors=True)


CHECKS = {
    "X01": dict(
        runner=runner,
        pkg="./partition", test="TestExplore", spec_dir="Partition", impl_module="PartitionImpl",
        design=DESIGN,
        watch=CLAUSES,
        cfg_extra="INVARIANT GhostTracks\n",
        sig_extra=_sig_extra,
        impl_workers=4,
        assumptions=[
            "virtual time: every manager / queue lives in its own testing/synctest bubble; one quantum = the health check interval = 10.002 s, "
            "harness actions happen half a quantum after each health tick (odd millisecond), queued requests live 22.507 s, a failing request handler "
            "returns on its own grid (1.111 s + k x 3.334 s): no comparison of the code ever sees equal instants and no harness action coincides with a "
            "ticker; at most 480 health ticks per object (afterwards the grids would meet); durations are reported to the specification in ms",
            "health checks come from the manager's own healthCheckLoop ticker calling the scripted HealthChecker (healthy / Nexus down / RADIUS down); "
            "exactly one check completes per tick step, so fewer than three state changes happen in a step and the changes of a step are the shortest "
            "path on online -> partitioned -> recovering -> online (the contract's environment assumption)",
            "the request handler is installed on the manager's unexported RequestQueue by reflection (Manager offers no accessor and installs none itself); "
            "modes: ok, flaky (fails the first attempt per MAC), fail (always fails, taking virtual time), hold (does not return until released by the "
            "harness with a result) - a held handler is the only way the reconciliation goroutine is parked, no hook in /repo is used",
            "two partition event handlers; the first can be made to hold its next `online` event (at most one held invocation at a time)",
            "reconciliations are counted by the scripted AllocationStore: DetectConflicts' GetRemoteAllocations is the first thing performReconciliation does",
            "conflict scenarios are installed in pairs: the same two allocations once as (local, remote) and once swapped, as the other site sees them; "
            "the order of OnConflict notifications within one reconciliation (Go map iteration) is normalised by the harness",
            "fingerprint = all fields of the manager by reflection (statistics, Retries counters and the sub-components that are not driven are skipped; "
            "consecutiveFails saturated at the threshold) + the queue's content with the time each request still has + handler modes + what is held or "
            "sleeping and for how long; adequacy re-checked on 20 re-reached nodes per system",
            "NoProcessAfterExpiry is judged against the LATEST accepted submission for the MAC (weakest reading); FifoOrder does not constrain a request "
            "whose first submission has expired or that may have been dropped at a re-queue into a full queue",
            "HandlerOrder and ConflictTieSymmetric go beyond what the package documents (see proposals/partition.json); they are separate clauses",
        ],
        explanation="Partition.tla (contract, 7 sentences / 16 clauses) is model-checked against the guarantees stated over absolute histories (PartitionDesign: "
                    "verdicts coincide step by step); PartitionShape models manager.go/request_queue.go by critical sections (design as found: TLC finds the "
                    "overtaking partition events and the tie of the conflict resolution; repaired design: clean). PartitionImpl walks the transition tables extracted "
                    "from the real Manager / RequestQueue / ConflictDetector under virtual time (closed under the alphabet: unbounded-length verdict relative to "
                    "alphabet and fingerprint), seeded random chains on larger configurations, and the design counterexamples replayed on the real code.",
    ),
}
