"""Family pppfsm: property C11 (PPP control-protocol automata: LCP, IPCP, IPV6CP)."""
import json, os, re
import tablecheck, vcheck

CLAUSES = ["OpenedSafe", "LeavesOpened", "ReplyEchoesId", "AckRepeats", "NakRejOnlyOffending", "IpcpAcksOnlyAssigned", "BoundedRetx"]

DRIFT_RE = re.compile(r'<<"DRIFT", "(.*)">>\s*$')


def _drift_lines(tlc_out):
    for line in tlc_out.splitlines():
        m = DRIFT_RE.search(line.strip())
        if m:
            raw = m.group(1).replace('\\"', '"').replace("\\\\", "\\")
            try:
                return json.loads(raw)
            except Exception:
                return None
    return None


def runner(prop, fam, tier, seed, replay=None):
    """Generic table flow, then the refinement differences to RFC 1661 (DRIFT, information only)
    are copied from TLC's output of the table run into the evidence."""
    if tier == "thorough":
        fam = dict(fam, design=[("PppFsmDesign", "MC_design_any_thorough.cfg", 8), ("PppFsmDesign", "MC_design_rfc.cfg", 4)])
    rc = tablecheck.table_check(prop, fam, tier, seed, replay)
    if rc == 2:
        return rc
    try:
        last = os.path.join(vcheck.WORK, "last-" + prop, "tlc_impl__tlc.out")
        ev_path = vcheck.evidence_path(prop)
        drift = _drift_lines(open(last, errors="replace").read()) if os.path.exists(last) else None
        ev = json.load(open(ev_path))
        if drift is not None:
            rows = sorted({(d["impl"].split("-")[0], d["state"], d["event"], d["impl_next"], ",".join(sorted(d["impl_sends"])),
                            " | ".join(sorted("%s:%s" % (r[0], ",".join(sorted(r[1]))) for r in d["rfc"]))) for d in drift})
            ev["coverage"]["rfc1661_drift"] = dict(
                meaning="table edges of the real automata that differ from the RFC 1661 section 4.1 transition table (state, event, what the "
                        "implementation does, what RFC 1661 prescribes as next-state:wire-actions); information only, never a verdict",
                count=len(rows),
                lines=["DRIFT %s %s + %s -> %s sends{%s}; RFC 1661: %s" % r for r in rows])
        tmp = ev_path + ".tmp%d" % os.getpid()
        json.dump(ev, open(tmp, "w"), indent=1, sort_keys=True)
        os.replace(tmp, ev_path)
        if drift is not None:
            vcheck.log("refinement to RFC 1661: %d differing (automaton, state, event) rows recorded as DRIFT in the evidence" % len(rows))
    except Exception as e:  # evidence decoration only; the verdict stands
        vcheck.log("drift post-processing skipped: %r" % (e,))
    return rc


CHECKS = {
    "C11": dict(
        runner=runner,
        pkg="./pppfsm", test="TestExplore", spec_dir="PppFsm", impl_module="PppFsmImpl",
        design=[("PppFsmDesign", "MC_design_any.cfg", 8), ("PppFsmDesign", "MC_design_rfc.cfg", 4)],
        watch=CLAUSES,
        assumptions=[
            "observation: the state an automaton reports is GetState()/IsOpened(); its outputs are the packets handed to the send callback, decoded by the harness to (code, identifier, options) - trusted decoding step",
            "identifiers are reported relative to the automaton's latest Configure-Request seen on the send callback (exactly for replies, same/different for packets the automaton originates) so the table is finite; peer request identifiers are current+0x51.. (one per kind of request)",
            "alphabet: Up, Down, Open, Close, TO (one restart period passes), TimerFires/TimeoutRuns (the expired timer's goroutine is held at the verif gate before the automaton lock, then released), RCR+ / RCR-nak / RCR-rej (/ RCR-wrong for IPCP), RCA/RCN/RCJ with current and stale identifier, RTR, RTA, Code-Reject (critical / other), Protocol-Reject (LCP), Echo-Request (well-formed / without magic number), unknown code; chains and the thorough tier add RCR-mix, RCR-empty, malformed option, truncated packet, Echo-Reply, Discard-Request",
            "option contents are fixed per event kind (deterministic tables): acceptable = MRU 1492 + magic (LCP), assigned address + DNS (IPCP), non-zero interface id (IPV6CP); offending = MRU 2000, unknown option type, 0.0.0.0 / foreign address, IP-compression, zero interface id; events that make the automaton draw random numbers (magic collision) are not in the alphabet; the interface id suggested in an IPV6CP Nak is masked",
            "virtual time (testing/synctest) with the real time.AfterFunc restart timers; time advances only in whole restart periods",
            "fingerprint = every field of the automaton by reflection except identifier/lastIdentifier/failureCount (failureCount is never read) + restart-timer-pending bit + parked-timer bit + identifier-currency bits + bytes of the latest Configure-Request; its adequacy is checked by re-deriving behaviour over alternative paths",
            "at most one timer goroutine is held at the gate at a time; the silent-peer probe first lets a held goroutine run",
            "the address assigned to the session is what the pool's Allocate returned and Release has not taken back (harness pool with one address / exhausted pool), or the static PeerIP of the configuration",
        ],
        explanation="PppFsm.tla states the property through ghosts computed only from boundary events; PppFsmDesign checks the contract against a history-based statement of the "
                    "property and checks the RFC 1661 automaton (as a TLA+ spec) against it incl. termination with a silent peer; PppFsmImpl walks the transition tables extracted to a "
                    "fixed point from the real LCP/IPCP/IPV6CP automata under virtual time (plus random chains) and judges every output and reported state; differences to RFC 1661 are DRIFT lines.",
        sig_extra=lambda sig: dict(group_extra=sig["cfg"].get("proto", "")),
    ),
}

MANIFEST = {
    "C11": dict(
        engine="tlc-table", category="model_checking", design_ref="DESIGN.md section 7 C11",
        text="TLC decides it twice: (1) the contract (ghost variables maintained from boundary events) is model-checked against a history-based statement of the property, and the "
             "RFC 1661 automaton written in TLA+ is model-checked against the contract incl. termination against a silent peer; (2) the transition tables of the real LCP, IPCP and IPV6CP "
             "automata, extracted breadth-first to a fixed point over a 23-30 event alphabet under virtual time with the real restart timers (incl. the timer-vs-packet race made deterministic "
             "by a gate at the top of timeout()), are walked by TLC with the contract as monitor. Relative to the alphabet and the checked fingerprint this is unbounded-depth verification of the real code.",
        technique="TLA+ contract + RFC 1661 automaton spec; TLC over transition tables extracted from the real automata (testing/synctest virtual time, verif gate for the timer race) and random chains",
        note="trusted: packet decoding in the harness, reflection fingerprint (adequacy sampled), synctest virtual time, TLC; option contents are fixed per event kind; RFC 1661 conformance is reported as DRIFT information, not judged",
    ),
}
