"""C18: source-address validation - Go manager (real kernel maps) + natively compiled bpf/antispoof.c."""
CHECKS = {"C18": dict(
    pkg="./antispoof", test="TestExplore", spec_dir="AntiSpoof", impl_module="AntiSpoofImpl",
    design=[("AntiSpoofDesign", "MC_design.cfg", 8)],
    watch=["StrictExact", "LogOnlyForwards", "LooseInRange", "DisabledForwards", "AsWritten", "PassUnmodified"],
    assumptions=[
        "bpf/antispoof.c is compiled as user-space C from /repo's current tree with shim helper headers (cshim/); the kernel verifier and JIT are not involved",
        "maps are real kernel eBPF maps created with the key/value sizes the C source declares; the Go manager writes them through cilium/ebpf, the harness mirrors the raw bytes into the native program",
        "Manager.Start (which needs the compiled object file) is replaced by injecting the maps by reflection and calling SetMode(default mode), which writes the same config entry",
        "abstract facts about each probe frame (which bound-address constant its source equals, which configured ranges contain it) are computed by the harness - the trusted byte-level step",
        "per-CPU stats and the perf event buffer are not observed",
    ],
    explanation="AntiSpoofDesign.tla models the map contents written by the manager and the TC program's decision procedure and is model-checked against the contract's Expect for all control-plane "
                "histories x abstract frames; AntiSpoofImpl.tla walks the control-plane table extracted from the real manager with the native program's verdicts for a 45-frame battery at every state.",
)}
MANIFEST = {"C18": dict(
    engine="tlc-table", category="model_checking", design_ref="DESIGN.md section 7 C18",
    text="TLC model-checks an implementation-shaped model of the binding map and the TC decision procedure against the decision contract, then walks the control-plane transition table "
         "extracted from the real Go manager (SetMode/AddBinding/AddBindingV6/RemoveBinding/AddAllowedRange over 2 MACs, writing real kernel maps) where every node carries the verdicts of the "
         "natively compiled bpf/antispoof.c for a battery of frames (exact, near-miss, byte-reversed, foreign, in/out of range sources x IPv4/IPv6/ARP x truncated).",
    technique="TLA+ decision contract + TLC over the control-plane table of the real manager with native-C verdicts at every state",
    note="trusted: shim headers and in-memory map runtime (cshim/vmaps.h, incl. LPM longest-prefix semantics), frame construction, clang; needs CAP_BPF to create kernel maps (exit 2 otherwise)")}
