#!/usr/bin/env python3
"""Which clause of which family has ever been SEEN to fire on real code (seeded changes kept under seeded/, known findings,
fixed defects)?  A clause never seen firing is not proved vacuous, but nothing demonstrates that it can fire.
usage: lib/clause_matrix.py  -> prints a table and writes clause-matrix.json"""
import sys, json, glob, os, re
sys.path.insert(0, os.path.dirname(os.path.abspath(__file__)))
import checks, vcheck
os.chdir(vcheck.VERIF)
fired = {}
def add(c, src):
    fired.setdefault(c, set()).add(src)
for d in sorted(glob.glob('seeded/*/meta.json')):
    m = json.load(open(d))
    ev = m.get('evaluation', {})
    cl = ev.get('clauses') or []
    if isinstance(cl, str):
        cl = re.split(r'[,\s]+', cl)
    for c in cl:
        add(c, os.path.basename(os.path.dirname(d)))
for d in sorted(glob.glob('binding-demos/*/meta.json')):
    m = json.load(open(d))
    for c in m.get('clauses_fired', []):
        add(c, 'demo:' + m['name'])
k = vcheck.load_known()
for f in k['findings']:
    for c in f.get('match', {}).get('clauses', []):
        add(c, f['id'])
allc = set()
fams = {}
for pid, fam in sorted(checks.CHECKS.items()):
    w = fam.get('watch') or []
    if isinstance(w, dict):
        w = sorted(set(sum(w.values(), [])))
    fams[pid] = list(w)
    allc |= set(w)
for f in k['fixed']:
    s = f if isinstance(f, str) else json.dumps(f)
    for c in allc:
        if re.search(r'\b%s\b' % re.escape(c), s):
            add(c, 'fixed')
out = {}
for pid, w in fams.items():
    nf = [c for c in w if c not in fired]
    out[pid] = dict(clauses=len(w), never_seen_firing=nf, seen={c: sorted(fired[c])[:6] for c in w if c in fired})
    print("%s: %d clauses; never seen firing: %s" % (pid, len(w), ", ".join(nf) or "-"))
json.dump(out, open('clause-matrix.json', 'w'), indent=1, sort_keys=True)
