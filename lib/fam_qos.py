"""C19: token-bucket rate limiter - qos.Manager (real kernel maps) + natively compiled bpf/qos_ratelimit.c,
traces judged by Apalache (64-bit arithmetic) against the window inequalities of specs/TokenBucket."""
import json, os, re, shutil, time, concurrent.futures as cf
import vcheck
from vcheck import Infra, log

SPEC_DIR = os.path.join(vcheck.SPECS, "TokenBucket")
CLAUSES = ["Upper", "Lower", "Unlimited", "NoStarve"]
ASSUMPTIONS = [
    "bpf/qos_ratelimit.c is compiled as user-space C from /repo's current tree with shim headers (cshim/); bpf_ktime_get_ns is scripted; skb->len carries the wire length",
    "the policy is set through the real qos.Manager (SetSubscriberQoS / SetSubscriberPolicy) into real kernel maps; raw bytes are mirrored into the native program once per trace",
    "contract burst = burst_bytes of the bucket the manager wrote (the manager derives the ingress burst itself); contract rate = the rate handed to the API (PolicyEnforced)",
    "a trace is backlogged when every offered packet is at least as large as the tokens accrued since the previous offer and at most MaxPkt",
    "Apalache evaluates the inequalities over unbounded integers; cumulative admitted bytes are prefix sums computed by the driver",
    "traces of up to 60 arrivals are judged whole; of a longer trace (drift/starve patterns, up to tens of thousands of arrivals) Apalache is shown the ~50 events whose windows from the first arrivals look tightest (prefix sums over the whole trace), so a violation confined to a window between two events not shown is missed",
]


def gen_module(tr, name):
    """One Apalache module per trace. Short traces are given whole. A long trace is given as a sub-sequence of its
    events (cum stays the prefix sum over the WHOLE trace, so every window between two retained events is a window of
    the real execution): the first events plus those whose windows from the first event look tightest. The selection
    only decides which windows Apalache is shown; the verdict is Apalache's."""
    cum, evs = 0, []
    for e in tr["events"]:
        if e["adm"]:
            cum += e["size"]
        evs.append(dict(e=e["e"], size=e["size"], adm=e["adm"], cum=cum))
    n = len(evs)
    if n > 60:
        scale, rate, burst, maxpkt, f = 8000000000, tr["rate_bps"], tr["burst"], tr["maxpkt"], evs[0]
        up = sorted((rate * (x["e"] - f["e"]) - scale * (x["cum"] - f["cum"] + f["size"] - burst), k) for k, x in enumerate(evs) if x["adm"])
        lo = sorted((scale * (x["cum"] - f["cum"] + burst + maxpkt) - rate * (x["e"] - f["e"]), k) for k, x in enumerate(evs))
        rej = [k for k, x in enumerate(evs) if not x["adm"]][:3] if rate == 0 else []   # Unlimited: show rejected packets
        dry, last = [], 0            # NoStarve: the ends of the longest stretches without an admission, and their starts
        for k, x in enumerate(evs):
            if x["adm"]:
                dry.append((evs[k]["e"] - evs[last]["e"], last, k))
                last = k
        dry.append((evs[-1]["e"] - evs[last]["e"], last, n - 1))
        for _, a, b in sorted(dry, reverse=True)[:3]:
            rej += [a, max(a, b - 1)]
        keep = sorted({0, 1, 2, n // 4, n // 2, n - 1} | {k for _, k in up[:36]} | {k for _, k in lo[:12]} | set(rej))
        evs = [evs[k] for k in keep]
    rows = ["[e |-> %d, size |-> %d, adm |-> %s, cum |-> %d]" % (x["e"], x["size"], "TRUE" if x["adm"] else "FALSE", x["cum"]) for x in evs]
    t = open(os.path.join(SPEC_DIR, "TraceTemplate.tla")).read()
    t = t.replace("@ANCHORS@", "DOMAIN Trace" if n <= 60 else "DOMAIN Trace" if len(evs) <= 70 else "{1, 2, 3, 4}")
    return (t.replace("@MODULE@", name).replace("@TRACE@", "<< " + ",\n  ".join(rows) + " >>").replace("@RATE@", str(tr["rate_bps"]))
            .replace("@BURST@", str(tr["burst"])).replace("@MAXPKT@", str(tr["maxpkt"])).replace("@BACKLOGGED@", "TRUE" if tr["backlogged"] else "FALSE"))


def apalache(d, name, inv):
    rc, out, dt = vcheck.run(["apalache-mc", "check", "--inv=" + inv, "--length=0", "--out-dir=" + os.path.join(d, "_apa_" + name + "_" + inv), name + ".tla"],
                             cwd=d, timeout=600)
    if "The outcome is: NoError" in out:
        return True
    if "The outcome is: Error" in out:
        return False
    raise Infra("apalache failed on %s/%s:\n%s" % (name, inv, out[-2500:]))


def judge(d, tr):
    name = "Tr_" + tr["id"]
    open(os.path.join(d, name + ".tla"), "w").write(gen_module(tr, name))
    if apalache(d, name, "All"):
        return []
    bad = [c for c in CLAUSES if not apalache(d, name, c)]
    if not bad:
        raise Infra("apalache: All fails but no clause does for " + name)
    return bad


def run_traces(binp, work, tier, seed, sub, replay=None):
    outdir = os.path.join(work, sub)
    env = {}
    if replay:
        env["VERIF_REPLAY"] = replay
    vcheck.run_explorer(binp, "TestExplore", outdir, tier, seed, env, timeout=1800)
    j = json.load(open(os.path.join(outdir, "traces.json")))
    d = os.path.join(work, "apa_" + sub)
    os.makedirs(d, exist_ok=True)
    res = {}
    with cf.ThreadPoolExecutor(max_workers=int(os.environ.get("VERIF_APALACHE_JOBS", "8"))) as ex:
        futs = {ex.submit(judge, d, tr): tr for tr in j["traces"]}
        for f in cf.as_completed(futs):
            res[futs[f]["id"]] = f.result()
    return j, res


def sig_of(tr, clauses):
    return dict(impl="qos.Manager+qos_ratelimit.c", clauses=sorted(clauses), last_op=tr["pattern"], ops=[tr["dir"], tr["pattern"]], witness_key="rate0" if tr["rate_bps"] == 0 else "rate>0")


def runner(prop, fam, tier, seed, replay):
    t0 = time.time()
    work = vcheck.workdir(prop)
    try:
        return _run(prop, tier, seed, replay, work, t0)
    except Infra as e:
        print("INFRA-FAILURE property=%s %s" % (prop, str(e)[:3000]), flush=True)
        return 2
    finally:
        if not os.environ.get("VERIF_KEEP"):
            vcheck.cleanup(work)


def _run(prop, tier, seed, replay, work, t0):
    known = vcheck.load_known()
    binp = vcheck.build_harness("./qos", work)
    design = []
    if not replay:
        cfgs = [("MC_upper.cfg", True), ("MC_lower.cfg", True), ("MC_upper_unbounded.cfg", True), ("MC_lower_unbounded.cfg", True),
                ("MC_lower_unbounded_slow.cfg", True), ("MC_lower_tight.cfg", False),
                ("MC_nostarve_unbounded.cfg", True), ("MC_nostarve_hist.cfg", True)]
        if tier == "thorough":
            cfgs.append(("MC_agree.cfg", True))
        for cfg, holds in cfgs:
            res = vcheck.run_tlc(SPEC_DIR, "TokenBucket", open(os.path.join(SPEC_DIR, cfg)).read(), work, workers=8, timeout=900, name=cfg[:-4])
            if holds and "No error has been found" not in res["out"]:
                raise Infra("reference bucket does not satisfy the contract in %s:\n%s" % (cfg, res["out"][-2000:]))
            if not holds and "Invariant LowerP is violated" not in res["out"]:
                raise Infra("%s: the counterexample that justifies the Burst >= 2*MaxPkt guard was not found:\n%s" % (cfg, res["out"][-2000:]))
            design.append(dict(cfg=cfg, states=res["distinct"], transitions=res["generated"], expected="holds" if holds else "counterexample (justifies the guard of Lower)"))
            log("design %s: %d states" % (cfg, res["distinct"]))
    j, res = run_traces(binp, work, tier, seed, "explore", os.path.abspath(replay) if replay else None)
    specs = {s["id"]: s for s in j["specs"]}
    traces = {t["id"]: t for t in j["traces"]}
    bad = {i: c for i, c in res.items() if c}
    log("%d traces judged by Apalache, %d violate a clause" % (len(res), len(bad)))
    groups = {}
    for i, cl in bad.items():
        tr = traces[i]
        key = (tuple(sorted(cl)), tr["dir"], tr["pattern"], tr["rate_bps"] == 0)
        if key not in groups or len(tr["events"]) < len(traces[groups[key]]["events"]):
            groups[key] = i
    new, hits = [], []
    if groups and not replay:
        # confirm on fresh objects
        rfile = os.path.join(work, "replay.json")
        json.dump({"specs": [specs[i] for i in groups.values()]}, open(rfile, "w"))
        j2, res2 = run_traces(binp, work, tier, seed, "replay", rfile)
        for key, i in groups.items():
            if not set(res2.get(i, [])) & set(key[0]):
                raise Infra("violation %s of trace %s did not reproduce" % (key[0], i))
    for key, i in sorted(groups.items()):
        sig = sig_of(traces[i], key[0])
        f = vcheck.match_known(known, prop, sig)
        if f:
            hits.append((f, i, key))
        else:
            new.append((i, key))
    seen = set()
    for f, i, key in hits:
        if f["id"] in seen:
            continue
        seen.add(f["id"])
        print("KNOWN-FINDING: property=%s %s [%s] (witness trace %s: rate %d bit/s, burst %d, %s %s, clauses %s)" %
              (prop, f["what"], f["id"], i, traces[i]["rate_bps"], traces[i]["burst"], traces[i]["dir"], traces[i]["pattern"], ",".join(key[0])), flush=True)
    rc = 0
    for i, key in new:
        rp = vcheck.write_replay(prop, "qos-" + "-".join(key[0]) + "-" + traces[i]["pattern"], {"specs": [specs[i]], "clauses": list(key[0]), "trace": traces[i]})
        print("VIOLATION property=%s replay=%s clauses=%s dir=%s pattern=%s rate_bps=%d burst=%d" %
              (prop, rp, ",".join(key[0]), traces[i]["dir"], traces[i]["pattern"], traces[i]["rate_bps"], traces[i]["burst"]), flush=True)
        rc = 1
    nev = sum(len(t["events"]) for t in traces.values())
    distinct = len({(t["rate_bps"], t["burst"], t["dir"], t["pattern"], t["clock0"]) for t in traces.values()})
    samples = [{"id": t["id"], "dir": t["dir"], "rate_bps": t["rate_bps"], "burst": t["burst"], "pattern": t["pattern"], "backlogged": t["backlogged"],
                "clock0": t["clock0"], "first_events": t["events"][:6], "admitted": sum(1 for e in t["events"] if e["adm"]), "offered": len(t["events"])}
               for t in list(traces.values())[:3]]
    cov = dict(states=sum(d["states"] for d in design) or 1, transitions=sum(d["transitions"] for d in design) or 1,
               traces_validated_against_impl=len(traces), samples=samples, evaluations=nev, distinct_nontrivial=distinct,
               rule="one evaluation = one packet run through the native TC program under a scripted clock; distinct non-trivial = distinct (rate, burst, direction, arrival pattern, initial clock) trace configurations; "
                    "every trace is judged by Apalache against Upper/Lower/Unlimited",
               design_runs=design, clauses_watched=CLAUSES, violating_traces=len(bad), violation_groups=len(groups),
               known_findings_hit=sorted(seen), new_violations=len(new), exhaustive=False,
               explanation="TLC model-checks that the reference bucket of TokenBucket.tla satisfies both window bounds (all arrival sequences, small constants); Apalache judges each real trace of the native "
                           "program against the same bounds with unbounded integers.")
    vcheck.write_evidence(prop, tier, seed, "model_checking", cov, ASSUMPTIONS, time.time() - t0, len(new))
    log("done rc=%d wall=%.1fs" % (rc, time.time() - t0))
    return rc


CHECKS = {"C19": dict(runner=runner)}
MANIFEST = {"C19": dict(
    engine="tlc-apalache-trace", category="model_checking", design_ref="DESIGN.md section 7 C19",
    text="TLC model-checks that the exact reference token bucket of TokenBucket.tla satisfies the admitted-bytes upper bound and the backlogged lower bound: over recorded histories of bounded length, "
         "and - potentials formulation, finite state without the history - for arrival sequences of every length (non-integer rates); both formulations are checked to agree; the lower bound is claimed for "
         "burst >= 2*maxpkt only and TLC's counterexample for a smaller bucket is part of the run. Traces of the natively compiled bpf/qos_ratelimit.c (policy set through the real qos.Manager into real "
         "kernel maps, incl. plan changes of one subscriber; scripted kernel clock incl. values near 2^63/2^64, rates 0-100 Gbit/s, bursts 1 B-4 GB, fine/coarse backlog, burst trains, day-long idle gaps, "
         "sub-byte-time gaps, and 4 000/40 000-packet nanosecond-grained drift traces at rates whose byte time is not a whole number of ns) are validated against the same inequalities by Apalache because "
         "the values need 64+ bits.",
    technique="TLA+ reference bucket checked by TLC + Apalache trace validation of the native C token bucket against the contract inequalities",
    note="trusted: cshim runtime, frame builder, Apalache/Z3; of traces longer than 60 arrivals Apalache is shown the ~50 events whose windows from the first arrivals look tightest (prefix sums over the whole trace)")}
