"""Family "slaac" (extra family X15, not one of the 20 listed properties): pkg/slaac - the real router-advertisement daemon
(slaac.Server: NewServer, Start / Stop, the periodic sender, handleRouterSolicitation, SendImmediateRA, AddPrefix / RemovePrefix, buildRA and
its option builders, GetStats), contract specs/Slaac/Slaac.tla.

The harness' test binary re-executes itself in a private network namespace with one veth pair; the daemon advertises on one end through the raw
ICMPv6 socket it opens itself, the harness reads the other end (datagram bytes, hop limit, destination as the kernel delivered them).  Systems
of kind "hook" run in testing/synctest bubbles (Start without the receive loop = VerifStart in pkg/slaac/verif_hooks.go; send instants from the
daemon's own log on the virtual clock), the system of kind "wire" runs the real Start / receiveLoop / Stop in real time.

Flow (on top of the generic table flow of tablecheck.py):
  0. TLC model-checks the implementation-shaped model of the daemon's life cycle AS FOUND (specs/Slaac/SlaacShape.tla, Fixed = FALSE: Start, Stop,
     the sender's initial send, its wake-up, time).  Each counterexample is a history in the harness' alphabet; the shortest per clause set is
     handed to the explorer (VERIF_EXTRA_CASES) and executed on the real daemon as one more chain (shape#cex<i>), judged like everything else.
  1. U1: the contract is model-checked against the guarantees stated over absolute histories (SlaacDesign: the contract accepts a candidate answer
     iff the direct statement does); the repaired life cycle (SlaacShape, Fixed = TRUE) is clean.
  2. generic flow: table extraction until closed + seeded random chains on the real code, TLC monitor walk (SlaacImpl), replay of every witness on
     fresh objects, known findings (proposals/slaac.json), evidence to evidence-extra/.

Extra family: no MANIFEST entry."""
import json, os, shutil, time
import vcheck
from vcheck import SPECS, WORK, Infra, log, run_tlc
from tablecheck import table_check

CLAUSES = ["WellFormed", "Dst", "HopLimit255", "Flags", "RouterLifetime", "NotDefaultRouter", "MtuOption", "DnsOptions", "PrefixesExact",
           "InitialRA", "IntervalBounds", "PeriodicDue", "StopSilent", "SolicitedAnswered", "ImmediateSent", "StatsTrue"]

# must describe the same configuration as MC_shape_orig.cfg (MinI = MaxI = 2 s, two starts)
SHAPE_CFG = dict(kind="hook", impl="shape", mins=2, maxs=2, managed=False, other=False, mtu=0, life=1800, ndom=0, dns=[], cfgpi=[1], advs=[1], pidx=[],
                 ops=["start", "stop", "rs", "imm", "adv"], maxstarts=2, hop=False, immearly=False, nsubs=0)

DESIGN = [("SlaacDesign", "MC_design.cfg", 2), ("SlaacShape", "MC_shape_fixed.cfg", 1), ("SlaacDesign", "MC_design_deep.cfg", 4, "thorough")]


def _design_counterexamples(work):
    """TLC on the life cycle as found; returns (tlc result, [(clauses, events)]) - the shortest history per clause set."""
    sd = os.path.join(SPECS, "Slaac")
    res = run_tlc(sd, "SlaacShape", open(os.path.join(sd, "MC_shape_orig.cfg")).read(), work, workers=1, timeout=600, name="shape_orig")
    if "Model checking completed" not in res["out"] or "Error:" in res["out"]:
        raise Infra("SlaacShape (design as found) did not run to completion:\n" + res["out"][-2000:])
    best = {}
    for line in res["out"].splitlines():
        line = line.strip()
        if not line.startswith('<<"DESIGN-CEX"'):
            continue
        raw = line[line.index(',') + 1:].strip()
        raw = raw[1:raw.rindex('"')].replace('\\"', '"').replace("\\\\", "\\")
        j = json.loads(raw)
        key = tuple(sorted(j["clauses"]))
        evs = j["events"]
        if key not in best or (len(evs), json.dumps(evs, sort_keys=True)) < (len(best[key]), json.dumps(best[key], sort_keys=True)):
            best[key] = evs
    return res, [(list(k), v) for k, v in sorted(best.items())]


def runner(prop, fam, tier, seed, replay=None):
    t0 = time.time()
    pre = os.path.join(WORK, "%s-shape-%d" % (prop, os.getpid()))
    shutil.rmtree(pre, ignore_errors=True)
    os.makedirs(pre)
    try:
        fam2 = dict(fam)
        fam2.pop("runner", None)
        shape_info = None
        if not replay:
            try:
                res, cex = _design_counterexamples(pre)
            except Infra as e:
                print("INFRA-FAILURE property=%s %s" % (prop, str(e)[:3000]), flush=True)
                return 2
            if not any("IntervalBounds" in cl for cl, _ in cex):
                print("INFRA-FAILURE property=%s the life cycle as found (SlaacShape, Fixed = FALSE) no longer yields its counterexample" % prop, flush=True)
                return 2
            cases = [dict(id="cex%d" % i, system="shape", events=evs, cfg=SHAPE_CFG, clauses=cl) for i, (cl, evs) in enumerate(cex)]
            cf = os.path.join(pre, "extra_cases.json")
            json.dump(dict(property=prop, cases=cases), open(cf, "w"))
            env = dict(fam2.get("env", {}))
            env["VERIF_EXTRA_CASES"] = cf
            fam2["env"] = env
            shape_info = dict(module="SlaacShape", cfg="MC_shape_orig.cfg", states=res["distinct"], transitions=res["generated"],
                              counterexamples=[dict(clauses=cl, events=[(e["op"], e["dt"]) for e in evs]) for cl, evs in cex],
                              note="counterexamples of the life cycle as found; each is executed on the real daemon as chain shape#cex<i> (SendOnClosed is not a "
                                   "clause of the contract: the failed send after Stop is logged by the daemon and recorded in the step's `fails`)")
            log("design as found: %d counterexample histories (%s)" % (len(cex), "; ".join(",".join(c) for c, _ in cex)))
        try:
            rc = table_check(prop, fam2, tier, seed, replay)
        except Exception:   # a crash of the driver is never a verdict
            import traceback
            print("INFRA-FAILURE property=%s driver exception: %s" % (prop, traceback.format_exc()[-2000:]), flush=True)
            rc = 2
        if rc == 2:
            return 2
        if shape_info is not None:
            p = vcheck.evidence_path(prop)
            try:
                ev = json.load(open(p))
                ev["coverage"]["original_design_model"] = shape_info
                ev["coverage"]["states"] += shape_info["states"]
                ev["coverage"]["transitions"] += shape_info["transitions"]
                ev["wall_s"] = round(time.time() - t0, 2)
                tmp = p + ".tmp%d" % os.getpid()
                json.dump(ev, open(tmp, "w"), indent=1, sort_keys=True)
                os.replace(tmp, p)
            except Exception:
                pass
        return rc
    finally:
        shutil.rmtree(pre, ignore_errors=True)


CHECKS = {
    "X15": dict(
        runner=runner,
        pkg="./slaac", test="TestExplore", spec_dir="Slaac", impl_module="SlaacImpl",
        design=DESIGN,
        watch=CLAUSES,
        impl_workers=2,
        assumptions=[
            "the link: the test binary re-executes itself with CLONE_NEWNET (needs CAP_SYS_ADMIN / CAP_NET_ADMIN; exit 2 otherwise) and builds one veth pair x15a/x15b "
            "(DAD and accept_ra off); the daemon is configured with Interface x15a and opens its own raw ICMPv6 socket; the harness reads a raw ICMPv6 socket bound to "
            "x15b with IPV6_RECVHOPLIMIT / IPV6_RECVPKTINFO, so datagram bytes, hop limit and destination are what the kernel put on the link; MLD / neighbour-discovery "
            "chatter of the kernel (types 130-133, 135, 136, 143) is dropped by the harness, every other ICMPv6 datagram is judged",
            "virtual time (systems of kind hook): every daemon lives in its own testing/synctest bubble, started with VerifStart (pkg/slaac/verif_hooks.go: Start line by "
            "line without `go s.receiveLoop(ctx)`, because the receive loop polls with one-second wall-clock read deadlines and never blocks durably); a solicitation is "
            "delivered with VerifRS (= what receiveLoop does for type 133) and only while the daemon is between Start and Stop; send instants are the time stamps "
            "(bubble clock) of the daemon's own `Sent Router Advertisement` log entries, paired in order with the datagrams read from the link (a shortfall is exit 2)",
            "system wire-real uses the real Start / receiveLoop / Stop in real time and real Router Solicitations sent from x15b to ff02::2; no time passes there "
            "(the interval clauses are judged in the hook systems only); the harness waits up to 1.5 s of real time for an answer",
            "math/rand's global source is re-seeded before every replay (//go:debug randseednop=0) so that the random intervals are reproducible; tables use "
            "MinRAInterval = MaxRAInterval, random intervals are driven by chains only",
            "fingerprint: the daemon's fields by reflection (counters left out), plus a look-ahead - the instants of every send / failed send during the next "
            "2*MaxRAInterval+1 s of virtual time - because pending timers of sender goroutines are invisible to reflection (adequacy is checked by core.Explore)",
            "alphabet restrictions made by the harness (not judged): Start only when not running and at most MaxStarts times; AddPrefix only for a prefix not in the list; "
            "SendImmediateRA before the first Start only in system wire-real; RemovePrefix with the canonical CIDR string",
            "HopLimit255 is judged in the systems with cfg.hop only (wire-real, cfg-*) and does not end the monitor's walk, neither does NotDefaultRouter",
            "the trusted decoding step is parseRA in harness/slaac/system.go (bytes of one datagram -> fields); 32-bit lifetimes are handed to TLC in 16-bit halves",
            "not covered: rate limiting of solicited RAs, final RA on Stop, deprecation of removed prefixes, RFC 4861 6.2.4 initial-advertisement spacing (none documented "
            "by the package; recorded in proposals/slaac.json notes), the data race between buildRA and AddPrefix/RemovePrefix, duplicate prefixes, cancellation of "
            "the context, Start on a running daemon, pkg/slaac/types.go helpers (GenerateSLAACAddress etc.)",
        ],
        explanation="Slaac.tla (contract, 5 sentences / 16 clauses) is model-checked against the guarantees stated over absolute histories (SlaacDesign: the contract accepts a "
                    "candidate answer iff the direct statement does; ghost tracks the absolute state); SlaacShape models the life cycle of radvd.go section by section (as found: "
                    "TLC finds the sender that survives Stop - a send on the closed socket, and after a second Start two senders closer than MinRAInterval; with a per-Start "
                    "done channel: clean). SlaacImpl walks the transition tables extracted from the real Server on a real link under virtual time (closed under the alphabet), "
                    "the table of the really started daemon (wire-real), seeded random chains with random intervals, and the design counterexamples replayed on the real code.",
    ),
}
