#!/bin/bash
# seed_eval.sh <prop> <worktree> <n> <pkgs...> : verify a seeded change (worktree/_seed/<n>) and run the check against it.
# The demo file is expected to have been described in meta.json; pass DEMO_DST (path relative to worktree) and DEMO_RUN (go test args) via env.
set -u
export GOFLAGS=-mod=mod GOPROXY=off
P=$1; WT=$2; N=$3; shift 3; PKGS="$@"
S=$WT/_seed/$N
cd $WT && git checkout -q -- . && git clean -fdq -e _seed >/dev/null
echo "== baseline (no change): demo must pass"
mkdir -p $(dirname $WT/$DEMO_DST); cp $S/${DEMO_SRC:-demo_test.go} $WT/$DEMO_DST
( cd $WT && go test -count=1 $DEMO_RUN 2>&1 | tail -3 ); rc_clean=${PIPESTATUS[0]}
rm -f $WT/$DEMO_DST
echo "== apply change"
( cd $WT && git apply $S/patch.diff ) || { echo "PATCH DOES NOT APPLY"; exit 9; }
( cd $WT && go build ./... 2>&1 | tail -3 && go build -tags verif ./... 2>&1 | tail -3 )
echo "== existing tests of touched packages"
( cd $WT && go test -count=1 $PKGS 2>&1 | tail -5 )
echo "== demo with change: must fail"
mkdir -p $(dirname $WT/$DEMO_DST); cp $S/${DEMO_SRC:-demo_test.go} $WT/$DEMO_DST
( cd $WT && go test -count=1 $DEMO_RUN 2>&1 | tail -6 )
rm -f $WT/$DEMO_DST
echo "== check against the changed tree"
( cd /verif && VERIF_REPO=$WT bin/check $P ${CHECK_ARGS:-} 2>&1 | grep -E "VIOLATION|KNOWN-FINDING|INFRA|done rc" | cut -c1-400 )
( cd $WT && git checkout -q -- . )
echo "== reverted"
