#!/bin/bash
# lib/demo_run.sh <name> <prop> <expected-clause> : the working-tree change in /tmp/mut is a hand-made mutation meant to make
# <expected-clause> fire.  Runs the check against /tmp/mut, stores patch + outcome under binding-demos/<name>/, reverts /tmp/mut.
N=$1; P=$2; C=$3
cd /tmp/mut && git diff > /tmp/mut.patch
[ -s /tmp/mut.patch ] || { echo "no change in /tmp/mut"; exit 2; }
(cd /tmp/mut && GOFLAGS=-mod=mod GOPROXY=off go build ./... ) || { echo "does not build"; exit 2; }
out=$(cd /verif && VERIF_REPO=/tmp/mut bin/check $P 2>&1); rc=$?
cl=$(echo "$out" | grep '^VIOLATION' | sed -n 's/.*clauses=\([^ ]*\).*/\1/p' | tr ',' '\n' | sort -u | tr '\n' ' ')
echo "$N: rc=$rc clauses: $cl"
hit=no; echo " $cl" | tr ',' ' ' | grep -qw "$C" && hit=yes
mkdir -p /verif/binding-demos/$N
cp /tmp/mut.patch /verif/binding-demos/$N/patch.diff
python3 - "$N" "$P" "$C" "$rc" "$hit" "$cl" <<'PY'
import json,sys
n,p,c,rc,hit,cl=sys.argv[1:7]
json.dump(dict(name=n,property=p,expected_clause=c,check_exit=int(rc),expected_clause_fired=(hit=="yes"),clauses_fired=cl.split(),
   note="hand-made mutation whose only purpose is to show that the clause can fire on real code (non-vacuity of the monitor); not a seeded change: it need not pass the existing tests"),
   open('/verif/binding-demos/%s/meta.json'%n,'w'),indent=1)
PY
[ "$hit" = yes ] || echo "$out" | tail -15
cd /tmp/mut && git checkout -- . 
