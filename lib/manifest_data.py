BASELINE_OFF = ("cd /repo && GOFLAGS=-mod=mod go test -json -vet=off -count=1 -timeout 25m ./...")
READY_FAMILIES = ["fam_coa", "fam_dhcp4", "fam_pppoesrv", "fam_antispoof", "fam_nat", "fam_pppfsm", "fam_qos", "fam_acct", "fam_rendezvous", "fam_keymaps", "fam_lifecycle", "fam_failover", "fam_hasync", "fam_wire"]  # lib/fam_<x>.py modules reviewed and merged by the lead
HOOK_COMMITS = ['ecb5b03', '8991ea8', '2f8f1f3', '915296f', 'f99dda1', '0dd83b8', '1ac4628', '869d11b', '42e8bdf', '68e6714', '4b933dc', '999940d', 'a9a2de3', '6fbafd9', '42e8d17']
NOTES = ("Every check: bin/check <id> --tier quick|thorough [--replay file]. Exit 0 held (KNOWN-FINDING lines for listed findings), "
         "1 new violation (VIOLATION line), 2 infrastructure failure (never a verdict). Specifications under specs/, conformance harness under harness/ "
         "(Go test binaries built against /repo's working tree with -tags verif), driver under lib/. See DESIGN.md.")
ENGINES = [
    dict(name="tlc-apalache-trace", path="lib/fam_qos.py", serves_properties=["C19"],
         kind_free_text="TLA+ reference spec model-checked by TLC; traces of the natively compiled C program validated against the spec's inequalities by Apalache (64-bit values)"),
    dict(name="tlc-table", path="lib/tablecheck.py", serves_properties=["C01", "C05", "C12"],
         kind_free_text="TLA+ contract spec model-checked by TLC; transition tables and traces extracted from the real Go objects are walked by a TLA+ monitor spec under TLC"),
]
TLC_TABLE_TEXT = ("TLC decides it twice: (1) the contract specification is model-checked exhaustively for small constants to imply the property; "
                  "(2) the behaviour of the real implementation, extracted as transition tables (breadth-first closure over a finite alphabet, from fresh objects, "
                  "with full-state fingerprints) and as long random traces, is walked by TLC with the contract as monitor, every clause evaluated at every step. "
                  "Bounded: alphabet, pool sizes and depth are finite; within them the check is exhaustive.")
CLAIMS = {
    "C01": dict(engine="tlc-table", category="model_checking", design_ref="DESIGN.md section 7 C01",
                text=TLC_TABLE_TEXT, technique="TLA+ contract + TLC over extracted implementation transition tables and traces (11 pool implementations)",
                note="trusted: harness address->unit projection, reflection-based lookup for pools without a getter, TLC; concurrency is covered by a separate linearizability pass of the same spec"),
    "C05": dict(engine="tlc-table", category="model_checking", design_ref="DESIGN.md section 7 C05",
                text=TLC_TABLE_TEXT, technique="TLA+ contract + TLC over extracted tables with epoch advances, store faults and drain probes",
                note="trusted: as C01; the Drain probe allocates fresh subscribers until exhaustion on a dedicated replay of each state"),
}
CLAIMS["C12"] = dict(engine="tlc-table", category="model_checking", design_ref="DESIGN.md section 7 C12",
                text=TLC_TABLE_TEXT + " For C12 the extracted systems are the real DistributedAllocator over a scripted store with write/delete failures, restarts under every query order "
                "and remote changes, plus marshal round trips of the bitmap and epoch allocators; an implementation-shaped TLA+ model of load/remote-apply (PersistDesign) is model-checked exhaustively.",
                technique="TLA+ persistence model checked by TLC + extracted tables of the real allocator over a fault-injecting store judged by a TLA+ monitor",
                note="trusted: scripted store and synchronous watch delivery; crash = drop the object and restart on the same store; needs the verif-tagged epoch-tick hook in pkg/allocator")
_later = "check not built yet in this session (planned, see DESIGN.md section 11); not claimed until it exists and is sound"
NOT_APPLICABLE = {
    "C06": "Go/C struct layout and key-encoding agreement is encode/decode fidelity with no state or transition to specify; a TLA+ model cannot decide it (DESIGN.md section 8)",
    "C07": "memory safety of C kernel programs needs guard pages/sanitizers/the kernel verifier, not a state-machine specification (DESIGN.md section 8)",
}
for p in ["C02", "C03", "C04", "C08", "C09", "C10", "C11", "C13", "C14", "C15", "C16", "C17", "C18", "C19", "C20"]:
    NOT_APPLICABLE[p] = _later
