#!/usr/bin/env python3
"""Common driver: build harness from /repo's working tree -> explore real code -> TLC on the
extracted tables/traces -> confirm by replay -> known findings -> evidence -> verdict.

Exit codes: 0 property held on everything explored (known findings printed),
            1 new violation (VIOLATION line printed), 2 infrastructure failure (never a verdict)."""
import json, os, re, shutil, subprocess, sys, time, hashlib

VERIF = os.path.dirname(os.path.dirname(os.path.abspath(__file__)))
REPO = os.environ.get("VERIF_REPO", "/repo")
HARNESS = os.path.join(VERIF, "harness")
SPECS = os.path.join(VERIF, "specs")
WORK = os.path.join(VERIF, ".work")

GOENV = dict(os.environ, GOFLAGS="-mod=mod", GOPROXY="off", GOTOOLCHAIN=os.environ.get("GOTOOLCHAIN", "auto"))
GOENV.pop("GOSUMDB", None)


class Infra(Exception):
    pass


def log(*a):
    print("[check]", *a, file=sys.stderr, flush=True)


def run(cmd, cwd=None, env=None, timeout=None, check=False):
    t0 = time.time()
    try:
        p = subprocess.run(cmd, cwd=cwd, env=env, timeout=timeout, stdout=subprocess.PIPE, stderr=subprocess.STDOUT, text=True, errors="replace")
    except subprocess.TimeoutExpired as e:
        raise Infra("timeout after %ss: %s" % (timeout, " ".join(cmd)[:200]))
    if check and p.returncode != 0:
        raise Infra("command failed (%d): %s\n%s" % (p.returncode, " ".join(cmd)[:200], p.stdout[-4000:]))
    return p.returncode, p.stdout, time.time() - t0


def _gomod_text():
    src = open(os.path.join(REPO, "go.mod")).read().splitlines()
    body = [l for l in src if not l.startswith("module ")]
    out = ["module verifharness", ""] + body + ["", "require github.com/codelaboratoryltd/bng v0.0.0", "",
                                                  "replace github.com/codelaboratoryltd/bng => " + REPO, ""]
    return "\n".join(out)


def sync_gomod(hdir=None):
    """harness/go.mod mirrors /repo/go.mod (so the harness builds whatever the tree requires)."""
    hdir = hdir or HARNESS
    txt = _gomod_text()
    p = os.path.join(hdir, "go.mod")
    if not os.path.exists(p) or open(p).read() != txt:
        tmp = p + ".tmp%d" % os.getpid()
        open(tmp, "w").write(txt)
        os.replace(tmp, p)
    sums = os.path.join(hdir, "go.sum")
    src = open(os.path.join(REPO, "go.sum")).read()
    if not os.path.exists(sums) or open(sums).read() != src:
        tmp = sums + ".tmp%d" % os.getpid()
        open(tmp, "w").write(src)
        os.replace(tmp, sums)


def harness_dir(work):
    """The harness module to build. Against /repo itself that is /verif/harness; against another tree
    (VERIF_REPO=<worktree>) a private copy is used so concurrent checks never see a foreign replace directive."""
    if os.path.realpath(REPO) == "/repo":
        sync_gomod(HARNESS)
        return HARNESS
    priv = os.path.join(work, "harness_copy")
    if not os.path.exists(priv):
        shutil.copytree(HARNESS, priv, ignore=shutil.ignore_patterns("*.test", "out"))
    sync_gomod(priv)
    return priv


def build_harness(pkg, work):
    hdir = harness_dir(work)
    binp = os.path.join(work, "harness_" + pkg.strip("./").replace("/", "_") + ".test")
    rc, out, dt = run(["go", "test", "-tags", "verif", "-c", "-o", binp, pkg], cwd=hdir, env=GOENV, timeout=1200)
    if rc != 0 or not os.path.exists(binp):
        raise Infra("harness build failed for %s:\n%s" % (pkg, out[-6000:]))
    log("built %s in %.1fs" % (pkg, dt))
    return binp


def run_explorer(binp, test, outdir, tier, seed, extra_env=None, timeout=3600):
    env = dict(GOENV, VERIF_OUT=outdir, VERIF_TIER=tier, VERIF_SEED=str(seed))
    if extra_env:
        env.update(extra_env)
    os.makedirs(outdir, exist_ok=True)
    rc, out, dt = run([binp, "-test.run", "^" + test + "$", "-test.count=1", "-test.timeout", "%ds" % timeout],
                      cwd=outdir, env=env, timeout=timeout + 60)
    open(os.path.join(outdir, "explorer.log"), "w").write(out)
    if rc != 0:
        raise Infra("explorer %s failed (rc=%d):\n%s" % (test, rc, out[-6000:]))
    log("explorer %s done in %.1fs" % (test, dt))
    return out


TLC_STATES = re.compile(r"(\d+) states generated, (\d+) distinct states found, (\d+) states left on queue")


def run_tlc(spec_dir, module, cfg_text, work, files=None, workers=1, timeout=1800, name=None, simulate=None, extra_java=None):
    """Runs TLC in a scratch copy of spec_dir. Returns dict(generated, distinct, out, ok)."""
    name = name or module
    d = os.path.join(work, "tlc_" + name)
    if os.path.exists(d):
        shutil.rmtree(d)
    os.makedirs(d)
    for sd in (os.path.join(SPECS, "common"), spec_dir):
        if os.path.isdir(sd):
            for f in os.listdir(sd):
                if f.endswith(".tla"):
                    shutil.copy(os.path.join(sd, f), d)
    for src, dst in (files or {}).items():
        dstp = os.path.join(d, dst)
        if os.path.exists(dstp):
            os.remove(dstp)
        try:
            os.link(src, dstp)
        except OSError:
            shutil.copy(src, dstp)
    open(os.path.join(d, name + ".cfg"), "w").write(cfg_text)
    jtmp = os.path.join(d, "jtmp")   # SANY unpacks the standard modules into java.io.tmpdir on every run
    os.makedirs(jtmp, exist_ok=True)
    cmd = ["java", "-XX:+UseParallelGC", "-Xss256m", "-Djava.io.tmpdir=" + jtmp]
    if extra_java:
        cmd += extra_java
    cmd += ["-cp", "/opt/veriftools/tla/tla2tools.jar:/opt/veriftools/tla/CommunityModules-deps.jar", "tlc2.TLC",
            "-workers", str(workers), "-metadir", os.path.join(d, "md"), "-config", name + ".cfg"]
    if simulate:
        cmd += simulate
    cmd += [module + ".tla"]
    env = dict(os.environ)
    env.pop("JAVA_TOOL_OPTIONS", None)
    rc, out, dt = run(cmd, cwd=d, env=env, timeout=timeout)
    open(os.path.join(d, "tlc.out"), "w").write(out)
    m = None
    for m in TLC_STATES.finditer(out):
        pass
    res = dict(rc=rc, out=out, dir=d, wall=dt, generated=int(m.group(1)) if m else 0, distinct=int(m.group(2)) if m else 0,
               completed=("Model checking completed" in out) or ("Finished in" in out and simulate is not None))
    shutil.rmtree(os.path.join(d, "md"), ignore_errors=True)
    shutil.rmtree(jtmp, ignore_errors=True)
    return res


VIOL_RE = re.compile(r'<<"VIOLATION", "(.*)">>\s*$')


def parse_violations(out):
    vs = []
    for line in out.splitlines():
        m = VIOL_RE.search(line.strip())
        if not m:
            continue
        raw = m.group(1).replace('\\"', '"').replace("\\\\", "\\")
        try:
            vs.append(json.loads(raw))
        except Exception:
            raise Infra("cannot parse violation line: " + line[:300])
    return vs


def tlc_error(res):
    """TLC finished abnormally (spec error, exception) -> infrastructure failure."""
    o = res["out"]
    if "Error:" in o or "Exception" in o and "PrintT" not in o:
        # Report invariants never fail (they only print); any Error is a real problem
        idx = o.find("Error:")
        return o[idx:idx + 3000] if idx >= 0 else o[-3000:]
    if not TLC_STATES.search(o):
        return o[-3000:]
    return None


def load_known():
    p = os.path.join(VERIF, "known-findings.json")
    k = {"findings": [], "fixed": []}
    if os.path.exists(p):
        k = json.load(open(p))
    # proposals of families still under construction (merged into known-findings.json by the lead)
    pd = os.path.join(VERIF, "proposals")
    if os.path.isdir(pd):
        for f in sorted(os.listdir(pd)):
            if f.endswith(".json"):
                try:
                    j = json.load(open(os.path.join(pd, f)))
                    k["findings"] += j.get("findings", [])
                except Exception:
                    pass
    return k


def match_known(known, prop, sig):
    """sig: dict(impl, clauses(list), last_op, ops(list of ops in witness)). Returns finding or None."""
    for f in known.get("findings", []):
        if f.get("property") != prop:
            continue
        m = f.get("match", {})
        if "impl" in m and not any(sig["impl"].startswith(x) for x in (m["impl"] if isinstance(m["impl"], list) else [m["impl"]])):
            continue
        if "clauses" in m and not set(sig["clauses"]) <= set(m["clauses"]):
            continue
        if "last_op" in m and sig.get("last_op") not in (m["last_op"] if isinstance(m["last_op"], list) else [m["last_op"]]):
            continue
        if "requires_ops" in m and not set(m["requires_ops"]) <= set(sig.get("ops", [])):
            continue
        if "requires_any_ops" in m and not set(m["requires_any_ops"]) & set(sig.get("ops", [])):
            continue
        if "witness" in m and sig.get("witness_key") != m["witness"]:
            continue
        return f
    return None


def _outroot():
    """Evidence and replay files of a run against /repo itself live in /verif; a run against another tree
    (VERIF_REPO=<scratch worktree>, used for seeded changes) must not overwrite them."""
    return VERIF if os.path.realpath(REPO) == "/repo" else os.path.join(WORK, "other-tree")


def _evdir(prop):
    # extra families (ids X..: components outside the listed properties) keep their evidence apart
    return "evidence-extra" if prop.startswith("X") else "evidence"


def evidence_path(prop):
    return os.path.join(_outroot(), _evdir(prop), prop + ".json")


def write_evidence(prop, tier, seed, level, coverage, assumptions, wall, violations, extra=None):
    os.makedirs(os.path.join(_outroot(), _evdir(prop)), exist_ok=True)
    ev = dict(property_id=prop, tier=tier, seed=int(seed), level=level, coverage=coverage,
              assumptions=assumptions, wall_s=round(wall, 2), violations=violations)
    if extra:
        ev.update(extra)
    p = evidence_path(prop)
    tmp = p + ".tmp%d" % os.getpid()
    json.dump(ev, open(tmp, "w"), indent=1, sort_keys=True)
    os.replace(tmp, p)


def write_replay(prop, name, obj):
    d = os.path.join(_outroot(), "replays", prop)
    os.makedirs(d, exist_ok=True)
    h = hashlib.sha1(json.dumps(obj, sort_keys=True).encode()).hexdigest()[:10]
    p = os.path.join(d, "%s-%s.json" % (re.sub(r"[^A-Za-z0-9_.-]", "_", name)[:60], h))
    json.dump(obj, open(p, "w"), indent=1, sort_keys=True)
    return p


def workdir(prop):
    d = os.path.join(WORK, "%s-%d" % (prop, os.getpid()))
    if os.path.exists(d):
        shutil.rmtree(d)
    os.makedirs(d)
    return d


def cleanup(work, keep_logs=True):
    # keep only small logs of the last run per property
    try:
        last = os.path.join(WORK, "last-" + os.path.basename(work).split("-")[0])
        if os.path.exists(last):
            shutil.rmtree(last)
        os.makedirs(last)
        for root, _, files in os.walk(work):
            for f in files:
                p = os.path.join(root, f)
                if f.endswith((".log", ".out", "stats.json")) and os.path.getsize(p) < 5_000_000:
                    rel = os.path.relpath(p, work).replace("/", "__")
                    shutil.copy(p, os.path.join(last, rel))
        shutil.rmtree(work, ignore_errors=True)
    except Exception:
        pass
