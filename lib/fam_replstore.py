"""Family "replstore" (extra family X07, not one of the 20 listed properties): pkg/nexus - the replicated key-value store: the
real nexus.MemoryStore, nexus.CLSetStore (namespace, watch callbacks, insert/update/delete hooks, ApplyRemoteChange, peer
registry with heartbeats and the sync loop's pruning) and nexus.DistributedStore (memory / read / write modes), under
testing/synctest virtual time.  Two replicas are joined by the real hooks of one and ApplyRemoteChange of the other.

Flow (on top of the generic table flow of tablecheck.py):
  0. TLC model-checks the implementation-shaped design spec of the code AS FOUND (specs/ReplStore/ReplStoreShape.tla,
     Fixed = FALSE: one operator per critical section of clset.go; two overlapping Puts are three scheduling points).  Each
     counterexample is a history in the harness' alphabet; the shortest per clause set is handed to the explorer
     (VERIF_EXTRA_CASES) and executed on the real stores as one more chain (shape#cex<i>), judged like everything else.
  1. U1, concurrently: the contract is model-checked against the guarantees stated over absolute histories (ReplStoreDesign,
     modes "repl" and "peers": verdicts coincide step by step, the ghost is the abstraction of the history, ordered
     convergence follows from the per-call clauses); the repaired design (Fixed = TRUE) is clean.
  2. generic flow: table extraction until closed + seeded random chains on the real code, TLC monitor walk (ReplStoreImpl),
     replay of every witness on fresh objects, known findings, evidence.

Extra family: no MANIFEST entry."""
import json, os, shutil, sys, time
import vcheck
from vcheck import SPECS, WORK, Infra, log, run_tlc
from tablecheck import table_check

CLAUSES = ["ReadYourWrites", "WriteAccepted", "QueryExact", "Stable", "WatchOnce", "WatchOnlyMatching", "HookOnce", "HookKind", "NoEcho",
           "RemoteVisible", "Isolation", "ConvergeOrdered", "ConvergeConcurrent", "ReadOnlyRefuses", "WriteNodeRule", "ClosedRejects",
           "NoEarlyInactive", "InactiveAfterTtl", "SelfNeverPruned", "PeersKnown"]

ALL = ["ins", "upd", "del"]
# must describe the same configurations as Cfg in specs/ReplStore/ReplStoreShape.tla (Variant "full" / "ins")
SHAPE_DEFS = {
    "MC_shape_orig.cfg": ("shape", dict(name="shape", kind="cl", nr=2, keys=["a"], prefixes=[""], nv=2, hooks=[ALL, ALL], gossip=True, w0=[[1], [1]],
                                        qcap=2, foreign=True, put2=True)),
    "MC_shape_orig_ins.cfg": ("shape-ins", dict(name="shape-ins", kind="cl", nr=1, keys=["a"], prefixes=[""], nv=2, hooks=[["ins", "del"]], w0=[[1]])),
}

DESIGN = [("ReplStoreDesign", "MC_design_repl.cfg", 2), ("ReplStoreDesign", "MC_design_peers.cfg", 1),
          ("ReplStoreShape", "MC_shape_fixed.cfg", 1), ("ReplStoreShape", "MC_shape_fixed_ins.cfg", 1)]
DESIGN_THOROUGH = DESIGN + [("ReplStoreDesign", "MC_design_repl_deep.cfg", 4), ("ReplStoreDesign", "MC_design_peers_deep.cfg", 2),
                            ("ReplStoreShape", "MC_shape_fixed_deep.cfg", 2)]


def _design_counterexamples(work, cfgfile):
    """TLC on the design as found; returns (tlc result, [(clauses, events)]) - the shortest history per clause set."""
    sd = os.path.join(SPECS, "ReplStore")
    cfg = open(os.path.join(sd, cfgfile)).read()
    res = run_tlc(sd, "ReplStoreShape", cfg, work, workers=1, timeout=900, name=cfgfile[3:-4], extra_java=["-XX:ParallelGCThreads=2"])
    if "Model checking completed" not in res["out"] or "Error:" in res["out"]:
        raise Infra("ReplStoreShape (design as found, %s) did not run to completion:\n%s" % (cfgfile, res["out"][-2000:]))
    best = {}
    for line in res["out"].splitlines():
        line = line.strip()
        if not line.startswith('<<"DESIGN-CEX"'):
            continue
        raw = line[line.index(',') + 1:].strip()
        raw = raw[1:raw.rindex('"')].replace('\\"', '"').replace("\\\\", "\\")
        j = json.loads(raw)
        key = tuple(sorted(j["clauses"]))
        evs = j["events"]
        if key not in best or (len(evs), json.dumps(evs, sort_keys=True)) < (len(best[key]), json.dumps(best[key], sort_keys=True)):
            best[key] = evs
    return res, [(list(k), v) for k, v in sorted(best.items())]


def _design_must_pass(work, module, cfgfile, workers):
    sd = os.path.join(SPECS, "ReplStore")
    res = run_tlc(sd, module, open(os.path.join(sd, cfgfile)).read(), work, workers=workers, timeout=2400, name=cfgfile[:-4], extra_java=["-XX:ParallelGCThreads=2"])
    if "No error has been found" not in res["out"]:
        raise Infra("design spec %s/%s did not pass TLC (a specification problem, not a verdict):\n%s" % (module, cfgfile, res["out"][-3000:]))
    return dict(module=module, cfg=cfgfile, states=res["distinct"], transitions=res["generated"], wall_s=round(res["wall"], 1))


def runner(prop, fam, tier, seed, replay=None):
    t0 = time.time()
    pre = os.path.join(WORK, "%s-shape-%d" % (prop, os.getpid()))
    shutil.rmtree(pre, ignore_errors=True)
    os.makedirs(pre)
    try:
        fam2 = dict(fam)
        fam2.pop("runner", None)
        fam2["design"] = []   # run here, concurrently
        shape_info, design_stats, futures, pool = None, [], [], None
        if not replay:
            from concurrent.futures import ThreadPoolExecutor
            pool = ThreadPoolExecutor(max_workers=6)
            try:
                f0 = [(c, pool.submit(_design_counterexamples, pre, c)) for c in sorted(SHAPE_DEFS)]
                # U1 and the repaired design run in the background while the real code is explored
                futures = [pool.submit(_design_must_pass, pre, m, c, w) for (m, c, w) in (DESIGN_THOROUGH if tier == "thorough" else DESIGN)]
                found = [(c, f.result()) for c, f in f0]
            except Infra as e:
                pool.shutdown(wait=True)
                print("INFRA-FAILURE property=%s %s" % (prop, str(e)[:3000]), flush=True)
                return 2
            cases, shape_info = [], []
            for c, (res, cex) in found:
                sysname, d = SHAPE_DEFS[c]
                for cl, evs in cex:
                    cases.append(dict(id="cex%d" % len(cases), system=sysname, events=evs, cfg=dict(impl=sysname, nsubs=0, **{"def": json.dumps(d)}), clauses=cl))
                shape_info.append(dict(module="ReplStoreShape", cfg=c, states=res["distinct"], transitions=res["generated"],
                                       counterexamples=[dict(clauses=cl, events=[{k: v for k, v in e.items() if v not in (0, "", False) or k == "op"} for e in evs]) for cl, evs in cex],
                                       note="counterexamples of the design as found; each is executed on the real stores as chain %s#cex<i> (a history that "
                                            "violates on the real code is reported through the normal VIOLATION / KNOWN-FINDING path)" % sysname))
                log("design as found (%s): %d counterexample histories (%s)" % (c, len(cex), "; ".join(",".join(x) for x, _ in cex)))
            cf = os.path.join(pre, "extra_cases.json")
            json.dump(dict(property=prop, cases=cases), open(cf, "w"))
            env = dict(fam2.get("env", {}))
            env["VERIF_EXTRA_CASES"] = cf
            fam2["env"] = env
        try:
            rc = table_check(prop, fam2, tier, seed, replay)
        except Exception:   # a crash of the driver is never a verdict
            import traceback
            print("INFRA-FAILURE property=%s driver exception: %s" % (prop, traceback.format_exc()[-2000:]), flush=True)
            rc = 2
        if pool is not None:
            try:
                design_stats = [f.result() for f in futures]
            except Infra as e:
                print("INFRA-FAILURE property=%s %s" % (prop, str(e)[:3000]), flush=True)
                rc = 2
            finally:
                pool.shutdown(wait=True)
            for d in design_stats:
                log("design %s/%s: %d distinct states (%.0f s)" % (d["module"], d["cfg"], d["states"], d["wall_s"]))
        if rc == 2:
            return 2
        if shape_info is not None:
            p = vcheck.evidence_path(prop)
            try:
                ev = json.load(open(p))
                ev["coverage"]["original_design_model"] = shape_info
                ev["coverage"]["design_runs"] = design_stats
                ev["coverage"]["states"] += sum(x["states"] for x in shape_info) + sum(d["states"] for d in design_stats)
                ev["coverage"]["transitions"] += sum(x["transitions"] for x in shape_info) + sum(d["transitions"] for d in design_stats)
                ev["wall_s"] = round(time.time() - t0, 2)
                tmp = p + ".tmp%d" % os.getpid()
                json.dump(ev, open(tmp, "w"), indent=1, sort_keys=True)
                os.replace(tmp, p)
            except Exception:
                pass
        return rc
    finally:
        shutil.rmtree(pre, ignore_errors=True)


CHECKS = {
    "X07": dict(
        runner=runner,
        pkg="./replstore", test="TestExplore", spec_dir="ReplStore", impl_module="ReplStoreImpl",
        design=DESIGN,
        watch=CLAUSES,
        impl_workers=4,
        assumptions=[
            "virtual time: every replay lives in its own testing/synctest bubble, bubbles strictly one after the other; one unit of the specification's time = 1 s; "
            "SyncInterval and PeerTTL are whole units and the harness advances time by whole units only; the sync tickers are created at bubble time 0 (New waits for "
            "the sync loops), so prune rounds fall on whole multiples of SyncInterval; the contract leaves PeerTTL < age <= PeerTTL + SyncInterval open (either answer)",
            "watch callbacks are delivered on goroutines of their own (`go cb(...)`); the harness lets all of them finish after every call (synctest.Wait) and compares "
            "the set of calls per step, not their order; values are the byte strings v1..vN (nil values are not in the alphabet)",
            "two replicas are joined the way the package documents it: the insert / update / delete hooks of one append to a FIFO queue (harness code), the step rc "
            "hands the oldest queued change to ApplyRemoteChange of the other; announcements travel FIFO per direction and are applied exactly once; a replica with "
            "QCap changes under way to the other makes no further write (keeps the tables finite; the contract sees such a step as skipped)",
            "which of two concurrent writes of one key (made on different replicas, neither having seen the other) a replica keeps when the other's change arrives "
            "is left open by the contract (read from the observation); that the replicas agree in the end is the separate clause ConvergeConcurrent",
            "the step put2 runs two Puts of one key on one replica so that they overlap: the first Put's goroutine is parked at the entry of its hook (the hook is "
            "harness code; nothing in /repo is touched), the second Put runs from start to end, then the first is released; an implementation that calls hooks "
            "under its lock simply serializes them (both Puts are started on goroutines and the harness waits for the bubble to settle)",
            "DistributedStore's read / write modes cannot be constructed in this build (newCRDTBackend needs build tag clset): the harness creates the store in memory "
            "mode and sets its unexported mode / crdt fields by reflection, with a thin adapter that puts a real CLSetStore behind the backend interface "
            "(Subscribe = Watch, Members = active peers); remote changes reach the read node's backend directly, as gossip would deliver them",
            "what a replica holds is also read from the stores' own maps by reflection (data / cache) after every step and compared with the ghost (content clauses "
            "are blamed on the last call); keys of other namespaces in that map are not counted as content; the remote change of another namespace uses the same key "
            "string under namespace `zz`",
            "a heartbeat of a peer that never registered is not issued (the package does not say what it does); peers are not exercised together with Close (after "
            "Close the sync loop is gone and nothing is promised about the registry); DistributedStore in memory mode and MemoryStore have no Close step (their Close "
            "is documented as a no-op / cancels a context nobody reads)",
            "fingerprint = per replica the whole map (foreign keys included), the closed flag, the callbacks registered (prefixes in order), the queue of changes "
            "under way to it; the peers with flag and capped age; the phase of the sync ticker; adequacy re-checked on 20 re-reached nodes per system",
            "ConvergeConcurrent goes beyond what the stub implements (NewCLSetStore: `in-memory implementation with sync stub`) but is what the type's comment promises "
            "(`provides eventual consistency across Nexus cluster nodes`); separate clause, see proposals/replstore.json",
            "not covered: the clset build (crdt_backend.go, libp2p), client.go / http_allocator.go / vlan.go, TypedStore, concurrent Set*Hook (data race on the hook "
            "fields), aliasing of value slices, DistributedStore's cache TTL (there is none in this tree)",
        ],
        explanation="ReplStore.tla (contract, 7 sentences / 20 clauses) is model-checked against the guarantees stated over absolute histories (ReplStoreDesign: per replica "
                    "the sequence of writes applied and of announcements made with what the announcer had seen - vector-clock concurrency; peers: absolute times; verdicts "
                    "coincide step by step, the ghost is the abstraction of the history, ordered convergence is a theorem of the per-call clauses under FIFO delivery). "
                    "ReplStoreShape models clset.go critical section by critical section (as found: TLC finds the insert hook called for an update, the foreign-namespace "
                    "change that reaches the watchers, the two replicas that swap values under concurrent writes and the two overlapping Puts announced in the wrong "
                    "order; with the proposed repairs - hooks inside the critical section, versioned last-writer-wins, namespace filter - clean). ReplStoreImpl walks the "
                    "transition tables extracted from the real MemoryStore / CLSetStore / DistributedStore under virtual time (closed under the alphabet: unbounded-length "
                    "verdict relative to alphabet and fingerprint), seeded random chains on larger configurations, and the design counterexamples replayed on the real code.",
    ),
}
