#!/usr/bin/env python3
"""Regenerate the table of docsrc/part10.md from seeded/*/meta.json (between the table header and the trailing paragraph)."""
import glob, json, os, re
V = os.path.dirname(os.path.dirname(os.path.abspath(__file__)))
rows, n, strengthened = [], 0, 0
for x in sorted(glob.glob(os.path.join(V, "seeded", "*")), key=lambda p: (os.path.basename(p).split("-")[0], int(os.path.basename(p).split("-")[1]))):
    m = json.load(open(os.path.join(x, "meta.json"))); ev = m["evaluation"]
    n += 1
    strengthened += ev["caught"] == "after-strengthening"
    res = {"yes": "caught", "after-strengthening": "**missed, then caught**", "no": "**NOT reported**"}.get(ev["caught"], ev["caught"])
    note = ev["notes"].replace("|", "/")
    if ev.get("status_on_current_head"):
        note += " - *on the current tree:* " + ev["status_on_current_head"].replace("|", "/")
    rows.append("| %s | `%s` | %s | %s | %s |" % (os.path.basename(x), ", ".join(m["files"]), res, ", ".join(ev["clauses"]), note))
p = os.path.join(V, "docsrc", "part10.md")
s = open(p).read()
head = s[:s.index("| change | file |")]
tail = s[s.index("\nHand-made mutations"):]
nno = sum(1 for x in glob.glob(os.path.join(V, "seeded", "*", "meta.json")) if json.load(open(x))["evaluation"]["caught"] == "no")
head = re.sub(r"\d+ changes: \d+ were reported by the check as first\s+built, \d+ were missed at first and are reported after a strengthening of harness or specification\n\(exit 1, `VIOLATION`, the unchanged tree still clean\), \d+ are not reported",
              "%d changes: %d were reported by the check as first\nbuilt, %d were missed at first and are reported after a strengthening of harness or specification\n(exit 1, `VIOLATION`, the unchanged tree still clean), %d are not reported" % (n, n - strengthened - nno, strengthened, nno), head)
table = "| change | file | result | clauses reported | what it needs / what was strengthened |\n|--------|------|--------|------------------|----------------------------------------|\n" + "\n".join(rows) + "\n"
open(p, "w").write(head + table + tail)
print(n, "changes,", strengthened, "after strengthening")
