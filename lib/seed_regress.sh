#!/bin/bash
# seed_regress.sh [ids...] : apply every stored seeded change (seeded/<id>-<n>/patch.diff) to a scratch worktree of /repo's HEAD,
# run the property's quick check against it and expect exit 1 with a VIOLATION line. The worktree is removed afterwards.
# A patch that no longer applies to HEAD (the lines were rewritten by a later fix) is reported as STALE.
set -u
export GOFLAGS=-mod=mod GOPROXY=off
cd /verif
WT=/tmp/seed_regress_$$
git -C /repo worktree add -q --detach $WT HEAD || exit 2
trap 'git -C /repo worktree remove --force $WT >/dev/null 2>&1' EXIT
ids=${@:-$(ls seeded)}
for s in $ids; do
  p=${s%%-*}
  # a change reported by a neighbouring property's check names that check in its meta.json
  q=$(python3 -c "import json,re,sys; m=json.load(open('/verif/seeded/$s/meta.json')); c=m.get('evaluation',{}).get('check_cmd',''); r=re.search(r'bin/check (C\d+)', c); print(r.group(1) if r else '')" 2>/dev/null)
  [ -n "$q" ] && p=$q
  ( cd $WT && git checkout -q -- . && git clean -fdq )
  if ! ( cd $WT && git apply --check /verif/seeded/$s/patch.diff 2>/dev/null ); then echo "$s STALE (patch does not apply to HEAD)"; continue; fi
  ( cd $WT && git apply /verif/seeded/$s/patch.diff )
  out=$(VERIF_REPO=$WT bin/check $p 2>&1); rc=$?
  nv=$(echo "$out" | grep -c "^VIOLATION property=$p ")
  cl=$(echo "$out" | grep "^VIOLATION" | sed -n 's/.*clauses=\([^ ]*\).*/\1/p' | sort -u | tr '\n' ' ')
  echo "$s check=$p rc=$rc violations=$nv clauses=$cl"
done
git clean -fdq replays >/dev/null 2>&1
