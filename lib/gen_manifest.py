#!/usr/bin/env python3
"""Regenerates MANIFEST.json from lib/manifest_data.py (single source for claims)."""
import json, os, sys
sys.path.insert(0, os.path.dirname(os.path.abspath(__file__)))
import manifest_data as md

VERIF = os.path.dirname(os.path.dirname(os.path.abspath(__file__)))
import glob, importlib
for _f in sorted(glob.glob(os.path.join(os.path.dirname(os.path.abspath(__file__)), "fam_*.py"))):
    if os.path.basename(_f)[:-3] not in md.READY_FAMILIES:
        continue  # family still under construction: not claimed
    _m = importlib.import_module(os.path.basename(_f)[:-3])
    if getattr(_m, "ENGINE", None) and not any(e["name"] == _m.ENGINE["name"] for e in md.ENGINES):
        md.ENGINES.append(_m.ENGINE)
    for pid, c in getattr(_m, "MANIFEST", {}).items():
        md.CLAIMS[pid] = c
        md.NOT_APPLICABLE.pop(pid, None)
checks = []
for e in md.ENGINES:
    e["serves_properties"] = sorted(p for p, c in md.CLAIMS.items() if c["engine"] == e["name"]) or e.get("serves_properties", [])
for pid in sorted(md.CLAIMS):
    c = md.CLAIMS[pid]
    checks.append(dict(
        property_id=pid,
        quick_cmd="bin/check %s --tier quick" % pid,
        thorough_cmd="bin/check %s --tier thorough" % pid,
        evidence_file="/verif/evidence/%s.json" % pid,
        replay_cmd_template="bin/check %s --replay {path}" % pid,
        engine=c["engine"],
        level_claimed=dict(category=c["category"], text=c["text"], design_ref=c["design_ref"]),
        level_note=c["note"],
        technique=c["technique"],
    ))
m = dict(
    version=1,
    setup_cmd="bin/setup",
    hooks=dict(guard="verif", enable="go test -tags verif (harness/ module with `replace github.com/codelaboratoryltd/bng => /repo`)",
               baseline_off_cmd=md.BASELINE_OFF, source_commits=md.HOOK_COMMITS, add_only=True),
    engines=md.ENGINES,
    checks=checks,
    notes=md.NOTES,
    not_applicable=[dict(property_id=p, reason=r) for p, r in sorted(md.NOT_APPLICABLE.items())],
)
json.dump(m, open(os.path.join(VERIF, "MANIFEST.json"), "w"), indent=1)
print("MANIFEST.json written:", len(checks), "checks,", len(m["not_applicable"]), "not applicable")
