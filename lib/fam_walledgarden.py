"""Family "walledgarden" (extra family X09, not one of the 20 listed properties): pkg/walledgarden - the real walledgarden.Manager
(per-MAC subscriber state, AddToWalledGarden / ReleaseFromWalledGarden / BlockMAC / RemoveMAC / SetSubscriberState, the expiry checker,
the allowed-destination table, statistics, the MAC list) and its mirror in REAL kernel maps created by the harness and handed over with
SetEBPFMaps, under testing/synctest virtual time; and pkg/wifi - the real wifi.Manager (WiFi-gateway sessions by MAC and by address, renewal,
authentication, release, lease / grace-period cleanup, callbacks, statistics), contract specs/WalledGarden/WifiGateway.tla.

Flow (on top of the generic table flow of tablecheck.py):
  0. TLC model-checks the implementation-shaped design spec of the code AS FOUND (specs/WalledGarden/WalledGardenShape.tla, Fixed = FALSE:
     one operator per critical section / kernel-map call / checker pass of manager.go).  Each counterexample is a history in the harness'
     alphabet; the shortest per clause set is handed to the explorer (VERIF_EXTRA_CASES) and executed on the real manager as one more
     chain (shape#cex<i>), judged like everything else.  The counterexample with two calls at once is executed as a "race" step: rounds
     of two plain goroutines calling the manager, until manager and kernel map disagree or the rounds are used up.
  1. U1, concurrently: the contract is model-checked against the guarantees stated over absolute histories (WalledGardenDesign: the
     contract accepts a step iff it is legitimate, for documented and falsified observations); the repaired design (Fixed = TRUE) is clean.
  2. generic flow: table extraction until closed + seeded random chains + race chains on the real code, TLC monitor walk
     (WalledGardenImpl), replay of every witness on fresh objects, known findings, evidence.

Extra family: no MANIFEST entry."""
import json, os, shutil, sys, time
import vcheck
from vcheck import SPECS, WORK, Infra, log, run_tlc
from tablecheck import table_check

CLAUSES = ["LastSet", "Isolation", "RemovedAbsent", "NotFoundIgnored", "Mirror", "MirrorOnError", "MirrorConcurrent", "NetOrder", "NoEarlyExpiry", "FreshKept",
           "ExpiryOnlyGarden", "ExpiryDue", "ExpiryStamp", "AllowedExact", "KeyEncoding", "StatsTrue", "ListExact",
           # pkg/wifi gateway sessions (specs/WalledGarden/WifiGateway.tla)
           "SessionTable", "GwIsolation", "RenewSame", "CreateResult", "NotFoundError", "ReleaseIdempotent", "LeaseStamp", "IndexExact", "GwListExact",
           "GwNoEarlyExpiry", "ExpiredCleaned", "GraceFlag", "NeedsAuth", "CallbackOnce", "GwStatsTrue"]

# must describe the same configuration as Cfg in specs/WalledGarden/WalledGardenShape.tla
SHAPE_CFG = dict(kind="wg", impl="shape", nm=2, maps=True, T=1, cap=4, full=1, order=False, dns=[1], portal=[3, 8080], custom=[],
                 ops=["add", "rel", "blk", "rm", "set", "adv", "race", "trace"], vlans=[5], sets=[0], advs=[1], racen=50000, nsubs=0)

# must describe the same configuration as Cfg in specs/WalledGarden/WifiGatewayShape.tla
SHAPE_GW_CFG = dict(kind="gw", impl="shape-gw", nm=2, nip=1, L=2, GP=1, portal=True, reuse=True, cap=5, advs=[1], nsubs=0)

DESIGN = [("WalledGardenDesign", "MC_design.cfg", 4), ("WalledGardenShape", "MC_shape_fixed.cfg", 1), ("WifiGatewayDesign", "MC_gw_design.cfg", 2),
          ("WifiGatewayShape", "MC_gw_shape_fixed.cfg", 1)]
DESIGN_THOROUGH = [("WalledGardenDesign", "MC_design_full.cfg", 4), ("WalledGardenShape", "MC_shape_fixed.cfg", 1), ("WifiGatewayDesign", "MC_gw_design.cfg", 2),
                   ("WalledGardenDesign", "MC_design_deep.cfg", 4), ("WalledGardenShape", "MC_shape_fixed_deep.cfg", 2),
                   ("WifiGatewayDesign", "MC_gw_design_deep.cfg", 4), ("WifiGatewayShape", "MC_gw_shape_fixed.cfg", 1)]


def _design_counterexamples(work, module="WalledGardenShape", cfgfile="MC_shape_orig.cfg"):
    """TLC on the design as found; returns (tlc result, [(clauses, events)]) - the shortest history per clause set."""
    sd = os.path.join(SPECS, "WalledGarden")
    cfg = open(os.path.join(sd, cfgfile)).read()
    res = run_tlc(sd, module, cfg, work, workers=1, timeout=900, name=cfgfile[3:-4])
    if "Model checking completed" not in res["out"] or "Error:" in res["out"]:
        raise Infra("%s (design as found) did not run to completion:\n" % module + res["out"][-2000:])
    best = {}
    for line in res["out"].splitlines():
        line = line.strip()
        if not line.startswith('<<"DESIGN-CEX"'):
            continue
        raw = line[line.index(',') + 1:].strip()
        raw = raw[1:raw.rindex('"')].replace('\\"', '"').replace("\\\\", "\\")
        j = json.loads(raw)
        key = tuple(sorted(j["clauses"]))
        evs = j["events"]
        if key not in best or (len(evs), json.dumps(evs, sort_keys=True)) < (len(best[key]), json.dumps(best[key], sort_keys=True)):
            best[key] = evs
    return res, [(list(k), v) for k, v in sorted(best.items())]


def _design_must_pass(work, module, cfgfile, workers):
    sd = os.path.join(SPECS, "WalledGarden")
    res = run_tlc(sd, module, open(os.path.join(sd, cfgfile)).read(), work, workers=workers, timeout=2400, name=cfgfile[:-4])
    if "No error has been found" not in res["out"]:
        raise Infra("design spec %s/%s did not pass TLC (a specification problem, not a verdict):\n%s" % (module, cfgfile, res["out"][-3000:]))
    return dict(module=module, cfg=cfgfile, states=res["distinct"], transitions=res["generated"])


def runner(prop, fam, tier, seed, replay=None):
    t0 = time.time()
    pre = os.path.join(WORK, "%s-shape-%d" % (prop, os.getpid()))
    shutil.rmtree(pre, ignore_errors=True)
    os.makedirs(pre)
    try:
        fam2 = dict(fam)
        fam2.pop("runner", None)
        fam2["design"] = []   # run here, concurrently
        shape_info, design_stats, futures, pool = None, [], [], None
        if not replay:
            from concurrent.futures import ThreadPoolExecutor
            pool = ThreadPoolExecutor(max_workers=3 if tier == "thorough" else 4)
            try:
                f0 = pool.submit(_design_counterexamples, pre)
                f0g = pool.submit(_design_counterexamples, pre, "WifiGatewayShape", "MC_gw_shape_orig.cfg")
                # U1 and the repaired design run in the background while the real code is explored
                futures = [pool.submit(_design_must_pass, pre, m, c, w) for (m, c, w) in (DESIGN_THOROUGH if tier == "thorough" else DESIGN)]
                res, cex = f0.result()
                resg, cexg = f0g.result()
            except Infra as e:
                pool.shutdown(wait=True)
                print("INFRA-FAILURE property=%s %s" % (prop, str(e)[:3000]), flush=True)
                return 2
            cases = [dict(id="cex%d" % i, system="shape", events=evs, cfg=SHAPE_CFG, clauses=cl) for i, (cl, evs) in enumerate(cex)]
            cases += [dict(id="cex%d" % i, system="shape-gw", events=evs, cfg=SHAPE_GW_CFG, clauses=cl) for i, (cl, evs) in enumerate(cexg)]
            cf = os.path.join(pre, "extra_cases.json")
            json.dump(dict(property=prop, cases=cases), open(cf, "w"))
            env = dict(fam2.get("env", {}))
            env["VERIF_EXTRA_CASES"] = cf
            fam2["env"] = env
            shape_info = dict(module="WalledGardenShape", cfg="MC_shape_orig.cfg", states=res["distinct"], transitions=res["generated"],
                              counterexamples=[dict(clauses=cl, events=[{k: v for k, v in e.items() if v not in (0, "", False) or k == "op"} for e in evs]) for cl, evs in cex],
                              note="counterexamples of the design as found; each is executed on the real manager as chain shape#cex<i> "
                                   "(a history that violates on the real code is reported through the normal VIOLATION / KNOWN-FINDING path)")
            shape_info["gateway"] = dict(module="WifiGatewayShape", cfg="MC_gw_shape_orig.cfg", states=resg["distinct"], transitions=resg["generated"],
                                         counterexamples=[dict(clauses=cl, events=[{k: v for k, v in e.items() if v not in (0, "", False) or k == "op"} for e in evs]) for cl, evs in cexg])
            shape_info["states"] += resg["distinct"]
            shape_info["transitions"] += resg["generated"]
            cex = cex + cexg
            log("design as found: %d counterexample histories (%s)" % (len(cex), "; ".join(",".join(c) for c, _ in cex)))
        try:
            rc = table_check(prop, fam2, tier, seed, replay)
        except Exception:   # a crash of the driver is never a verdict
            import traceback
            print("INFRA-FAILURE property=%s driver exception: %s" % (prop, traceback.format_exc()[-2000:]), flush=True)
            rc = 2
        if pool is not None:
            try:
                design_stats = [f.result() for f in futures]
            except Infra as e:
                print("INFRA-FAILURE property=%s %s" % (prop, str(e)[:3000]), flush=True)
                rc = 2
            finally:
                pool.shutdown(wait=True)
            for d in design_stats:
                log("design %s/%s: %d distinct states" % (d["module"], d["cfg"], d["states"]))
        if rc == 2:
            return 2
        if shape_info is not None:
            p = vcheck.evidence_path(prop)
            try:
                ev = json.load(open(p))
                ev["coverage"]["original_design_model"] = shape_info
                ev["coverage"]["design_runs"] = design_stats
                ev["coverage"]["states"] += shape_info["states"] + sum(d["states"] for d in design_stats)
                ev["coverage"]["transitions"] += shape_info["transitions"] + sum(d["transitions"] for d in design_stats)
                ev["wall_s"] = round(time.time() - t0, 2)
                tmp = p + ".tmp%d" % os.getpid()
                json.dump(ev, open(tmp, "w"), indent=1, sort_keys=True)
                os.replace(tmp, p)
            except Exception:
                pass
        return rc
    finally:
        shutil.rmtree(pre, ignore_errors=True)


CHECKS = {
    "X09": dict(
        runner=runner,
        pkg="./walledgarden", test="TestExplore", spec_dir="WalledGarden", impl_module="WalledGardenImpl",
        design=DESIGN,
        watch=CLAUSES,
        impl_workers=4,
        assumptions=[
            "kernel maps: REAL eBPF maps created by the harness with cilium/ebpf (subscriber map: hash, 8-byte key, 20-byte value = the size cilium/ebpf marshals "
            "walledgarden.WalledGardenEntry to, fields packed; allowed destinations: hash, 8-byte key, 12-byte value; statistics: array) and handed to the manager with "
            "SetEBPFMaps before Start; they are read back raw with lookups / iteration. /repo/bpf has no walled-garden program, so no C source fixes the layout and nothing "
            "is executed natively; creating maps needs CAP_BPF (exit 2 otherwise)",
            "virtual time: every manager lives in its own testing/synctest bubble, bubbles strictly one after the other; the expiry checker's one-minute ticker runs on the "
            "bubble's clock; the harness makes its calls half a minute off the ticks and advances time by whole minutes only, so ExpiryTime never coincides with a tick; "
            "the contract leaves the instant age = DefaultTimeout open",
            "which MACs the manager tracks is read from its unexported table (cache) by reflection under its own read lock (no hook in /repo); everything else is the public "
            "API (GetSubscriberState, Stats, ListWalledGardenMACs, the errors returned) and the kernel maps",
            "the harness projects: MAC -> index (canonical key = the six bytes as one big-endian number, per `Key: MAC address (uint64)`; entries under any other key are "
            "counted as alien), addresses -> index into a table of five IPv4 addresses none of which reads the same backwards, with the byte order found in the map "
            "(net | rev | other), ExpiryTime -> whole minutes from now, allowed-destination key -> (address index, port, proto, padding) by the documented shifts",
            "the byte order of address fields (clause NetOrder) is judged in one system only (dests, cfg.order); a state violating only NetOrder does not end the monitor's walk",
            "a `race` step is rounds of two plain goroutines calling the manager for one MAC at the same time (no gate: the package has no hook and none was added), until "
            "manager and kernel map disagree or the rounds (50000) are used up; it appears in chains only (its outcome is the scheduler's); a `trace` step is rounds of AddToWalledGarden(m) followed, DefaultTimeout + 1/2 minute later, by a second "
            "AddToWalledGarden(m) from a goroutine woken at the very tick at which the checker finds the first entry expired (10000 rounds at most); it ends on that tick and is the "
            "last step of its chain",
            "MirrorOnError goes beyond what the package states in so many words (a call that failed has told its caller so); it is a separate clause",
            "pkg/wifi (systems gw-*, contract WifiGateway.tla): the real wifi.Manager under the same virtual-time discipline (cleanup ticker one minute, calls half a minute off the "
            "ticks, LeaseDuration and GracePeriod whole minutes); callbacks are recorded by MAC and the bubble is drained (synctest.Wait) after every call; the session handed out by "
            "GetSession is read while the manager is quiescent; an address is given to a second MAC while the first still has its session only in the gw-reuse systems",
            "not covered: OnRedirect, the statistics map, maps attached after entries exist, managers without maps never expiring anything (recorded, not judged), MACs that are "
            "not six bytes long (all map to key 0), IPv6 destinations (ipToUint32 gives 0: an entry for 0.0.0.0), pkg/wifi traffic counters",
        ],
        explanation="WalledGarden.tla (contract, 5 sentences / 17 clauses) is model-checked against the guarantees stated over absolute histories (WalledGardenDesign: the contract "
                    "accepts a step iff the direct statement does, over documented and one-component-falsified observations; ghost = history); WalledGardenShape models manager.go "
                    "section by section (as found: TLC finds RemoveMAC's error for an absent key, the table written before a refused kernel write, two calls at once leaving "
                    "table and map apart, a set call during the checker's pass losing its entry, and the checker expiring PROVISIONED / BLOCKED entries; with the proposed repairs: clean). WalledGardenImpl walks the transition tables "
                    "extracted from the real Manager with real kernel maps under virtual time (closed under the alphabet: unbounded-length verdict relative to alphabet and "
                    "fingerprint), seeded random chains on larger configurations, race chains, and the design counterexamples replayed on the real code. WifiGateway.tla (5 sentences / 15 clauses, U1: WifiGatewayDesign) is the contract of "
                    "pkg/wifi's session manager, walked over tables and chains extracted from the real wifi.Manager by the same monitor (systems with cfg.kind = gw); WifiGatewayShape models its two maps "
                    "(as found: TLC finds the index entry deleted by the previous holder of an address; with the proposed repair: clean).",
    ),
}
