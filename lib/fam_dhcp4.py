"""C02: DHCPv4 (specs/Dhcp4/Dhcp4Impl) and DHCPv6 (Dhcp6Impl) halves, one check running both."""
import time, os, json
import tablecheck, vcheck

COMMON_ASSUMPTIONS = [
    "servers are driven through their real packet/message handlers (verif hooks VerifHandle / VerifHandleMessage) with real wire-format messages; time is testing/synctest virtual time",
    "production configuration: DHCPv4 with a non-nil ebpf.Loader without loaded maps, no RADIUS/Nexus/peer-pool; DHCPv6 with the legacy address and prefix pools",
    "client identity = hardware address (v4 direct), option-82 circuit-id (v4 relayed), DUID (v6)",
    "an OFFER/Advertise is considered outstanding for one lease time; the availability (drain) probe exempts every value ever offered and not since bound/released and every address named in a DECLINE",
    "v6: address and prefix of one client share one lease record, so a Reply for one kind extends the other (modelled as REFRESH)",
]
WATCH = ["InPoolUsable", "NotOthers", "LeaseUnique", "RenewSame", "NotDeclined", "ReleasedAvailable", "ReplyKind"]
DHCP4 = dict(
    pkg="./dhcp4", test="TestExplore", spec_dir="Dhcp4", impl_module="Dhcp4Impl",
    design=[("Dhcp4Design", "MC_design_quick.cfg", 8, "quick"), ("Dhcp4Design", "MC_design.cfg", 16, "thorough")],
    watch=WATCH, assumptions=COMMON_ASSUMPTIONS,
    explanation="Dhcp4.tla contract model-checked (Dhcp4Design) to imply no-double-binding; Dhcp4Impl/Dhcp6Impl walk tables extracted breadth-first from the real dhcp.Server / dhcpv6.Server "
                "(messages x virtual-time advances x cleanup ticks) and long random traces, judging every reply and lease-table observation.",
)
DHCP6 = dict(DHCP4, pkg="./dhcp6", impl_module="Dhcp6Impl", design=[])


def runner(prop, fam, tier, seed, replay):
    """Runs the v4 half then the v6 half; evidence of both is merged."""
    t0 = time.time()
    evp = vcheck.evidence_path(prop)
    rcs, evs = [], []
    halves = [("v4", DHCP4), ("v6", DHCP6)]
    if replay:
        try:
            sysname = json.load(open(replay))["cases"][0]["system"]
        except Exception:
            sysname = ""
        halves = [h for h in halves if (h[0] == "v6") == sysname.startswith("dhcp6")]
    for name, f in halves:
        rc = tablecheck.table_check(prop, f, tier, seed, replay)
        rcs.append(rc)
        if os.path.exists(evp):
            evs.append((name, json.load(open(evp))))
    if len(evs) == 2:
        a, b = evs[0][1], evs[1][1]
        cov = dict(a["coverage"])
        for k in ("states", "transitions", "traces_validated_against_impl", "evaluations", "distinct_nontrivial", "impl_tables", "impl_table_nodes",
                  "impl_table_edges", "closed_tables", "impl_chains", "impl_chain_events", "tlc_impl_states", "tlc_impl_transitions", "violating_states",
                  "violation_groups", "new_violations"):
            cov[k] = a["coverage"].get(k, 0) + b["coverage"].get(k, 0)
        cov["samples"] = a["coverage"]["samples"][:2] + b["coverage"]["samples"][:2]
        cov["known_findings_hit"] = sorted(set(a["coverage"].get("known_findings_hit", [])) | set(b["coverage"].get("known_findings_hit", [])))
        cov["halves"] = {"v4": {k: a["coverage"].get(k) for k in ("tlc_impl_states", "impl_table_edges", "impl_chain_events")},
                         "v6": {k: b["coverage"].get(k) for k in ("tlc_impl_states", "impl_table_edges", "impl_chain_events")}}
        vcheck.write_evidence(prop, tier, seed, "model_checking", cov, COMMON_ASSUMPTIONS, time.time() - t0, a.get("violations", 0) + b.get("violations", 0))
    if 2 in rcs:
        return 2
    return 1 if 1 in rcs else 0


FASTPATH = dict(
    pkg="./dhcp4", test="TestExploreFP", spec_dir="Dhcp4", impl_module="Dhcp4FpImpl", design=[],
    watch=["FpWellFormed", "FpReplyType", "FpSameAsSlow", "PassUnmodified", "FpOnlyForBound"],
    assumptions=[
        "bpf/dhcp_fastpath.c is compiled as user-space C from /repo's current tree with shim helper headers (cshim/); kernel verifier, JIT and real XDP driver are not involved; bpf_xdp_adjust_tail is emulated with 1 KiB of tailroom",
        "the cache is real kernel eBPF maps (sizes from the C declarations) written by the real dhcp.Server/PoolManager through the real ebpf.Loader (maps injected by reflection; Loader.SetServerConfig called as Server.Start would); the harness mirrors raw map bytes into the native program",
        "well-formedness and field extraction of a transmitted frame (checksum, lengths, ports, xid, chaddr, options via the dhcpv4 library) is the trusted byte-level step; 'same as userspace' compares the option fields with those of the last ACK the real userspace server sent to that client and, for DISCOVER frames, also with those of the last OFFER the userspace server sent that client since that ACK (if it sent one)",
        "two pools behind the pool manager (pool 1 = the system's network, 1 h leases, two DNS servers; pool 2 = 172.16.8.0/28, its own gateway, one DNS server, 45 min leases: like pool 1's, a pool-2 lease is unexpired after one tick and expired after two); events SETDEF2/SETDEF1 are the operator making pool 2 / pool 1 the default pool (no-ops for the contract's ghost); clients that arrive while pool 2 is the default are bound in pool 2, whose addresses are projected to units 100.. (Dhcp4FpImpl does not evaluate InPoolUsable; only identity of units matters to it)",
        "frame battery: 13 frame classes per client (300-byte BOOTP, larger option areas, pad-before-53 layout, 802.1Q, QinQ, IHL 6, relayed with option 82, broadcast flag + ciaddr, short, RELEASE, INFORM, REQUEST for a foreign address) x 2 kernel-clock values, in every explored server state",
        "expiry is judged from the userspace cleanup tick (the kernel-side expiry comparison uses a different clock and is not relied upon)",
    ],
    explanation="The Dhcp4 contract's ghost (what userspace ACKed to whom) is advanced over the table of the real userspace server; at every node the natively compiled XDP program's answers "
                "to a frame battery on the mirrored kernel maps are judged by Dhcp4FpImpl.tla. Besides tables and random chains (both include default-pool changes) one directed history per variant "
                "switches the default pool back and forth while clients are bound in either pool.",
)
CHECKS = {"C02": dict(DHCP4, runner=runner), "C03": FASTPATH}
MANIFEST = {"C03": dict(
    engine="tlc-table", category="model_checking", design_ref="DESIGN.md section 7 C03",
    text="TLC walks the transition table of the real userspace DHCPv4 server (whose fast-path cache is real kernel maps written through the real loader) and judges, at every reachable state, "
         "the replies of the natively compiled bpf/dhcp_fastpath.c to a battery of request frames against the contract: transmitted replies well-formed and equal to what userspace ACKed, "
         "passed frames byte-identical, no answer for released/declined/expired/unknown clients.",
    technique="TLA+ DHCP contract ghost + TLC over the userspace server's table with native-C fast-path answers at every state (differential against the slow path's own ACK)",
    note="trusted: cshim map runtime and xdp context emulation, frame builder/decoder, clang; needs CAP_BPF for kernel maps (exit 2 otherwise); bounded frame battery, not all frames"),
    "C02": dict(
    engine="tlc-table", category="model_checking", design_ref="DESIGN.md section 7 C02",
    text="TLC model-checks the DHCP contract (Dhcp4Design) and then walks transition tables and random traces extracted from the real DHCPv4 and DHCPv6 servers "
         "(all message sequences of 2-3 clients to a depth/node bound, incl. INIT-REBOOT requests for gateway/foreign/free addresses, DECLINE, RELEASE, relayed with option 82, "
         "rapid commit, wrong server-id, virtual-time advances across lease expiry and cleanup ticks), judging every reply and lease-table observation; a drain probe at every state checks availability.",
    technique="TLA+ protocol contract + TLC over tables/traces extracted from the real packet handlers under virtual time",
    note="trusted: packet construction/decoding by the same libraries the servers use, harness unit projection, TLC; bounded by alphabet, depth and node caps (closed_tables in the evidence says when a fixed point was reached)")}
