"""C02 (DHCPv4 half; the DHCPv6 half is lib/fam_dhcp6.py, both run by the C02 check)."""
DHCP4 = dict(
    pkg="./dhcp4", test="TestExplore", spec_dir="Dhcp4", impl_module="Dhcp4Impl",
    design=[("Dhcp4Design", "MC_design_quick.cfg", 8, "quick"), ("Dhcp4Design", "MC_design.cfg", 16, "thorough")],
    watch=["InPoolUsable", "NotOthers", "LeaseUnique", "RenewSame", "NotDeclined", "ReleasedAvailable", "ReplyKind"],
    assumptions=[
        "the server is driven through its real packet handler (verif hook VerifHandle) with real dhcpv4 packets and a capturing PacketConn; time is testing/synctest virtual time",
        "production configuration: non-nil ebpf.Loader without loaded maps; no RADIUS/Nexus/peer-pool integration",
        "client identity = hardware address (direct) or option-82 circuit-id (relayed)",
        "an OFFER is considered outstanding for one lease time; availability (drain probe) exempts every address ever offered and not since bound/released, and every address named in a DECLINE",
    ],
    explanation="Dhcp4.tla contract model-checked (Dhcp4Design) to imply no-double-binding; Dhcp4Impl.tla walks tables extracted breadth-first from the real dhcp.Server "
                "(messages x virtual-time advances x cleanup ticks) and long random traces, judging every reply and lease-table observation.",
)
CHECKS = {"C02": DHCP4}
MANIFEST = {}
