#!/bin/bash
# ev4.sh <round> <prop> <n> <demo_dst> <demo_run> <pkgs...> : compact result
R=$1; P=$2; N=$3; DST=$4; RUN=$5; shift 5
out=$(cd /verif && DEMO_DST=$DST DEMO_RUN="$RUN" lib/seed_eval.sh $P /tmp/seed${R}_$P $N "$@" 2>&1)
base=$(echo "$out" | sed -n '/baseline/,/apply change/p' | grep -c "^ok\|PASS")
demo=$(echo "$out" | sed -n '/demo with change/,/check against/p' | grep -c "^FAIL\|--- FAIL")
echo "$P-r$R-$N cleanOK=$base demoFAIL=$demo $(echo "$out" | grep -E 'done rc|INFRA|DOES NOT' | tr '\n' ' ' | cut -c1-200) $(echo "$out" | grep VIOLATION | sed -n 's/.*clauses=\([^ ]*\).*/\1/p' | sort -u | tr '\n' ' ')"
