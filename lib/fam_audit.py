"""Family "audit" (extra family X10, not one of the 20 listed properties): pkg/audit - the real audit.MemoryStorage
(Store / StoreBatch / Query / Delete / DeleteExpired, secondary indexes, statistics), audit.RetentionManager (retention
per event type / category / default, legal holds) and audit.Logger (ids, retention stamping, synchronous and buffered
writes, exporters, daily clean-up) under testing/synctest virtual time (one unit = one day).

Flow (on top of the generic table flow of tablecheck.py):
  0. TLC model-checks the implementation-shaped design spec of the code AS FOUND (specs/Audit/AuditShape.tla,
     Fixed = FALSE, buffered and SyncWrites: one operator per function / goroutine step of logger.go, storage.go,
     retention.go).  Each counterexample is a history in the harness' alphabet; the shortest per clause set is handed to
     the explorer (VERIF_EXTRA_CASES) and executed on the real logger as one more chain (shape#cex<i>, shape-sync#cex<i>),
     judged like everything else.
  1. U1, concurrently: the contract is model-checked against the guarantees stated over absolute histories
     (AuditDesign, modes store / hold / logsync / logasync: verdicts coincide step by step, ghost = history); the
     repaired design (Fixed = TRUE) is clean.
  2. generic flow: table extraction until closed + seeded random chains on the real code, TLC monitor walk (AuditImpl),
     replay of every witness on fresh objects, known findings, evidence.

Extra family: no MANIFEST entry."""
import json, os, shutil, sys, time
import vcheck
from vcheck import SPECS, WORK, Infra, log, run_tlc
from tablecheck import table_check

CLAUSES = ["UniqueId", "StoredOnce", "ExportedOnceInOrder", "Filtered", "DropCounted", "ClosedOnStop", "MostSpecific", "RetentionStamped",
           "TypeRetentionApplied", "OnlyExpired", "ExpiredRemoved", "ExpiredCount", "HoldMatch", "HoldExact", "HoldsListed", "HoldRemove",
           "HoldCleanup", "HoldProtects", "QuerySound", "QueryPage", "QueryOrder", "IndexAgree", "DeleteEffective", "Retained", "CountTrue",
           "LoggerStatsTrue", "ExportedCounted"]

# must describe the same configurations as Cfg in specs/Audit/AuditShape.tla (the harness derives category / severity of the event
# types, the type -> category table and the SYSTEM_START / SYSTEM_STOP templates from the package itself)
_HOLD = dict(subs=[1], sess=[], types=[], ips=[], macs=[], has0=False, t0=0, has1=False, t1=0, life=3)
_TMPL = [dict(ty=1, sub=1, sess=1), dict(ty=6, sub=0, sess=0), dict(ty=7, sub=0, sess=0)]
SHAPE_CFG = dict(impl="shape", kind="log", sync=False, buf=2, minsev=0, enabled=[], defret=1, catret=[-1] * 7, tmpl=_TMPL, nx=1, maxlog=2, maxday=4,
                 holds=[_HOLD], setdays=[2], settys=[1], holdops=True, typeops=True, stopop=True, prestart=False, xfail=False, nsubs=0)
SHAPE_SYNC_CFG = dict(SHAPE_CFG, impl="shape-sync", sync=True, holdops=False, typeops=False)
SHAPES = {"shape": SHAPE_CFG, "shape-sync": SHAPE_SYNC_CFG}

DESIGN = [("AuditDesign", "MC_design.cfg", 2), ("AuditShape", "MC_shape_fixed.cfg", 1)]
DESIGN_THOROUGH = DESIGN + [("AuditDesign", "MC_design_deep_a.cfg", 3), ("AuditDesign", "MC_design_deep_b.cfg", 4), ("AuditShape", "MC_shape_fixed_deep.cfg", 2)]


def _design_counterexamples(work, cfgfile="MC_shape_orig.cfg"):
    """TLC on the design as found (buffered and SyncWrites in one run); returns (tlc result, [(system, clauses, events)]) - the
    shortest history per system and clause set."""
    sd = os.path.join(SPECS, "Audit")
    cfg = open(os.path.join(sd, cfgfile)).read()
    res = run_tlc(sd, "AuditShape", cfg, work, workers=1, timeout=900, name=cfgfile[3:-4])
    if "Model checking completed" not in res["out"] or "Error:" in res["out"]:
        raise Infra("AuditShape (design as found, %s) did not run to completion:\n%s" % (cfgfile, res["out"][-2000:]))
    best = {}
    for line in res["out"].splitlines():
        line = line.strip()
        if not line.startswith('<<"DESIGN-CEX"'):
            continue
        raw = line[line.index(',') + 1:].strip()
        raw = raw[1:raw.rindex('"')].replace('\\"', '"').replace("\\\\", "\\")
        j = json.loads(raw)
        key = (j["system"], tuple(sorted(j["clauses"])))
        evs = j["events"]
        if key not in best or (len(evs), json.dumps(evs, sort_keys=True)) < (len(best[key]), json.dumps(best[key], sort_keys=True)):
            best[key] = evs
    return res, [(k[0], list(k[1]), v) for k, v in sorted(best.items())]


def _design_must_pass(work, module, cfgfile, workers):
    sd = os.path.join(SPECS, "Audit")
    res = run_tlc(sd, module, open(os.path.join(sd, cfgfile)).read(), work, workers=workers, timeout=2400, name=cfgfile[3:-4])
    if "No error has been found" not in res["out"]:
        raise Infra("design spec %s/%s did not pass TLC (a specification problem, not a verdict):\n%s" % (module, cfgfile, res["out"][-3000:]))
    return dict(module=module, cfg=cfgfile, states=res["distinct"], transitions=res["generated"])


def runner(prop, fam, tier, seed, replay=None):
    t0 = time.time()
    pre = os.path.join(WORK, "%s-shape-%d" % (prop, os.getpid()))
    shutil.rmtree(pre, ignore_errors=True)
    os.makedirs(pre)
    try:
        fam2 = dict(fam)
        fam2.pop("runner", None)
        fam2["design"] = []   # run here, concurrently
        shape_info, design_stats, futures, pool = None, [], [], None
        if not replay:
            from concurrent.futures import ThreadPoolExecutor
            pool = ThreadPoolExecutor(max_workers=4)
            try:
                f0 = pool.submit(_design_counterexamples, pre)
                # U1 and the repaired design run in the background while the real code is explored
                futures = [pool.submit(_design_must_pass, pre, m, c, w) for (m, c, w) in (DESIGN_THOROUGH if tier == "thorough" else DESIGN)]
                res, cex = f0.result()
            except Infra as e:
                pool.shutdown(wait=True)
                print("INFRA-FAILURE property=%s %s" % (prop, str(e)[:3000]), flush=True)
                return 2
            cases = [dict(id="cex%d" % i, system=system, events=evs, cfg=SHAPES[system], clauses=cl) for i, (system, cl, evs) in enumerate(cex)]
            shape_info = [dict(module="AuditShape", cfg="MC_shape_orig.cfg", states=res["distinct"], transitions=res["generated"],
                               counterexamples=[dict(system=system, clauses=cl, events=[{k: v for k, v in e.items() if v not in (0, "", False) or k == "op"} for e in evs])
                                                for system, cl, evs in cex],
                               note="counterexamples of the design as found; each is executed on the real logger as chain <system>#cex<i> (a history that "
                                    "violates on the real code is reported through the normal VIOLATION / KNOWN-FINDING path)")]
            log("design as found: %d counterexample histories (%s)" % (len(cex), "; ".join("%s: %s" % (sy, ",".join(c)) for sy, c, _ in cex)))
            cf = os.path.join(pre, "extra_cases.json")
            json.dump(dict(property=prop, cases=cases), open(cf, "w"))
            env = dict(fam2.get("env", {}))
            env["VERIF_EXTRA_CASES"] = cf
            fam2["env"] = env
        try:
            rc = table_check(prop, fam2, tier, seed, replay)
        except Exception:   # a crash of the driver is never a verdict
            import traceback
            print("INFRA-FAILURE property=%s driver exception: %s" % (prop, traceback.format_exc()[-2000:]), flush=True)
            rc = 2
        if pool is not None:
            try:
                design_stats = [f.result() for f in futures]
            except Infra as e:
                print("INFRA-FAILURE property=%s %s" % (prop, str(e)[:3000]), flush=True)
                rc = 2
            finally:
                pool.shutdown(wait=True)
            for d in design_stats:
                log("design %s/%s: %d distinct states" % (d["module"], d["cfg"], d["states"]))
        if rc == 2:
            return 2
        if shape_info is not None:
            p = vcheck.evidence_path(prop)
            try:
                ev = json.load(open(p))
                ev["coverage"]["original_design_model"] = shape_info
                ev["coverage"]["design_runs"] = design_stats
                ev["coverage"]["states"] += sum(s["states"] for s in shape_info) + sum(d["states"] for d in design_stats)
                ev["coverage"]["transitions"] += sum(s["transitions"] for s in shape_info) + sum(d["transitions"] for d in design_stats)
                ev["wall_s"] = round(time.time() - t0, 2)
                tmp = p + ".tmp%d" % os.getpid()
                json.dump(ev, open(tmp, "w"), indent=1, sort_keys=True)
                os.replace(tmp, p)
            except Exception:
                pass
        return rc
    finally:
        shutil.rmtree(pre, ignore_errors=True)


CHECKS = {
    "X10": dict(
        runner=runner,
        pkg="./audit", test="TestExplore", spec_dir="Audit", impl_module="AuditImpl",
        design=DESIGN,
        watch=CLAUSES,
        impl_workers=4,
        assumptions=[
            "virtual time: every storage / retention manager / logger lives in its own testing/synctest bubble, bubbles strictly one after the other; one unit of the "
            "specification's time = one day. Storage and retention systems: timestamps and ExpiresAt are at midnight, query and hold time bounds at noon +- whole "
            "days (half days, odd), the harness acts at noon, a hold expires six hours before the harness' slot of its last day: no comparison of the code ever sees "
            "two equal instants (the instant ExpiresAt = now is open in the contract)",
            "logger systems: the harness acts at 1:00 before Start and at 1:40 afterwards; Start is called at 1:20, so the daily retention ticker (and its first run one "
            "minute after Start) fires between two harness slots; FlushInterval = 601 minutes (two or three flush ticks per day, never at the instant of the retention "
            "ticker or of a harness slot within 400 days); after every call the harness waits until every goroutine of the bubble is blocked (synctest.Wait), so "
            "the logger's processEvents goroutine has emptied eventChan into the buffer. The only comparison of equal instants is the logger's own SYSTEM_START event "
            "(stamped at the instant the tickers are anchored at): the contract accepts either outcome for it",
            "with buffered writes no day passes before Start (adv is a no-op there) and configurations that log before Start have retentions of at least two days: an "
            "event is never past its expiry while it still waits in the buffer (it would enter and leave the storage between two observations); retention is at least "
            "one day everywhere (retention 0 = expired at once is not explored)",
            "event ids are projected to the number of the LogEvent call that produced them (the logger's own SYSTEM_START / SYSTEM_STOP events get the number of the "
            "Start / Stop call); an id the harness never saw is number 0. Slots of the storage systems carry the id ev-<slot>; an id is stored only while it is not "
            "stored, except by the step `restore` of the system store-dup (depth-bounded table: every restore grows the raw indexes)",
            "exporters are recording stubs (audit.Exporter) inside the bubble; exporter 1 can be switched to failing (it still records what it was handed); exporters "
            "never block; LogEvent after Stop and Stop without Start are not in the alphabet (the first panics on the closed channel, the second loses what waits "
            "in eventChan - neither is documented either way)",
            "legal holds and per-event-type retention are put on the logger's own RetentionManager by reflection (unexported field `retention`; Logger has no accessor) "
            "in the systems log-hold, log-tret and shape only; everywhere else only the public API is used",
            "transition tables use slots with pairwise distinct timestamps: with equal timestamps the page a query returns depends on Go's map iteration order "
            "(sort.Slice is not stable) - which of the tied events is returned is open in the contract, but a table needs a deterministic answer; ties are "
            "covered by the random chains (rnd-store) and by U1 (two slots share a timestamp)",
            "fingerprints: storage = everything a full scan, a time-range scan, the three indexes, Count and Stats show + the raw index maps (which keys exist, how many "
            "ids each carries, length of the time index) by reflection + the day (capped after the last expiry); retention manager = active holds, policy summary, the "
            "registered holds with the days they have left; logger = per number template / day / stored, the buffer and eventChan length by reflection, exporter modes, "
            "holds, type overrides, started / stopped, day; adequacy re-checked on 20 re-reached nodes per system",
            "ExportedCounted is a soft clause: a state that violates only it does not end the monitor's walk (SyncWrites systems violate it at every export, see "
            "proposals/audit.json)",
            "not covered: rotation.go, export.go (syslog / IPFIX / JSON / Kafka exporters), security.go, the 80 %-of-capacity early flush (800 buffered events), "
            "concurrent callers of LogEvent / Store, OrderBy (ignored by the code), Logger.Query (a pass-through)",
        ],
        explanation="Audit.tla (contract, 7 sentences / 27 clauses) is model-checked against the guarantees stated over absolute histories (AuditDesign: verdicts coincide "
                    "step by step for the store, the legal holds and the logger in both write modes; ghost = history); AuditShape models logger.go / storage.go / "
                    "retention.go function by function (as found: TLC finds the legal hold nobody consults, the event-type retention nobody applies and the "
                    "EventsExported counter that SyncWrites never moves; with the proposed repairs: clean). AuditImpl walks the transition tables extracted from the real "
                    "MemoryStorage / RetentionManager / Logger under virtual time (closed under the alphabet: unbounded-length verdict relative to alphabet and "
                    "fingerprint), seeded random chains on larger configurations, and the design counterexamples replayed on the real code.",
    ),
}
