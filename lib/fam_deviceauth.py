"""Family "deviceauth" (extra family X14, not one of the 20 listed properties): pkg/deviceauth - the real PSKAuthenticator (VerifySignature,
RotatePSK, Authenticate, GetHTTPHeaders, Close), the real MTLSAuthenticator (Authenticate, ReloadCertificates, Identity, GetTLSConfig; certificate
files written by the harness, testing/synctest virtual time) - and pkg/direct/authenticator.go - the real direct.Authenticator with a BSS client
that is a table owned by the harness (Authenticate, InvalidateCache, SyncFromBSS, Stats).  Contract specs/DeviceAuth/DeviceAuth.tla.

Flow (on top of the generic table flow of tablecheck.py, as lib/fam_walledgarden.py):
  0. TLC model-checks the implementation-shaped design spec of psk.go AS FOUND (specs/DeviceAuth/DeviceAuthShape.tla, Fixed = FALSE: one action
     per critical section of RotatePSK / Close / VerifySignature).  Each counterexample is a history in the harness' alphabet; the shortest per
     clause set is handed to the explorer (VERIF_EXTRA_CASES) and executed on the real authenticator as one more chain (shape#cex<i>), judged
     like everything else.  A `race` step is executed as rounds of two plain goroutines (rotation || verification of a zero-key signature).
  1. U1, concurrently: DeviceAuthDesign (the contract accepts only answers that keep the guarantees stated over absolute histories); the
     repaired design (Fixed = TRUE) is clean.
  2. generic flow: table extraction until closed + seeded random chains + race chains on the real code, TLC monitor walk (DeviceAuthImpl),
     replay of every witness on fresh objects, known findings (proposals/deviceauth.json), evidence (evidence-extra/X14.json).

Extra family: no MANIFEST entry."""
import json, os, shutil, time
import vcheck
from vcheck import SPECS, WORK, Infra, log, run_tlc
from tablecheck import table_check

CLAUSES = ["OnlyCurrentKey", "CurrentAccepted", "FreshOnly", "RotateMinLen", "RotateAtomic", "AuthNeedsKey", "ResultConsistent", "AuthIdentity",
           "HeadersSigned", "NoRawKey",
           "CertValidity", "ValidCertAccepted", "ReloadTakesEffect", "IdentityOfLoaded", "TlsOfLoaded",
           "UnknownRejected", "InactiveRejected", "KnownAccepted", "SubscriberOfMapping", "WalledOnlySuspended", "SyncExact"]

# must describe the same configuration as Cfg in specs/DeviceAuth/DeviceAuthShape.tla
SHAPE_CFG = dict(kind="psk", impl="shape", nk=2, k0=1, skew=300, dts=[0], ops=["rot", "ver", "auth", "close", "race"], racen=400000, nsubs=0)

DESIGN = [("DeviceAuthDesign", "MC_design.cfg", 2), ("DeviceAuthDesign", "MC_design_direct.cfg", 2), ("DeviceAuthShape", "MC_shape_fixed.cfg", 1)]
DESIGN_THOROUGH = [("DeviceAuthDesign", "MC_design_deep.cfg", 4), ("DeviceAuthDesign", "MC_design_direct_deep.cfg", 4), ("DeviceAuthShape", "MC_shape_fixed_deep.cfg", 1)]


def _design_counterexamples(work, module="DeviceAuthShape", cfgfile="MC_shape_orig.cfg"):
    """TLC on the design as found; returns (tlc result, [(clauses, events)]) - the shortest history per clause set."""
    sd = os.path.join(SPECS, "DeviceAuth")
    cfg = open(os.path.join(sd, cfgfile)).read()
    res = run_tlc(sd, module, cfg, work, workers=1, timeout=900, name=cfgfile[3:-4])
    if "Model checking completed" not in res["out"] or "Error:" in res["out"]:
        raise Infra("%s (design as found) did not run to completion:\n" % module + res["out"][-2000:])
    best = {}
    for line in res["out"].splitlines():
        line = line.strip()
        if not line.startswith('<<"DESIGN-CEX"'):
            continue
        raw = line[line.index(',') + 1:].strip()
        raw = raw[1:raw.rindex('"')].replace('\\"', '"').replace("\\\\", "\\")
        j = json.loads(raw)
        key = tuple(sorted(j["clauses"]))
        evs = j["events"]
        if key not in best or (len(evs), json.dumps(evs, sort_keys=True)) < (len(best[key]), json.dumps(best[key], sort_keys=True)):
            best[key] = evs
    return res, [(list(k), v) for k, v in sorted(best.items())]


def _design_must_pass(work, module, cfgfile, workers):
    sd = os.path.join(SPECS, "DeviceAuth")
    res = run_tlc(sd, module, open(os.path.join(sd, cfgfile)).read(), work, workers=workers, timeout=2400, name=cfgfile[:-4])
    if "No error has been found" not in res["out"]:
        raise Infra("design spec %s/%s did not pass TLC (a specification problem, not a verdict):\n%s" % (module, cfgfile, res["out"][-3000:]))
    return dict(module=module, cfg=cfgfile, states=res["distinct"], transitions=res["generated"])


def runner(prop, fam, tier, seed, replay=None):
    t0 = time.time()
    pre = os.path.join(WORK, "%s-shape-%d" % (prop, os.getpid()))
    shutil.rmtree(pre, ignore_errors=True)
    os.makedirs(pre)
    try:
        fam2 = dict(fam)
        fam2.pop("runner", None)
        fam2["design"] = []   # run here, concurrently
        shape_info, design_stats, futures, pool = None, [], [], None
        if not replay:
            from concurrent.futures import ThreadPoolExecutor
            pool = ThreadPoolExecutor(max_workers=1 if tier == "thorough" else 2)
            try:
                f0 = pool.submit(_design_counterexamples, pre)
                futures = [pool.submit(_design_must_pass, pre, m, c, w) for (m, c, w) in (DESIGN_THOROUGH if tier == "thorough" else DESIGN)]
                res, cex = f0.result()
            except Infra as e:
                pool.shutdown(wait=True)
                print("INFRA-FAILURE property=%s %s" % (prop, str(e)[:3000]), flush=True)
                return 2
            cases = [dict(id="cex%d" % i, system="shape", events=evs, cfg=SHAPE_CFG, clauses=cl) for i, (cl, evs) in enumerate(cex)]
            cf = os.path.join(pre, "extra_cases.json")
            json.dump(dict(property=prop, cases=cases), open(cf, "w"))
            env = dict(fam2.get("env", {}))
            env["VERIF_EXTRA_CASES"] = cf
            fam2["env"] = env
            shape_info = dict(module="DeviceAuthShape", cfg="MC_shape_orig.cfg", states=res["distinct"], transitions=res["generated"],
                              counterexamples=[dict(clauses=cl, events=[{k: v for k, v in e.items() if v not in (0, "", False) or k == "op"} for e in evs]) for cl, evs in cex],
                              note="counterexamples of the design as found; each is executed on the real authenticator as chain shape#cex<i> "
                                   "(a history that violates on the real code is reported through the normal VIOLATION / KNOWN-FINDING path)")
            log("design as found: %d counterexample histories (%s)" % (len(cex), "; ".join(",".join(c) for c, _ in cex)))
        try:
            rc = table_check(prop, fam2, tier, seed, replay)
        except Exception:   # a crash of the driver is never a verdict
            import traceback
            print("INFRA-FAILURE property=%s driver exception: %s" % (prop, traceback.format_exc()[-2000:]), flush=True)
            rc = 2
        if pool is not None:
            try:
                design_stats = [f.result() for f in futures]
            except Infra as e:
                print("INFRA-FAILURE property=%s %s" % (prop, str(e)[:3000]), flush=True)
                rc = 2
            finally:
                pool.shutdown(wait=True)
            for d in design_stats:
                log("design %s/%s: %d distinct states" % (d["module"], d["cfg"], d["states"]))
        if rc == 2:
            return 2
        if shape_info is not None:
            p = vcheck.evidence_path(prop)
            try:
                ev = json.load(open(p))
                ev["coverage"]["original_design_model"] = shape_info
                ev["coverage"]["design_runs"] = design_stats
                ev["coverage"]["states"] += shape_info["states"] + sum(d["states"] for d in design_stats)
                ev["coverage"]["transitions"] += shape_info["transitions"] + sum(d["transitions"] for d in design_stats)
                ev["wall_s"] = round(time.time() - t0, 2)
                tmp = p + ".tmp%d" % os.getpid()
                json.dump(ev, open(tmp, "w"), indent=1, sort_keys=True)
                os.replace(tmp, p)
            except Exception:
                pass
        return rc
    finally:
        shutil.rmtree(pre, ignore_errors=True)


CHECKS = {
    "X14": dict(
        runner=runner,
        pkg="./deviceauth", test="TestExplore", spec_dir="DeviceAuth", impl_module="DeviceAuthImpl",
        design=DESIGN,
        watch=CLAUSES,
        impl_workers=2,
        assumptions=[
            "what the task statement expected but the packages do not contain (so nothing is judged about it): a grace / overlap window after RotatePSK (the old key is "
            "zeroed and replaced at once: the contract says `never after rotation`), failed-attempt / lockout counters, a composite authenticator with mTLS -> PSK "
            "fall-through (NewAuthenticator selects exactly one mode; direct.Config.Mode is not read by Authenticate), revocation lists",
            "psk: signatures presented to VerifySignature are made by the harness exactly as the package documents them (HMAC-SHA256 over `deviceID:timestamp`, hex) with a key "
            "named by index (0 empty, 1..nk sixteen characters, nk+1 nine characters, nk+2 sixteen zero bytes); which key signs the headers of GetHTTPHeaders is found by "
            "trying the same keys (a projection, not a verdict); timestamps are offsets of 0 / 240 / 360 s (thorough: 299 / 301 s) from the wall clock, the exact "
            "boundary 300 s is left open by the contract",
            "psk `race` step: rounds (400000 at most) of one goroutine rotating between two keys while another presents a signature made with 16 zero bytes, until it is "
            "accepted or the rounds are used up; no gate (the package has no hook and none was added); chains only (its outcome is the scheduler's); a run in which the "
            "scheduler never produces the interleaving reports nothing for RotateAtomic",
            "mtls: every authenticator lives in its own testing/synctest bubble (clock starts 2000-01-01T00:00:00Z); certificates are self-signed ECDSA P-256, made once, "
            "validity bounds at whole minutes from that instant, calls half a minute off, so no call coincides with a bound; InsecureSkipVerify (no CA file), "
            "CertificateRotation off (the watcher only logs); a reload with an unreadable certificate file must fail and change nothing visible; time saturates at cfg.maxnow",
            "direct: the BSS client is a table owned by the harness returning a fresh copy per call; no Nexus client; InvalidateCache is always called with both keys of the ONT; "
            "requests name one ONT only (never the circuit id of one and the serial of another); serving a cached mapping while the BSS has changed is allowed by the contract "
            "(`Try local cache first`) until InvalidateCache / SyncFromBSS",
            "state for fingerprints is read by reflection under the object's own read lock (psk bytes; the two cache maps); no hook in /repo",
            "not covered: transport.go beyond GetHTTPHeaders (RoundTrip only copies those headers), NoneAuthenticator, ReadDeviceIdentity, GenerateCSR, the rotation "
            "watcher, KeyFile loading, ReportBindingEvent, the Nexus lookup path, context cancellation",
        ],
        explanation="DeviceAuth.tla (contract, 21 clauses over three kinds of system) is model-checked against guarantees stated over absolute histories (DeviceAuthDesign: "
                    "whatever the contract accepts never accepts a rotated-out / cleared / unknown / inactive credential); DeviceAuthShape models psk.go section by section "
                    "(as found: TLC finds VerifySignature reading psk without the lock while RotatePSK has zeroed it, and VerifySignature accepting an empty-key signature "
                    "after Close; with the proposed repairs: clean). DeviceAuthImpl walks the transition tables extracted from the real authenticators (closed under the "
                    "alphabet: unbounded-length verdict relative to alphabet and fingerprint), seeded random chains on larger configurations, race chains, and the design "
                    "counterexamples replayed on the real code.",
    ),
}
