"""C16: ending a session by any path releases everything it held (specs/SessionLifecycle, harness/lifecycle)."""
import json, os, re, shutil, time, collections
import tablecheck, vcheck

WATCH = ["AfterEndClean", "OneStop", "EndIdempotent", "OthersUntouched"]

# every end path of the property statement must have been exercised on a live session (L), on an
# already ended session (E) and - where the system can end one session at a time - with another
# live session present (O); accounting (S), an address with NAT/QoS (A) and two paths at once (P)
# must have been exercised somewhere. Otherwise the run is vacuous: exit 2, not a verdict.
REQUIRED = {
    "dhcp.Server": ["L:release", "L:decline", "L:expiry", "E:release", "E:decline", "E:expiry", "O:release", "O:decline", "O:expiry",
                    "S:release", "S:decline", "S:expiry", "A:release", "A:decline", "A:expiry"],
    "dhcp.Server+nexus": ["L:release", "L:decline", "L:expiry", "E:release", "E:decline", "E:expiry", "O:release", "O:decline", "O:expiry",
                                  "S:release", "S:decline", "S:expiry", "A:release", "A:decline", "A:expiry"],
    "pppoe.Server": ["L:padt", "L:lcpterm", "L:authfail", "L:idle", "E:padt", "E:lcpterm", "E:authfail", "E:idle", "O:padt", "O:lcpterm", "O:authfail", "O:idle",
                     "A:padt", "A:lcpterm", "A:authfail", "A:idle"],
    "pppoe.SessionTeardown": ["L:padt", "L:admin", "L:idle", "L:radiusdisc", "L:shutdown", "E:padt", "E:admin", "E:idle", "E:radiusdisc", "E:shutdown",
                              "O:padt", "O:admin", "O:idle", "O:radiusdisc", "S:padt", "S:admin", "S:idle", "S:radiusdisc", "S:shutdown", "P:admin", "P:idle"],
    "subscriber.Manager": ["L:admin", "L:release", "L:idle", "L:expiry", "E:admin", "E:release", "E:idle", "E:expiry", "O:admin", "O:release", "O:idle",
                           "A:admin", "A:idle", "A:expiry", "P:admin"],
}

ASSUMPTIONS = [
    "all four systems run inside testing/synctest bubbles (virtual time: DHCP lease 1 h, PPPoE / subscriber idle timeout 10 min, session timeout 1 h); the RADIUS peer (layeh PacketServer pair on loopback, "
    "accounting on port+1) runs outside the bubbles on real UDP; synctest.Wait() returns only when every goroutine spawned by the gateway code has finished its exchange with the peer, so the per-event "
    "Start/Stop deltas are exact - no polling, no timing heuristic; the peer records a request before answering it and drops retransmissions (same source, identifier, authenticator)",
    "dhcp: dhcp.Server wired as cmd/bng does (nat.Manager and qos.Manager without loaded eBPF programs - their bookkeeping is the observation; radius.PolicyManager WITH the default policies loaded: cmd/bng never "
    "loads them, so in production no QoS policy is ever applied and the QoS part would be vacuous); ebpf.Loader with four real kernel hash maps (subscriber_pools, vlan_subscriber_pools, circuit_id_map, "
    "circuit_id_subscribers; key/value sizes of the Go types the loader marshals) injected by reflection; needs CAP_BPF, exit 2 otherwise. The DHCP server never sets a lease's S/C tags, so VLAN-pair cache entries never exist (observed, always empty)",
    "dhcp renewals: a client renews (REQUEST with ciaddr) only while it believes it is bound (ACKed, and since then it neither released / declined nor let its lease run out unrenewed); a relayed client's "
    "renewal passes a relay agent that inserts an option 82 with only a remote-id (no circuit-id sub-option), a direct client's renewal carries no option 82; the renewals inside an expiry event carry the full option 82",
    "dhcp.Server+nexus (systems dhcp-nexus/...): the same wiring plus SetHTTPAllocator (walled-garden / Nexus mode, as cmd/bng with --nexus-url: HealthCheck, GetPoolInfo, SetHTTPAllocator) with the real "
    "nexus.HTTPAllocator over real TCP against a process-wide httptest fake Nexus outside the bubbles that knows the pool and answers 404 to every allocation lookup (nobody is activated), so every subscriber is served "
    "from the local pool; every response closes its connection (an idle kept-alive connection's read loop is not durably blocked and would stall synctest.Wait); activated subscribers (address from Nexus) are not modelled. "
    "In this mode the clients follow the RFC 2131 state machine: a client that released / declined / let its lease run out forgets its selected offer (the mode acknowledges ANY address a lease-less client REQUESTs, "
    "see the finding recorded in the family report; without the allocator the stale offer stays in the alphabet and is refused by requestedIPBelongsToClient)",
    "a session is 'live' from the first acknowledged establishment step (DHCPACK, PADS, PAP-Ack, CreateSession returning nil) - a DHCP client that only has an OFFER is not a session (end events are still applied to it and must not disturb others)",
    "NAT block and QoS policy are attributed to a session through the address the pool / table showed for it while it was live",
    "'its address is back in the pool' = neither the pool/allocator nor the lease/session table (incl. its MAC / IP / circuit-id indexes) still binds the address to the session; a declined address may stay quarantined; "
    "a PPPoE session record left in state Closed does not count as bound",
    "Accounting records are attributed to a session by Calling-Station-Id; a Stop counts only if its Acct-Session-Id is that of the session's latest Start",
    "teardown: establishment (incl. the Accounting-Start, sent through the same radius.Client) is performed by the harness; every end path first looks the session up in the session table as Server.handlePADT does; "
    "'two paths at once' = a second path (client PADT, TerminateByID) handled while TerminateSession is inside its sendPADT callback (in production a 1 s retry delay)",
    "subscriber: counting AddressAllocator (lowest free unit of a /29, release by address, every ReleaseIPv4 call counted); two TerminateSession calls at once are scheduled through the verif gate "
    "'terminate.afterMark' between the two critical sections, both orders",
    "an Accounting-Stop counts for an end event if it is issued by the time every goroutine the event started has settled (the code paths under test send it from a goroutine at once, not from a timer-driven queue)",
    "one expiry / idle event lets one chosen session (the others renew / show activity half-way) or every session time out; sessions never time out behind the harness' back (virtual time only advances inside those events)",
]

C16 = dict(
    pkg="./lifecycle", test="TestExplore", spec_dir="SessionLifecycle", impl_module="SessionLifecycleImpl",
    design=[("SessionLifecycleDesign", "MC_design_quick.cfg", 8, "quick"), ("SessionLifecycleDesign", "MC_design.cfg", 16, "thorough"), ("TerminateRace", "MC_race.cfg", 1)],
    watch=WATCH, assumptions=ASSUMPTIONS, cfg_extra="INVARIANT Cover\n", nsubs=2,
    explanation="SessionLifecycle.tla is the contract (AfterEndClean, OneStop, EndIdempotent, OthersUntouched); SessionLifecycleDesign.tla model-checks that any end step the contract accepts satisfies the property on a "
                "concrete resource model (establish split into sub-steps, End(path) free to drop any subset / stop / release any number of times); TerminateRace.tla is the two-critical-section model of "
                "subscriber.TerminateSession. SessionLifecycleImpl.tla walks tables extracted breadth-first (and random chains) from the real dhcp.Server (+NAT, QoS, kernel maps, RADIUS), pppoe.Server, "
                "pppoe.SessionTeardown and subscriber.Manager over {establishment sub-steps} x {every end path, each also on ended / partially established sessions, two paths at once}.",
)

COVER_RE = re.compile(r'<<"COVER", "([^"]*)", \{([^}]*)\}>>')


def runner(prop, fam, tier, seed, replay):
    t0 = time.time()
    keep = os.environ.get("VERIF_KEEP")
    os.environ["VERIF_KEEP"] = "1"
    work = os.path.join(vcheck.WORK, "%s-%d" % (prop, os.getpid()))
    try:
        rc = tablecheck.table_check(prop, fam, tier, seed, replay)
        cover = collections.defaultdict(collections.Counter)
        outp = os.path.join(work, "tlc_impl", "tlc.out")
        if os.path.exists(outp):
            for line in open(outp, errors="replace"):
                m = COVER_RE.search(line)
                if m:
                    for tag in re.findall(r'"([^"]+)"', m.group(2)):
                        cover[m.group(1)][tag] += 1
        evp = vcheck.evidence_path(prop)
        if os.path.exists(evp) and cover:
            ev = json.load(open(evp))
            ev["coverage"]["antecedents_exercised"] = {k: dict(sorted(v.items())) for k, v in sorted(cover.items())}
            ev["coverage"]["antecedent_legend"] = "per implementation: distinct TLC states reached by an end event that L ends a live session, S ... one with an Accounting-Start, A ... one holding an address, " \
                                                  "E hits an already ended session, O happens while another session is live, P is two paths at once; suffix = end path"
            json.dump(ev, open(evp + ".tmp%d" % os.getpid(), "w"), indent=1, sort_keys=True)
            os.replace(evp + ".tmp%d" % os.getpid(), evp)
        if rc == 0 and not replay:
            missing = ["%s %s" % (impl, t) for impl, tags in REQUIRED.items() for t in tags if cover.get(impl, {}).get(t, 0) == 0]
            if missing:
                print("INFRA-FAILURE property=%s vacuous run: clause antecedents never exercised: %s" % (prop, ", ".join(missing)), flush=True)
                rc = 2
        return rc
    finally:
        if keep is None:
            os.environ.pop("VERIF_KEEP", None)
            vcheck.cleanup(work)


CHECKS = {"C16": dict(C16, runner=runner)}
MANIFEST = {"C16": dict(
    engine="tlc-table", category="model_checking", design_ref="DESIGN.md section 7 C16",
    text="TLC model-checks that the SessionLifecycle contract implies the property on a concrete resource model (SessionLifecycleDesign) and the two-critical-section model of TerminateSession (TerminateRace), "
         "then walks transition tables and random traces extracted from the real DHCP server (with real NAT and QoS managers, kernel cache maps and a RADIUS accounting peer), the inline PPPoE server, "
         "pppoe.SessionTeardown and subscriber.Manager: every establishment prefix x every end path (release, decline, expiry, PADT, LCP terminate, authentication failure, idle timeout, admin, RADIUS disconnect, "
         "shutdown), each also on already ended sessions and two paths at once (gate-scheduled), judging after every end event that address, NAT block, QoS policy, cache entries and indexes are gone, that exactly "
         "one Accounting-Stop exists if a Start does, that a second end changes nothing and that other live sessions are untouched.",
    technique="TLA+ resource-lifecycle contract + TLC over tables/traces extracted from the real session-ending code under virtual time with exact accounting quiescence; gate-replayed concurrent terminations",
    note="trusted: harness projection (address -> unit, MAC/circuit-id -> slot), scripted RADIUS peer, synctest quiescence; the teardown system's establishment and fast-path map are harness-made; "
         "bounded by alphabet, 2-3 sessions, depth and node caps; needs CAP_BPF for the kernel maps (exit 2 otherwise)")}
