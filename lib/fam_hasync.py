"""Family "hasync" (C13): the real pkg/ha session synchronisation (active handlers + standby reader) over loopback HTTP.

Flow (on top of the generic table flow of tablecheck.py), same shape as fam_failover:
  0. concurrently: TLC on the implementation-shaped design spec of the ORIGINAL protocol (HaSyncShape, Fixed = FALSE;
     its counterexample histories are executed on the real code as extra chains), the U1 checks (HaSyncDesign: the
     "consequently" sentence follows from the first two when the reconnect is atomic - and, as a non-vacuity check,
     does NOT follow when changes may fall between full sync and attachment), the repaired protocol (HaSyncShape,
     Fixed = TRUE, also with the attachment split in two) which must be clean.
  1. generic flow: table extraction + random chains on the real code, TLC monitor walk, replay, verdict.
"""
import contextlib, io, json, os, re, shutil, sys, time
import vcheck
from vcheck import SPECS, WORK, Infra, log, run_tlc
from tablecheck import table_check

CLAUSES = ["AfterFullSyncEqual", "AppliedInPushOrder", "Convergence"]
SD = os.path.join(SPECS, "HaSync")

MUST_PASS = [("HaSyncDesign", "MC_design_atomic.cfg", 2), ("HaSyncShape", "MC_shape_fixed.cfg", 2), ("HaSyncShape", "MC_shape_fixed_split.cfg", 2)]
MUST_FAIL = [("HaSyncDesign", "MC_design_window.cfg", 1, "Invariant Convergence is violated")]


def _tlc(work, module, cfgfile, workers):
    return run_tlc(SD, module, open(os.path.join(SD, cfgfile)).read(), work, workers=workers, timeout=1500, name=cfgfile[:-4])


def _must_pass(work, module, cfgfile, workers):
    res = _tlc(work, module, cfgfile, workers)
    if "No error has been found" not in res["out"]:
        raise Infra("design spec %s/%s did not pass TLC (a specification problem, not a verdict):\n%s" % (module, cfgfile, res["out"][-3000:]))
    return dict(module=module, cfg=cfgfile, states=res["distinct"], transitions=res["generated"], expected="no error")


def _must_fail(work, module, cfgfile, workers, needle):
    res = _tlc(work, module, cfgfile, workers)
    if needle not in res["out"]:
        raise Infra("design spec %s/%s was expected to produce a counterexample (%s) and did not:\n%s" % (module, cfgfile, needle, res["out"][-3000:]))
    return dict(module=module, cfg=cfgfile, states=res["distinct"], transitions=res["generated"], expected="counterexample (non-vacuity)")


def _design_counterexamples(work):
    res = _tlc(work, "HaSyncShape", "MC_shape_orig.cfg", 1)
    if "Model checking completed" not in res["out"] or "Error:" in res["out"]:
        raise Infra("HaSyncShape (original design) did not run to completion:\n" + res["out"][-2000:])
    best = {}
    for line in res["out"].splitlines():
        line = line.strip()
        if not line.startswith('<<"DESIGN-CEX"'):
            continue
        raw = line[line.index(',') + 1:].strip()
        raw = raw[1:raw.rindex('"')].replace('\\"', '"').replace("\\\\", "\\")
        j = json.loads(raw)
        key = tuple(sorted(j["clauses"]))
        if key not in best or len(j["events"]) < len(best[key]):
            best[key] = j["events"]
    return res, [(list(k), v) for k, v in sorted(best.items())]


def runner(prop, fam, tier, seed, replay=None):
    t0 = time.time()
    pre = os.path.join(WORK, "%s-shape-%d" % (prop, os.getpid()))
    shutil.rmtree(pre, ignore_errors=True)
    os.makedirs(pre)
    try:
        fam2 = dict(fam)
        fam2.pop("runner", None)
        fam2["design"] = []
        shape_info, design_stats = None, []
        if not replay:
            from concurrent.futures import ThreadPoolExecutor
            try:
                with ThreadPoolExecutor(max_workers=5) as ex:
                    f0 = ex.submit(_design_counterexamples, pre)
                    fs = [ex.submit(_must_pass, pre, m, c, w) for (m, c, w) in MUST_PASS]
                    fs += [ex.submit(_must_fail, pre, m, c, w, n) for (m, c, w, n) in MUST_FAIL]
                    res, cex = f0.result()
                    design_stats = [f.result() for f in fs]
            except Infra as e:
                print("INFRA-FAILURE property=%s %s" % (prop, str(e)[:3000]), flush=True)
                return 2
            for d in design_stats:
                log("design %s/%s: %d distinct states (%s)" % (d["module"], d["cfg"], d["states"], d["expected"]))
            cases = [dict(id="cex%d" % i, system="shape", events=evs, cfg=dict(impl="shape", nsess=2, nsubs=0), clauses=cl) for i, (cl, evs) in enumerate(cex)]
            cf = os.path.join(pre, "extra_cases.json")
            json.dump(dict(property=prop, cases=cases), open(cf, "w"))
            env = dict(fam2.get("env", {}))
            env["VERIF_EXTRA_CASES"] = cf
            fam2["env"] = env
            shape_info = dict(module="HaSyncShape", cfg="MC_shape_orig.cfg", states=res["distinct"], transitions=res["generated"],
                              counterexamples=[dict(clauses=cl, events=evs) for cl, evs in cex],
                              note="counterexamples of the protocol as found at the pinned commit; each is executed on the real code as chain shape#cex<i> "
                                   "(a history that violates on the real code is reported through the normal VIOLATION / KNOWN-FINDING path)")
            log("original design: %d counterexample histories (%s)" % (len(cex), "; ".join(",".join(c) for c, _ in cex)))
        def attempt(f):
            buf = io.StringIO()
            with contextlib.redirect_stdout(buf):
                r = table_check(prop, f, tier, seed, replay)
            return r, buf.getvalue()
        try:
            rc, said = attempt(fam2)
            if rc == 2 and not replay and re.search(r" on e2e#\d+ did not reproduce on a fresh object", said):
                # The end-to-end chains (two started syncers, their own goroutines, real time) are timing-dependent:
                # something seen there may not show again on a fresh pair, and the generic flow then ends without a
                # verdict even if the scheduled tables hold a reproducible violation of the same tree. One more complete
                # check without the end-to-end chains: only a violation it reproduces replaces the failure.
                log("a violation seen in an end-to-end chain did not reproduce on a fresh pair (timing-dependent); checking once more without the end-to-end chains")
                fam3 = dict(fam2, env=dict(fam2.get("env", {}), VERIF_NO_E2E="1"))
                rc3, said3 = attempt(fam3)
                if rc3 == 1:
                    rc, said = rc3, said3
                else:
                    log("no reproducible violation without them either: the unreproduced end-to-end finding stands as an infrastructure failure")
            sys.stdout.write(said)
            sys.stdout.flush()
        except Exception as e:   # a crash of the driver is never a verdict
            import traceback
            print("INFRA-FAILURE property=%s driver exception: %s" % (prop, traceback.format_exc()[-2000:]), flush=True)
            return 2
        if shape_info is not None:
            p = vcheck.evidence_path(prop)
            try:
                ev = json.load(open(p))
                ev["coverage"]["original_design_model"] = shape_info
                ev["coverage"]["design_runs"] = design_stats
                ev["coverage"]["states"] += shape_info["states"] + sum(d["states"] for d in design_stats)
                ev["coverage"]["transitions"] += shape_info["transitions"] + sum(d["transitions"] for d in design_stats)
                ev["wall_s"] = round(time.time() - t0, 2)
                tmp = p + ".tmp%d" % os.getpid()
                json.dump(ev, open(tmp, "w"), indent=1, sort_keys=True)
                os.replace(tmp, p)
            except Exception:
                pass
        return rc
    finally:
        shutil.rmtree(pre, ignore_errors=True)


CHECKS = {
    "C13": dict(
        runner=runner,
        pkg="./hasync", test="TestExplore", spec_dir="HaSync", impl_module="HaSyncImpl",
        design=[(m, c, w) for (m, c, w) in MUST_PASS],
        watch=CLAUSES,
        cfg_extra="INVARIANT PhaseTracks\n",
        assumptions=[
            "real code on both sides: the active's HASyncer (PushChange, broadcastToClients, /ha/sessions and /ha/sessions/stream handlers served by a real net/http server), the standby's HASyncer (performFullSync, connectToStream incl. SSE parsing, handleSSEData), both InMemorySessionStores",
            "the harness plays the active's session manager (store mutation, then PushChange), the broadcast goroutine (body of broadcastLoop run synchronously per change, hook VerifBroadcastPending), the standby's reconnect loop (full sync, then attach - as standbyLoop does) and the network (an http.RoundTripper installed as http.DefaultTransport hands the stream to the standby one event per 'deliver' and can cut it)",
            "a Read on the stream body is the barrier that tells the harness the standby has processed what it was given; an expected stream event that does not arrive within 10 s counts as never sent (confirmed by the replay on fresh objects)",
            "the network also carries the GET /ha/sessions the standby makes during an attachment: the attachment counts as complete when the standby waits for stream data AND has closed that response's body (is done with the snapshot), however connectToStream orders the two; 'attach racepush' holds the complete answer on the wire, lets the active change a session (pushed on the registered stream), offers that stream event to the standby and only then lets the snapshot through. The offer is withdrawn at once when the goroutine waiting for the snapshot answer is the one that opened the stream and nothing has read the stream yet (its reading can only come afterwards); otherwise the standby gets up to 2 s to take it. A change taken that way is reported as handed over (midhanded) and Convergence judges the tables right after the attachment",
            "an end-to-end finding that does not show again on a fresh pair (3 fresh runs of the schedule) makes the driver repeat the whole check once without the end-to-end chains; only a violation reproduced by that second check replaces the infrastructure failure",
            "session content is abstracted to a version (1/2, 9 = anything else); tables are id -> version, 0 = absent; 2-4 session ids",
            "cutting the stream loses the events received from the active but not yet handed to the standby (deliver-then-cut is a different schedule of the same alphabet)",
            "tables and random chains run net/http over in-memory pipe connections (tens of thousands of node pairs would exhaust the ephemeral TCP ports); the end-to-end chains (e2e#i) use two Start()ed syncers - real listener on a loopback TCP port, real broadcastLoop and standbyLoop with reconnect backoff shortened to 5-20 ms by reflection - and are judged only at quiescent points (stream attached by the standby's own loop, a marker change pushed last has been processed, or 30 s of quiet have passed)",
            "tables are explored to a depth bound (not closed: the undelivered queue is unbounded)",
            "not covered: TLS, the 100-message per-client channel overflow, the production backoff values",
        ],
        explanation="HaSync.tla (contract) restates the three sentences; HaSyncDesign shows the third follows from the first two exactly when no change falls between full sync and "
                    "attachment; HaSyncShape models the protocol as coded (original: TLC finds the surviving deleted session and the change lost between full-sync reply and stream "
                    "registration; repaired: clean, also with the attachment split). HaSyncImpl walks transition tables and random chains extracted from the real syncer pair over "
                    "loopback HTTP, plus the design counterexamples replayed on the real code.",
    ),
}

MANIFEST = {
    "C13": dict(
        engine="tlc-table", category="model_checking", design_ref="DESIGN.md section 7 C13",
        text="TLC decides it three times: (1) the structure of the property is model-checked (convergence follows from full-sync equality and in-order application iff the "
             "reconnect is atomic); (2) an implementation-shaped TLA+ model of the sync protocol is model-checked and its counterexamples are replayed on the real code; "
             "(3) all add/update/delete histories over 2-3 session ids interleaved with full-sync, attach, deliver and disconnect steps (breadth-first with state fingerprints, "
             "depth 8/7/6 for 2/3/4 ids quick, 11/9/8 thorough), long random schedules over 4 ids, and end-to-end runs of two started syncers over loopback TCP are executed "
             "on the real active/standby HASyncer pair and walked by TLC with the contract as monitor, every clause at every step.",
        technique="TLA+ contract + TLC over transition tables/traces of the real HASyncer pair (scheduled network) + design-counterexample replay",
        note="trusted: the harness' network shim (event-at-a-time delivery, read barrier), the session-content abstraction, TLC. In the tables the standbyLoop/broadcastLoop goroutines "
             "are played by the harness step by step; they run for real in the end-to-end chains.",
    ),
}
