"""Extra family "SubscriberFsm" (X02, not one of the 20 listed properties): the session state machine of
subscriber.Manager (pkg/subscriber/manager.go) - successor states, by-MAC / by-IP indexes, statistics,
events, idle / session timeouts - under virtual time, with one call in flight between its critical sections.

Flow (on top of the generic table flow of tablecheck.py):
  0. TLC model-checks the implementation-shaped design spec of the code as it is
     (specs/SubscriberFsm/SubscriberFsmShape.tla, Fixed = FALSE: one action per critical section of
     Authenticate / AssignAddress / TerminateSession / the cleanup pass).  Each counterexample is a history in
     the harness' alphabet; the shortest per (clauses, call in flight) is handed to the explorer
     (VERIF_EXTRA_CASES) and executed on the real manager as one more chain, judged like everything else.
  1. generic flow: U1 design checks (the contract implies the guarantees stated directly; the design with the
     proposed repairs is clean), table extraction + random chains on the real code, TLC monitor walk, replay,
     verdict.
"""
import json, os, shutil, time
import vcheck
from vcheck import SPECS, WORK, Infra, log, run_tlc
from tablecheck import table_check

CLAUSES = ["Admission", "Successor", "WalledNotActive", "IndexExact", "StatsTrue", "EventsOnce", "TimeoutOnlyExpired", "ExpiredCleaned"]

SPEC_DIR = "SubscriberFsm"
# constants of MC_shape_orig.cfg as the harness needs them to rebuild the system of a counterexample
SHAPE_CFG = dict(impl="shape", n=2, max=2, sto=0, ito=1, asto=0, aito=0, cap=2, u4=2, u6=0, nsubs=2, poola=[1, 2], poolb=[], advs=[2],
                 ops=["create", "auth:ok", "auth:fail", "assign:a", "activate", "walled", "unwalled", "activity", "activity*", "term:admin", "tick",
                      "auth_begin:ok", "auth_begin:fail", "term_begin", "assign_begin:a", "tick_begin", "cont"])

DESIGN = [("SubscriberFsmDesign", "MC_design.cfg", 2), ("SubscriberFsmDesign", "MC_design_mut.cfg", 1), ("SubscriberFsmShape", "MC_shape_fixed.cfg", 2)]
DESIGN_THOROUGH = DESIGN + [("SubscriberFsmDesign", "MC_design_cap.cfg", 4), ("SubscriberFsmDesign", "MC_design_deep.cfg", 4), ("SubscriberFsmDesign", "MC_design_full.cfg", 4),
                            ("SubscriberFsmShape", "MC_shape_fixed_rich.cfg", 4)]


def flux_kind(events):
    """the call that was in flight when the witness ended: the last *_begin event that parked"""
    kind = ""
    for e in events:
        op = e.get("op", "")
        if op.endswith("_begin") and e.get("done") is False:
            kind = op
    return kind


def sig_extra(sig):
    k = flux_kind(sig["events"])
    return dict(group_extra=k, witness_key=k)


def _parse_cex(out):
    best = {}
    for line in out.splitlines():
        line = line.strip()
        if not line.startswith('<<"DESIGN-CEX"'):
            continue
        raw = line[line.index(',') + 1:].strip()
        raw = raw[1:raw.rindex('"')].replace('\\"', '"').replace("\\\\", "\\")
        j = json.loads(raw)
        key = (tuple(sorted(j["clauses"])), j.get("flux", ""))
        if key not in best or len(j["events"]) < len(best[key]):
            best[key] = j["events"]
    return [(list(k[0]), k[1], v) for k, v in sorted(best.items())]


def _design_counterexamples(work):
    """TLC on the design as it is; returns [(clauses, call in flight, events)], shortest per pair."""
    sd = os.path.join(SPECS, SPEC_DIR)
    cfg = open(os.path.join(sd, "MC_shape_orig.cfg")).read()
    res = run_tlc(sd, "SubscriberFsmShape", cfg, work, workers=1, timeout=900, name="shape_orig")   # one worker: strict breadth-first order, shortest histories
    if "Model checking completed" not in res["out"] or "Error:" in res["out"]:
        raise Infra("SubscriberFsmShape (design as it is) did not run to completion:\n" + res["out"][-2000:])
    return res, _parse_cex(res["out"])


def _design_must_pass(work, module, cfgfile, workers):
    sd = os.path.join(SPECS, SPEC_DIR)
    res = run_tlc(sd, module, open(os.path.join(sd, cfgfile)).read(), work, workers=workers, timeout=1500, name=cfgfile[:-4])
    if "No error has been found" not in res["out"]:
        raise Infra("design spec %s/%s did not pass TLC (a specification problem, not a verdict):\n%s" % (module, cfgfile, res["out"][-3000:]))
    if "DESIGN-CEX" in res["out"]:
        raise Infra("design spec %s/%s (repaired design) still has counterexamples:\n%s" % (module, cfgfile, res["out"][-3000:]))
    return dict(module=module, cfg=cfgfile, states=res["distinct"], transitions=res["generated"])


def runner(prop, fam, tier, seed, replay=None):
    t0 = time.time()
    pre = os.path.join(WORK, "%s-shape-%d" % (prop, os.getpid()))
    shutil.rmtree(pre, ignore_errors=True)
    os.makedirs(pre)
    ex = None
    try:
        fam2 = dict(fam)
        fam2.pop("runner", None)
        fam2["design"] = []   # run here, concurrently
        shape_info, design_stats = None, []
        fs = []
        if not replay:
            from concurrent.futures import ThreadPoolExecutor
            ex = ThreadPoolExecutor(max_workers=4)
            # the counterexamples are needed by the explorer; the other design runs go on beside the exploration
            try:
                res, cex = _design_counterexamples(pre)
            except Infra as e:
                print("INFRA-FAILURE property=%s %s" % (prop, str(e)[:3000]), flush=True)
                return 2
            if not cex:
                print("INFRA-FAILURE property=%s the model of the design as it is has no counterexample (the shape model no longer describes the races it was written for)" % prop, flush=True)
                return 2
            cases = [dict(id="cex%d" % i, system="shape", events=evs, cfg=SHAPE_CFG, clauses=cl) for i, (cl, fx, evs) in enumerate(cex)]
            cf = os.path.join(pre, "extra_cases.json")
            json.dump(dict(property=prop, cases=cases), open(cf, "w"))
            env = dict(fam2.get("env", {}))
            env["VERIF_EXTRA_CASES"] = cf
            fam2["env"] = env
            shape_info = dict(module="SubscriberFsmShape", cfg="MC_shape_orig.cfg", states=res["distinct"], transitions=res["generated"],
                              counterexamples=[dict(clauses=cl, in_flight=fx, events=evs) for cl, fx, evs in cex],
                              note="counterexamples of the design as it is at HEAD; each is executed on the real manager as chain shape#cex<i> "
                                   "(a history that violates on the real code is reported through the normal VIOLATION / KNOWN-FINDING path)")
            fs = [ex.submit(_design_must_pass, pre, m, c, w) for (m, c, w) in (DESIGN_THOROUGH if tier == "thorough" else DESIGN)]
            log("design as it is: %d counterexample histories (%s)" % (len(cex), "; ".join(",".join(c) + "@" + fx for c, fx, _ in cex)))
        try:
            rc = table_check(prop, fam2, tier, seed, replay)
        except Exception:   # a crash of the driver is never a verdict
            import traceback
            print("INFRA-FAILURE property=%s driver exception: %s" % (prop, traceback.format_exc()[-2000:]), flush=True)
            rc = 2
        try:
            design_stats = [f.result() for f in fs]
        except Infra as e:
            print("INFRA-FAILURE property=%s %s" % (prop, str(e)[:3000]), flush=True)
            return 2
        for d in design_stats:
            log("design %s/%s: %d distinct states" % (d["module"], d["cfg"], d["states"]))
        if rc == 2:
            return 2
        if shape_info is not None:
            p = vcheck.evidence_path(prop)
            try:
                ev = json.load(open(p))
                ev["coverage"]["design_as_it_is_model"] = shape_info
                ev["coverage"]["design_runs"] = design_stats
                ev["coverage"]["states"] += shape_info["states"] + sum(d["states"] for d in design_stats)
                ev["coverage"]["transitions"] += shape_info["transitions"] + sum(d["transitions"] for d in design_stats)
                ev["wall_s"] = round(time.time() - t0, 2)
                tmp = p + ".tmp%d" % os.getpid()
                json.dump(ev, open(tmp, "w"), indent=1, sort_keys=True)
                os.replace(tmp, p)
            except Exception:
                pass
        return rc
    finally:
        if ex is not None:
            ex.shutdown(wait=True)
        shutil.rmtree(pre, ignore_errors=True)


CHECKS = {
    "X02": dict(
        runner=runner,
        pkg="./subscriberfsm", test="TestExplore", spec_dir=SPEC_DIR, impl_module="SubscriberFsmImpl",
        design=DESIGN,
        watch=CLAUSES,
        sig_extra=sig_extra,
        cfg_extra="INVARIANT FluxTracks\n",
        nsubs=2,
        assumptions=[
            "extra family (not one of the 20 listed properties): the guarantees were formulated from the package's own comments, names and error texts (table in specs/SubscriberFsm/SubscriberFsm.tla), weakest reading; "
            "the package states no precondition for any call except that the session exists, so 'an active session is authenticated and has an address' is not claimed",
            "virtual time: every replay runs inside a testing/synctest bubble; one quantum = 1 minute; time advances only in 'adv' events, so session ages are whole quanta; the cleanup loop is not started, "
            "one pass of it (VerifCleanupExpired = the loop body) is the event 'tick'; a session exactly at its timeout may or may not be ended by a pass",
            "a slot is a MAC address; session ids (random UUIDs) are projected to the slot whose latest session they name, a call for a slot without session uses the id of its ended session or an id that never existed; "
            "addresses are projected to units of the harness' own pools",
            "Authenticator and AddressAllocator are the harness' own (they are the manager's environment): the outcome of an authentication is chosen by the event; the allocator hands out the unit a session already "
            "holds in the pool, else the lowest free one; nothing is freed except by ReleaseIPv4 / ReleaseIPv6, which release by address (like the allocators cmd/bng wires in)",
            "concurrency: at most one call is in flight; it runs on a second goroutine and parks where the real code holds no lock and calls out - inside the Authenticator (Authenticate), inside AllocateIPv4 after the "
            "allocator has decided (AssignAddress), at the verif gate 'terminate.afterMark' and inside ReleaseIPv4 after the release (TerminateSession, the cleanup pass: gate only); every other call runs to completion "
            "on the harness goroutine meanwhile; calls the harness does not schedule in that window are skipped (no-op edges): a second call in flight, time, a pass, calls on the session being ended, anything but 'UpdateActivity for every other session' while a pass is in flight, "
            "on a session being authenticated other than SetWalledGarden / ClearWalledGarden / ActivateSession / UpdateActivity, on a session being assigned other than TerminateSession",
            "where two overlapping calls both write one session's state the contract does not prescribe the successor state (the ghost adopts the observed one); WalledNotActive, IndexExact, StatsTrue and the timeout "
            "clauses are still judged there",
            "fingerprint = sessions (state, flags, addresses, timeouts, saturated ages), both indexes, the allocator's ownership, the call in flight (kind, session, variant, state at its start, park point); "
            "monotone statistics and traffic counters are left out; adequacy re-checked on 20 re-reached nodes per table; the cleanup pass in flight is exercised in chains only (its collected list is not observable)",
            "events of one step are reported sorted by slot (one pass ends several sessions in map order); the Reason text is compared for terminations only",
            "pkg/walledgarden.Manager (eBPF map front end) is not wired to subscriber.Manager anywhere in the tree and is not part of this family",
        ],
        explanation="SubscriberFsm.tla (contract: ghost = abstract session record per MAC + the call in flight) is model-checked to imply the guarantees stated directly over absolute time and whole histories "
                    "(SubscriberFsmDesign); SubscriberFsmShape models the code's critical sections (as it is: TLC finds the stale by-IP delete, the dangling by-IP entry, the stale state restored by a failed "
                    "authentication and the pass ending a session that just showed activity; with the proposed repairs: clean). SubscriberFsmImpl walks the transition tables extracted from the real manager under "
                    "virtual time (closed under their alphabets: verdict for sequences of any length relative to alphabet and fingerprint), long random chains, and the design counterexamples replayed on the real code.",
    ),
}
