"""Family "keepalive" (extra id X05, not one of the 20 listed properties): the two keep-alive components of
pkg/pppoe/keepalive.go - SessionKeepAlive composed with the real LCP automaton, and KeepAliveManager - driven under
testing/synctest virtual time.

Flow (on top of the generic table flow of tablecheck.py):
  0. TLC model-checks the implementation-shaped design spec of the code AS FOUND (specs/KeepAlive/KeepAliveShape.tla,
     Fixed = FALSE: one action per critical section / ticker step of keepalive.go) for the session keep-alive, the
     manager, and the manager with Timeout > Interval.  Each counterexample is a history in the harness' alphabet; the
     shortest per clause set is handed to the explorer (VERIF_EXTRA_CASES) and executed on the real component as one
     more chain (shape-ska#cex<i>, shape-mgr#cex<i>, shape-mgrlong#cex<i>).
  1. U1: KeepAliveDesign (contract == guarantee stated over the whole history of the wire, both directions) and
     KeepAliveShape with the proposed repairs (clean) must pass.
  2. generic flow: table extraction + seeded random chains on the real code, TLC monitor walk (KeepAliveImpl), replay,
     verdict.
"""
import json, os, shutil, sys, time
import vcheck
from vcheck import SPECS, WORK, Infra, log, run_tlc
from tablecheck import table_check

CLAUSES = ["NoEarlyDead", "DeadAtMax", "ReplyResets", "StaleIgnored", "EchoCadence", "Outstanding", "FreshId", "EchoSent",
           "TerminateOnce", "Monitoring", "SilentWhenOff", "OnlyChecksCount", "Isolation", "StatsTrue"]

SPEC_DIR = "KeepAlive"


def _shape_cfg(name, kind, n, prereg, life, timeout):
    return dict(impl=name, kind=kind, n=n, prereg=prereg, prestarted=not life, interval=10000, timeout=timeout, idle=12000, maxfail=2, nsubs=0)


# (cfg file of the design as found, system name of the replayed chains, harness configuration = the cfg's constants)
SHAPES_ORIG = [
    ("MC_shape_ska_orig.cfg", "shape-ska", _shape_cfg("shape-ska", "ska", 1, 1, True, 7000)),
    ("MC_shape_mgr_orig.cfg", "shape-mgr", _shape_cfg("shape-mgr", "mgr", 2, 1, False, 7000)),
    ("MC_shape_mgrlong_orig.cfg", "shape-mgrlong", _shape_cfg("shape-mgrlong", "mgr", 1, 1, False, 16000)),
]

DESIGN = [("KeepAliveDesign", "MC_design_ska_std.cfg", 2), ("KeepAliveDesign", "MC_design_mgr_std.cfg", 2),
          ("KeepAliveDesign", "MC_design_ska_long.cfg", 1), ("KeepAliveDesign", "MC_design_mgr_long.cfg", 1),
          ("KeepAliveShape", "MC_shape_ska_fixed.cfg", 1), ("KeepAliveShape", "MC_shape_skalong_fixed.cfg", 1),
          ("KeepAliveShape", "MC_shape_mgr_fixed.cfg", 1), ("KeepAliveShape", "MC_shape_mgrlong_fixed.cfg", 1),
          ("KeepAliveShape", "MC_shape_mgrlife_fixed.cfg", 1)]
DESIGN_THOROUGH = DESIGN + [("KeepAliveDesign", "MC_design_ska_std_deep.cfg", 4), ("KeepAliveDesign", "MC_design_ska_long_deep.cfg", 4),
                            ("KeepAliveDesign", "MC_design_mgr_std_deep.cfg", 4), ("KeepAliveDesign", "MC_design_mgr_long_deep.cfg", 4),
                            ("KeepAliveShape", "MC_shape_ska_fixed_deep.cfg", 2), ("KeepAliveShape", "MC_shape_mgr_fixed_deep.cfg", 2)]


def _design_counterexamples(work, cfgfile):
    """TLC on the design as found; returns (tlc result, [(clauses, events)] shortest per clause set)."""
    sd = os.path.join(SPECS, SPEC_DIR)
    cfg = open(os.path.join(sd, cfgfile)).read()
    res = run_tlc(sd, "KeepAliveShape", cfg, work, workers=1, timeout=900, name=cfgfile[:-4])
    if "Model checking completed" not in res["out"] or "Error:" in res["out"]:
        raise Infra("KeepAliveShape/%s (design as found) did not run to completion:\n%s" % (cfgfile, res["out"][-2000:]))
    best = {}
    for line in res["out"].splitlines():
        line = line.strip()
        if not line.startswith('<<"DESIGN-CEX"'):
            continue
        raw = line[line.index(',') + 1:].strip()
        raw = raw[1:raw.rindex('"')].replace('\\"', '"').replace("\\\\", "\\")
        j = json.loads(raw)
        key = tuple(sorted(j["clauses"]))
        if key not in best or (len(j["events"]), json.dumps(j["events"], sort_keys=True)) < (len(best[key]), json.dumps(best[key], sort_keys=True)):
            best[key] = j["events"]
    return res, [(list(k), v) for k, v in sorted(best.items())]


def _design_must_pass(work, module, cfgfile, workers):
    sd = os.path.join(SPECS, SPEC_DIR)
    res = run_tlc(sd, module, open(os.path.join(sd, cfgfile)).read(), work, workers=workers, timeout=2400, name=cfgfile[:-4])
    if "No error has been found" not in res["out"]:
        raise Infra("design spec %s/%s did not pass TLC (a specification problem, not a verdict):\n%s" % (module, cfgfile, res["out"][-3000:]))
    return dict(module=module, cfg=cfgfile, states=res["distinct"], transitions=res["generated"])


def _replay_counterexamples(prop, fam, tier, seed, work, casefile, cases, shape_infos):
    """Each counterexample of the design as found is executed on the real component on its own and judged by the monitor;
    the evidence records whether the real code shows the clauses the model predicted at the end of the history (on the tree
    as found it must; on a repaired tree it does not). Informative only: the verdict comes from the generic flow, which
    runs the same chains again."""
    from tablecheck import cfg_impl
    from vcheck import build_harness, run_explorer, parse_violations, tlc_error
    try:
        binp = build_harness(fam["pkg"], work)
        out = os.path.join(work, "cex")
        run_explorer(binp, fam["test"], out, tier, seed, {"VERIF_REPLAY": casefile, "VERIF_PROP": prop}, timeout=600)
        res = run_tlc(os.path.join(SPECS, SPEC_DIR), fam["impl_module"], cfg_impl(fam["watch"], fam.get("cfg_extra", "")), work,
                      files={os.path.join(out, "bundle.json"): "bundle.json"}, workers=1, timeout=600, name="cex_impl")
        if tlc_error(res):
            raise Infra("TLC failed on the replayed design counterexamples:\n" + str(tlc_error(res)))
        bundle = json.load(open(os.path.join(out, "bundle.json")))
        length = {t["name"]: len(t["nodes"]) - 1 for t in bundle["systems"]}
        seen = {}
        for v in parse_violations(res["out"]):
            if len(v["path"]) == length.get(v["system"], -1):      # the clauses of the history's last step
                seen.setdefault(v["system"], set()).update(v["clauses"])
        for p in (json.load(open(os.path.join(out, "stats.json"))).get("panics") or []):
            seen.setdefault(p["system"], set()).add("Panic")
        n = ok = 0
        for info in shape_infos:
            for i, cx in enumerate(info["counterexamples"]):
                got = sorted(seen.get("%s#cex%d" % (info["replayed_as"], i), set()))
                cx["real_code_clauses_at_last_step"] = got
                cx["reproduced_on_real_code"] = got == sorted(cx["clauses"])
                n += 1
                ok += cx["reproduced_on_real_code"]
        log("design counterexamples replayed on the real code: %d of %d show exactly the predicted clauses" % (ok, n))
    except Infra as e:
        log("note: replay of the design counterexamples failed (%s); the generic flow runs them again" % str(e)[:300])


def runner(prop, fam, tier, seed, replay=None):
    t0 = time.time()
    pre = os.path.join(WORK, "%s-shape-%d" % (prop, os.getpid()))
    shutil.rmtree(pre, ignore_errors=True)
    os.makedirs(pre)
    try:
        fam2 = dict(fam)
        fam2.pop("runner", None)
        fam2["design"] = []   # run here, concurrently
        shape_infos, design_stats = [], []
        if not replay:
            from concurrent.futures import ThreadPoolExecutor
            try:
                with ThreadPoolExecutor(max_workers=6) as ex:
                    f0 = [(name, hcfg, cfgfile, ex.submit(_design_counterexamples, pre, cfgfile)) for (cfgfile, name, hcfg) in SHAPES_ORIG]
                    fs = [ex.submit(_design_must_pass, pre, m, c, w) for (m, c, w) in (DESIGN_THOROUGH if tier == "thorough" else DESIGN)]
                    orig = [(name, hcfg, cfgfile) + f.result() for (name, hcfg, cfgfile, f) in f0]
                    design_stats = [f.result() for f in fs]
            except Infra as e:
                print("INFRA-FAILURE property=%s %s" % (prop, str(e)[:3000]), flush=True)
                return 2
            for d in design_stats:
                log("design %s/%s: %d distinct states" % (d["module"], d["cfg"], d["states"]))
            cases = []
            for (name, hcfg, cfgfile, res, cex) in orig:
                for i, (cl, evs) in enumerate(cex):
                    cases.append(dict(id="cex%d" % i, system=name, events=evs, cfg=hcfg, clauses=cl))
                shape_infos.append(dict(module="KeepAliveShape", cfg=cfgfile, states=res["distinct"], transitions=res["generated"], replayed_as=name,
                                        counterexamples=[dict(clauses=cl, events=[{k: v for k, v in e.items() if v not in (0, "", False) or k == "op"} for e in evs]) for cl, evs in cex]))
                log("design as found %s: %d counterexample histories (%s)" % (cfgfile, len(cex), "; ".join(",".join(c) for c, _ in cex)))
            cf = os.path.join(pre, "extra_cases.json")
            json.dump(dict(property=prop, cases=cases), open(cf, "w"))
            env = dict(fam2.get("env", {}))
            env["VERIF_EXTRA_CASES"] = cf
            fam2["env"] = env
            _replay_counterexamples(prop, fam2, tier, seed, pre, cf, cases, shape_infos)
        try:
            rc = table_check(prop, fam2, tier, seed, replay)
        except Exception:   # a crash of the driver is never a verdict
            import traceback
            print("INFRA-FAILURE property=%s driver exception: %s" % (prop, traceback.format_exc()[-2000:]), flush=True)
            return 2
        if shape_infos:
            p = vcheck.evidence_path(prop)
            try:
                ev = json.load(open(p))
                ev["coverage"]["original_design_models"] = dict(
                    runs=shape_infos,
                    note="counterexamples of the design as found; each is executed on the real component as chain <replayed_as>#cex<i> "
                         "(a history that violates on the real code is reported through the normal VIOLATION / KNOWN-FINDING path)")
                ev["coverage"]["design_runs"] = design_stats
                ev["coverage"]["states"] += sum(s["states"] for s in shape_infos) + sum(d["states"] for d in design_stats)
                ev["coverage"]["transitions"] += sum(s["transitions"] for s in shape_infos) + sum(d["transitions"] for d in design_stats)
                ev["wall_s"] = round(time.time() - t0, 2)
                tmp = p + ".tmp%d" % os.getpid()
                json.dump(ev, open(tmp, "w"), indent=1, sort_keys=True)
                os.replace(tmp, p)
            except Exception:
                pass
        return rc
    finally:
        shutil.rmtree(pre, ignore_errors=True)


CHECKS = {
    "X05": dict(
        runner=runner,
        pkg="./keepalive", test="TestExplore", spec_dir=SPEC_DIR, impl_module="KeepAliveImpl",
        design=DESIGN,
        watch=CLAUSES,
        cfg_extra="INVARIANTS GhostTracks OneCheckPerStep\n",
        assumptions=[
            "scope: pkg/pppoe/keepalive.go. Neither component is wired into pppoe.Server on this tree (the server answers Echo-Requests itself and "
            "LCPStateMachine.receiveEchoReply is empty: 'Echo replies are handled by the keep-alive mechanism'); the harness is that caller: it hands an "
            "Echo-Reply to LCPStateMachine.ReceivePacket and then to SessionKeepAlive.OnEchoReply / KeepAliveManager.ReceiveEchoReply. Answering the peer's "
            "Echo-Requests is the LCP automaton's business and is checked by C11 (ReplyEchoesId), not here",
            "virtual time: every component lives in its own testing/synctest bubble with its real time.NewTicker; Interval = 10 s, IdleThreshold = 12 s, "
            "Timeout = 7 s (a request unanswered at the next tick has timed out) or 16 s (> Interval: it times out at the second tick); every harness action "
            "happens half an interval away from the ticks, so no threshold coincides with an instant at which it is tested and every `adv` step of a running "
            "component contains exactly one check (TLC invariant OneCheckPerStep; a failure is an infrastructure failure)",
            "the wire is the truth: ska - every packet the real LCP automaton hands to its send callback (an Echo-Request counts as well-formed only with "
            "length 8, the local magic number and LCP in state Opened); mgr - invocations of the sendEcho / terminateSession callbacks. What the component "
            "says it waits for (pendingEcho/pendingID, KeepAliveState.PendingEcho/PendingEchoID - documented fields without accessor) is read by reflection "
            "and tied to the wire by the clauses Outstanding / EchoSent",
            "identifiers are compared for equality only and reported relative to the identifier counter at the beginning of each step (lcp.identifier / "
            "the harness' callback counter), which keeps the tables finite; failure counts are capped at MaxFailures+2, ages at 3 intervals, idleness at "
            "IdleThreshold in observation and fingerprint (adequacy of the fingerprint re-checked on re-reached nodes)",
            "replies: `match` names the last request the peer saw (manager as found: nothing ever reaches the peer, so it names what the manager believes "
            "it sent), `stale` the one before (or an unrelated identifier), `loop` the right identifier with the LOCAL magic number - the contract is silent "
            "about `loop` and about replies later than Timeout that no check has counted yet (possible only while stopped)",
            "the monitor keeps walking behind a violating step (the ghost is re-read from the component after every step); on the tree as found every "
            "request the manager accounts for violates EchoSent, stopping there would leave the rest of the manager unchecked",
            "not modelled: the window between checkAllSessions' `go terminateSessionAsync` and that goroutine's own critical section (a session "
            "re-registered under the same id in that window loses its fresh record); it cannot be opened without a hook and is only recorded as a remark",
            "every explorer job (one table or one batch of chains) runs in its own process, bubbles of one process strictly one after the other",
        ],
        explanation="KeepAlive.tla (contract: what a user of the keep-alive may rely on, from the comments of keepalive.go) is model-checked against the guarantee "
                    "stated over the whole history of the wire, both directions (KeepAliveDesign: a TLC state is one history the contract accepts; the "
                    "invariant AgreeBothWays judges, in every such state, EVERY answer a component could give to EVERY next step - 5 steps x 120..480 core "
                    "answers, manager: + 2 x 192..256 callback/statistics answers - by the contract and by the direct statement); KeepAliveShape models keepalive.go's critical sections "
                    "(as found: TLC finds the manager's callbacks that are never invoked, its re-sending while a reply is awaited when Timeout > Interval, "
                    "and the session keep-alive that is dead after Stop/Start and panics on the next Stop; with the proposed repairs: clean). KeepAliveImpl "
                    "walks the transition tables extracted from the real SessionKeepAlive x LCPStateMachine and KeepAliveManager (closed under their "
                    "alphabets), seeded random chains and the design counterexamples replayed on the real code.",
    ),
}
