"""Family "allocmodes" (extra family X16, not one of the 20 listed properties): pkg/allocator/modes.go - the real HybridAllocator and
WiFiGatewayAllocator (over LocalAllocator) -, pkg/resilience/pool_monitor.go - the real PoolMonitor (UpdatePoolStatus and its own 10 s loop over a
provider) - and pkg/resilience/radius_handler.go - the real RADIUSHandler (profile cache, degraded authentication, accounting buffer and its
replay, re-authentication queue) behind a scripted RADIUS server, all under testing/synctest virtual time.

Flow: the generic table flow of tablecheck.py (U1 design runs, table extraction until closed + seeded random chains on the real code, TLC
monitor walk with AllocModesImpl, replay of every witness on fresh objects, known findings from proposals/allocmodes.json, evidence).
No implementation-shaped model (AllocModesShape) yet: the defects of the two passes of radius_handler.go were found by the table walk directly.

Extra family: no MANIFEST entry."""
import json, os, shutil, time
import vcheck
from vcheck import SPECS, WORK, Infra, log, run_tlc
from tablecheck import table_check

CLAUSES = ["HybAllocLocal", "HybNoCollision", "HybRelease", "HybStats", "HybPartitionFlag", "HybPartitionActive", "HybReconcile", "WifiShortLease",
           "MonLevel", "MonExhaustedNoIPs", "MonUtil", "MonAlertOnCrossing", "MonAlertOnce", "MonShortLease", "MonLists",
           "RadCacheValid", "RadPurgeExpired", "RadNoAuthAfterExpiry", "RadAuthError", "RadDegradedAuth", "RadModeDeny", "RadBufferCap",
           "RadSyncOnce", "RadSyncAll", "RadSyncCount", "RadNoLoss", "RadKeptWithoutAuth", "RadStatsCancel", "RadPending", "RadReauthDone", "RadRequeue", "RadReauthCount", "RadStats"]

DESIGN = [("AllocModesDesign", "MC_design.cfg", 4)]
DESIGN_THOROUGH = [("AllocModesDesign", "MC_design.cfg", 4), ("AllocModesDesign", "MC_design_full.cfg", 4)]

def runner(prop, fam, tier, seed, replay=None):
    fam2 = dict(fam)
    fam2.pop("runner", None)
    fam2["design"] = DESIGN_THOROUGH if tier == "thorough" else DESIGN
    try:
        return table_check(prop, fam2, tier, seed, replay)
    except Exception:   # a crash of the driver is never a verdict
        import traceback
        print("INFRA-FAILURE property=%s driver exception: %s" % (prop, traceback.format_exc()[-2000:]), flush=True)
        return 2


CHECKS = {
    "X16": dict(
        runner=runner,
        pkg="./allocmodes", test="TestExplore", spec_dir="AllocModes", impl_module="AllocModesImpl",
        design=DESIGN,
        watch=CLAUSES,
        impl_workers=4,
        assumptions=[
            "virtual time: every object lives in its own testing/synctest bubble, bubbles strictly one after the other; every call is made one millisecond after the previous step, so no "
            "call coincides with a ticker instant (sync loop 30 s, monitor loop 10 s) or with age = CachedProfileTTL; `adv` / `tick` / `poll` advance whole minutes / 30 s / 10 s",
            "HybridAllocator: checkNexusHealth is a stub (`h.nexusAvailable = pingNexus(...)` is commented out), so the outcome of the health check is set by the harness: event `nexus` "
            "writes the unexported field nexusAvailable under the allocator's own mutex (reflection, no hook in /repo); with the code as it is the allocator is partitioned for ever",
            "one pool of 32-bit prefixes; its capacity (cfg.total) is what LocalAllocator.Stats reports for a fresh pool; addresses are projected to their index in the pool",
            "PoolMonitor: reports are PoolStatus{Total 100, Allocated u, Available av, Reserved the rest, Utilization u/100}; alert handlers run in goroutines of the monitor and are "
            "collected after the bubble is quiescent (synctest.Wait), as a bag per step; the order of alerts is not judged",
            "RADIUSHandler: the RADIUS server is a script behind the RADIUSAuthenticator interface (per pass: every call succeeds / fails / the first fails / the first fails and cancels "
            "the pass' context / the first succeeds and the second cancels / the first is rejected); buffered records and queued sessions are read by reflection (acctBuffer, "
            "reauthQueue, profileCache.CachedAt), everything else through the public API; QueueReauth is only called for a session that still needs re-authentication and is not queued",
            "not covered: mode selection (AllocationMode, PoolConfig.Mode: declared, never read), any rule about the other site's allocations (modes.go documents none: no local reserve, "
            "reconciliation is a TODO), allocation rate / EstimatedTTL, the order in which buffered records are replayed (no comment promises one; the code replays a failed record after "
            "later ones), ProcessReauths without authenticator (it drops the queue), batchSize 0 (integer divide by zero), a nil Logger in HybridAllocatorConfig (nil dereference on the "
            "first partition allocation), Close twice, concurrency between a pass and BufferAccounting / between syncLoop and Allocate (syncLoop reads both flags without the mutex)",
        ],
        explanation="AllocModes.tla (contract, 13 sentences / 33 clauses over four system kinds) ; U1 (AllocModesDesign): for the accounting buffer the contract is model-checked against "
                    "guarantees stated over the absolute history (no record delivered twice, every accepted record exactly one of buffered / delivered / failed three times, capacity, "
                    "results add up) under an environment that sends any sequence with any outcome and shows any buffer. AllocModesImpl walks the transition tables extracted from the real "
                    "HybridAllocator, WiFiGatewayAllocator, PoolMonitor and RADIUSHandler under virtual time (closed under the alphabet: unbounded-length verdict relative to alphabet and "
                    "fingerprint) and seeded random chains on larger configurations.",
    ),
}
