#!/usr/bin/env python3
"""seed_store.py <prop> <worktree> <n> <name> <caught: yes|no|after-strengthening> <clauses> <notes...>: file a verified seeded change under /verif/seeded/<name>/"""
import json, os, shutil, sys
prop, wt, n, name, caught, clauses = sys.argv[1:7]
notes = " ".join(sys.argv[7:])
src = os.path.join(wt, "_seed", n)
dst = os.path.join("/verif/seeded", name)
os.makedirs(dst, exist_ok=True)
for f in os.listdir(src):
    if os.path.isdir(os.path.join(src, f)):
        shutil.copytree(os.path.join(src, f), os.path.join(dst, f), dirs_exist_ok=True)
    else:
        shutil.copy(os.path.join(src, f), dst)
m = json.load(open(os.path.join(dst, "meta.json")))
m["property"] = prop
m["evaluation"] = dict(
    verified_by_lead="patch applies on /repo HEAD at evaluation time; go build ./... and go build -tags verif ./... ok; existing tests of the touched packages pass unedited; demo fails with the change and passes without it (lib/seed_eval.sh)",
    check_cmd="VERIF_REPO=<scratch worktree with the patch applied> bin/check %s" % prop,
    caught=caught, clauses=clauses.split(",") if clauses else [], notes=notes)
json.dump(m, open(os.path.join(dst, "meta.json"), "w"), indent=1)
print("stored", dst)
