"""Family "ponnte" (extra family X12): pkg/pon - the NTE discovery / provisioning Manager on the real
nexus.Client and nexus.VLANAllocator, its processDiscoveryEvents goroutine under testing/synctest
virtual time.

Flow (on top of the generic table flow of tablecheck.py, same as fam_partition):
  0. TLC model-checks the implementation-shaped design spec of the design AS FOUND
     (specs/PonNte/PonNteShape.tla, Fixed = FALSE).  Each counterexample is a history in the harness'
     alphabet; the shortest per clause set is handed to the explorer (VERIF_EXTRA_CASES) and executed on
     the real manager as one more chain (shape#cex<i>), judged like everything else.
  1. U1, concurrently: the contract is model-checked against the guarantees stated over absolute
     histories (PonNteDesign); the repaired design (Fixed = TRUE) is clean.
  2. generic flow: table extraction until closed + seeded random chains on the real code, TLC monitor
     walk (PonNteImpl), replay of every witness on fresh objects, known findings, evidence.

Extra family: no MANIFEST entry (not one of the 20 listed properties)."""
import json, os, shutil, sys, time
import vcheck
from vcheck import SPECS, WORK, Infra, log, run_tlc
from tablecheck import table_check

CLAUSES = ["StateEdges", "StateFollows", "ConnectedIsCurrent", "DiscoveredOnce", "ArrivalOrder", "NoSilentLoss", "DropOnlyWhenFull",
           "ResultPerDiscovery", "RetriesBeforeFailure", "VlanUnique", "VlanStable", "VlanInRange", "NoLeak", "DisconnectedOnce",
           "RecordFollows", "ListsTrue", "PendingIsUnconfigured"]
SOFT = ["PendingIsUnconfigured", "ConnectedIsCurrent"]

SPEC_DIR = "PonNte"
SHAPE_CFG = dict(impl="shape", nnte=2, retries=1, qcap=100, qmax=1, smin=100, smax=100, cmin=100, cmax=101, pairs=2, savefail=True,
                 pre=[[0, 0], [0, 0]], prel=[], flood=False, nsubs=0)
SHAPE_CFG["del"] = True

DESIGN = [("PonNteDesign", "MC_design.cfg", 2), ("PonNteShape", "MC_shape_fixed.cfg", 2)]
DESIGN_THOROUGH = [("PonNteDesign", "MC_design.cfg", 2), ("PonNteDesign", "MC_design_pairs.cfg", 2), ("PonNteDesign", "MC_design_seq.cfg", 2),
                   ("PonNteDesign", "MC_design_deep.cfg", 4), ("PonNteShape", "MC_shape_fixed.cfg", 2), ("PonNteShape", "MC_shape_fixed_deep.cfg", 4)]


def _design_counterexamples(work):
    """TLC on the design as found; returns (tlc result, [(clauses, events)]) - the shortest history per clause set."""
    sd = os.path.join(SPECS, SPEC_DIR)
    cfg = open(os.path.join(sd, "MC_shape_orig.cfg")).read()
    res = run_tlc(sd, "PonNteShape", cfg, work, workers=2, timeout=900, name="shape_orig")
    if "Model checking completed" not in res["out"] or "Error:" in res["out"]:
        raise Infra("PonNteShape (design as found) did not run to completion:\n" + res["out"][-2000:])
    best = {}
    for line in res["out"].splitlines():
        line = line.strip()
        if not line.startswith('<<"DESIGN-CEX"'):
            continue
        raw = line[line.index(',') + 1:].strip()
        raw = raw[1:raw.rindex('"')].replace('\\"', '"').replace("\\\\", "\\")
        j = json.loads(raw)
        key = tuple(sorted(j["clauses"]))
        evs = j["events"]
        if key not in best or (len(evs), json.dumps(evs, sort_keys=True)) < (len(best[key]), json.dumps(best[key], sort_keys=True)):
            best[key] = evs
    return res, [(list(k), v) for k, v in sorted(best.items())]


def _design_must_pass(work, module, cfgfile, workers):
    sd = os.path.join(SPECS, SPEC_DIR)
    res = run_tlc(sd, module, open(os.path.join(sd, cfgfile)).read(), work, workers=workers, timeout=1500, name=cfgfile[:-4])
    if "No error has been found" not in res["out"]:
        raise Infra("design spec %s/%s did not pass TLC (a specification problem, not a verdict):\n%s" % (module, cfgfile, res["out"][-3000:]))
    return dict(module=module, cfg=cfgfile, states=res["distinct"], transitions=res["generated"])


def runner(prop, fam, tier, seed, replay=None):
    t0 = time.time()
    pre = os.path.join(WORK, "%s-shape-%d" % (prop, os.getpid()))
    shutil.rmtree(pre, ignore_errors=True)
    os.makedirs(pre)
    try:
        fam2 = dict(fam)
        fam2.pop("runner", None)
        fam2["design"] = []   # run here, concurrently
        shape_info, design_stats, futures, pool = None, [], [], None
        if not replay:
            from concurrent.futures import ThreadPoolExecutor
            pool = ThreadPoolExecutor(max_workers=5)
            try:
                f0 = pool.submit(_design_counterexamples, pre)
                # U1 and the repaired design run in the background while the real code is explored
                futures = [pool.submit(_design_must_pass, pre, m, c, w) for (m, c, w) in (DESIGN_THOROUGH if tier == "thorough" else DESIGN)]
                res, cex = f0.result()
            except Infra as e:
                pool.shutdown(wait=True)
                print("INFRA-FAILURE property=%s %s" % (prop, str(e)[:3000]), flush=True)
                return 2
            cases = [dict(id="cex%d" % i, system="shape", events=evs, cfg=SHAPE_CFG, clauses=cl) for i, (cl, evs) in enumerate(cex)]
            cf = os.path.join(pre, "extra_cases.json")
            json.dump(dict(property=prop, cases=cases), open(cf, "w"))
            env = dict(fam2.get("env", {}))
            env["VERIF_EXTRA_CASES"] = cf
            fam2["env"] = env
            shape_info = dict(module="PonNteShape", cfg="MC_shape_orig.cfg", states=res["distinct"], transitions=res["generated"],
                              counterexamples=[dict(clauses=cl, events=evs) for cl, evs in cex],
                              note="counterexamples of the design as found; each is executed on the real manager as chain shape#cex<i> "
                                   "(a history that violates on the real code is reported through the normal VIOLATION / KNOWN-FINDING path)")
            log("design as found: %d counterexample histories (%s)" % (len(cex), "; ".join(",".join(c) for c, _ in cex)))
        try:
            rc = table_check(prop, fam2, tier, seed, replay)
        except Exception:   # a crash of the driver is never a verdict
            import traceback
            print("INFRA-FAILURE property=%s driver exception: %s" % (prop, traceback.format_exc()[-2000:]), flush=True)
            rc = 2
        if pool is not None:
            try:
                design_stats = [f.result() for f in futures]
            except Infra as e:
                print("INFRA-FAILURE property=%s %s" % (prop, str(e)[:3000]), flush=True)
                rc = 2
            finally:
                pool.shutdown(wait=True)
            for d in design_stats:
                log("design %s/%s: %d distinct states" % (d["module"], d["cfg"], d["states"]))
        if rc == 2:
            return 2
        if shape_info is not None:
            p = vcheck.evidence_path(prop)
            try:
                ev = json.load(open(p))
                ev["coverage"]["original_design_model"] = shape_info
                ev["coverage"]["design_runs"] = design_stats
                ev["coverage"]["states"] += shape_info["states"] + sum(d["states"] for d in design_stats)
                ev["coverage"]["transitions"] += shape_info["transitions"] + sum(d["transitions"] for d in design_stats)
                ev["wall_s"] = round(time.time() - t0, 2)
                tmp = p + ".tmp%d" % os.getpid()
                json.dump(ev, open(tmp, "w"), indent=1, sort_keys=True)
                os.replace(tmp, p)
            except Exception:
                pass
        return rc
    finally:
        shutil.rmtree(pre, ignore_errors=True)


CHECKS = {
    "X12": dict(
        runner=runner,
        pkg="./ponnte", test="TestExplore", spec_dir=SPEC_DIR, impl_module="PonNteImpl",
        design=DESIGN,
        watch=CLAUSES,
        cfg_extra="CONSTANT Soft = {%s}\nINVARIANT GhostTracks\n" % ", ".join('"%s"' % c for c in SOFT),
        impl_workers=4,
        assumptions=[
            "virtual time: every manager lives in its own testing/synctest bubble; the unit of time is DiscoveryRetryDelay (5 s); time advances only through "
            "the harness event `adv` (one delay), so every sleep of the retry loop starts and ends on the grid; after every harness action synctest.Wait lets "
            "the processor goroutine run until it is idle or asleep between two attempts",
            "the nexus.Store behind the real nexus.Client is the harness' in-memory store with the semantics of nexus.MemoryStore (a deletion is notified with a "
            "nil value, whether or not the key existed) except that watch notifications are delivered before Put/Delete return instead of on a fresh goroutine "
            "(deterministic histories; a crashing watcher is contained); its Put can be made to refuse NTE records (`mode 1`), which is how SaveNTE fails",
            "VLAN exhaustion comes from the real allocator with a small C-TAG range; a restart is modelled by records stored before the client starts, the "
            "allocator being primed with LoadFromStore(ListNTEs) as a careful integrator would (cmd/bng does not, see the notes in proposals/ponnte.json)",
            "a dropped discovery event is recognised by the warning HandleDiscovery logs (there is no return value and no counter); the channel's length and "
            "capacity are read by reflection; `flood` hands in capacity-minus-occupancy+2 events while the processor sleeps between two attempts",
            "in table extraction the harness hands in no further discovery while the channel already holds qmax events (reported as `noop`): the tables are closed "
            "relative to that bound; the random chains have no bound",
            "the deletion of an NTE record is issued through Client.DeleteNTE; the panic it causes on the tree as found is recovered on the harness' goroutine, "
            "the write lock it leaves on Manager.mu is released through reflection so that the instance can be shut down, and the history is reported as `Panic`",
            "fingerprint = all fields of the manager by reflection (including the Nexus client's caches and the VLAN allocator) + the store's records without "
            "their wall-clock fields + the events in the channel + the event the processor works on and for how long + the failure mode; adequacy re-checked on "
            "20 re-reached nodes per system",
            "the monitor walks past states whose only violations are PendingIsUnconfigured / ConnectedIsCurrent (they fire often on the tree as found and would "
            "otherwise hide what follows); every other violation ends the walk of that history",
            "ConnectedIsCurrent and PendingIsUnconfigured rest on the wording of the state / list comments (see proposals/ponnte.json); the code has no approval "
            "step, no auto-provisioning switch and releases nothing on a disconnect - nothing is demanded about those",
        ],
        explanation="PonNte.tla (contract, 7 sentences / 17 clauses) is model-checked against the guarantees stated over absolute histories (PonNteDesign: verdicts "
                    "coincide step by step); PonNteShape models manager.go by critical sections (design as found: TLC finds the disconnect overtaken by a queued or "
                    "retried discovery, the pending list that keeps a disconnected NTE and the crash on a deletion in Nexus; repaired design: clean). PonNteImpl walks "
                    "the transition tables extracted from the real Manager under virtual time (closed under the alphabet: unbounded-length verdict relative to alphabet, "
                    "channel bound and fingerprint), seeded random chains on larger configurations, and the design counterexamples replayed on the real code.",
    ),
}
