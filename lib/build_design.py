#!/usr/bin/env python3
"""Concatenate docsrc/*.md into DESIGN.md (the order below is the document's)."""
import os
d = os.path.join(os.path.dirname(os.path.dirname(os.path.abspath(__file__))), "docsrc")
order = ["part0", "sec1", "part2", "part3", "part4", "sec5", "sec6", "part7a", "part7b", "part7c", "sec8", "part9", "part10", "part11", "part12", "part13"]
out = []
for n in order:
    out.append(open(os.path.join(d, n + ".md")).read().rstrip("\n") + "\n")
import re
text = re.sub(r'(-{80,}\n)\n+(-{80,}\n)', r'\1', "\n".join(out))
open(os.path.join(os.path.dirname(d), "DESIGN.md"), "w").write(text)
print("DESIGN.md written:", sum(len(x) for x in out), "bytes")
