#!/usr/bin/env python3
"""Concatenate docsrc/*.md into DESIGN.md (the order below is the document's)."""
import os, functools
d = os.path.join(os.path.dirname(os.path.dirname(os.path.abspath(__file__))), "docsrc")
order = ["part0", "sec1", "part2", "part3", "part4", "sec5", "sec6", "part7a", "part7b", "part7c", "sec8", "part9", "part10", "part11", "part12", "part13"]
out = []
for n in order:
    out.append(open(os.path.join(d, n + ".md")).read().rstrip("\n") + "\n")
import re, json, glob, collections, subprocess
V = os.path.dirname(d)
kf = json.load(open(os.path.join(V, "known-findings.json")))
cnt = collections.Counter(re.search(r"property=(C\d+)", f).group(1) for f in kf["fixed"])
nfix = subprocess.check_output(["git", "-C", "/repo", "log", "--format=%s"]).decode().splitlines()
nfix = sum(1 for l in nfix if l.startswith("fix:"))
metas = [json.load(open(m)) for m in glob.glob(os.path.join(V, "seeded", "*", "meta.json"))]
subst = {"@@NKNOWN@@": str(len(kf["findings"])), "@@NFIX@@": str(nfix), "@@FIXCOUNTS@@": ", ".join("%s %d" % kv for kv in sorted(cnt.items())),
         "@@NSEED@@": str(len(metas)), "@@NNO@@": str(sum(1 for m in metas if m["evaluation"]["caught"] == "no")), "@@NSTR@@": str(sum(1 for m in metas if m["evaluation"]["caught"] == "after-strengthening"))}
out = [functools.reduce(lambda t, kv: t.replace(*kv), subst.items(), x) for x in out]
text = re.sub(r'(-{80,}\n)\n+(-{80,}\n)', r'\1', "\n".join(out))
open(os.path.join(os.path.dirname(d), "DESIGN.md"), "w").write(text)
print("DESIGN.md written:", sum(len(x) for x in out), "bytes")
