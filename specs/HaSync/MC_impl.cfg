SPECIFICATION Spec
CONSTANT Watch = {"AfterFullSyncEqual", "AppliedInPushOrder", "Convergence"}
INVARIANTS Report PhaseTracks
VIEW View
CHECK_DEADLOCK FALSE
