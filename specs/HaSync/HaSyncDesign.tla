---------------------------- MODULE HaSyncDesign ----------------------------
(***************************************************************************)
(* U1: the logical structure of property C13, model-checked.  The standby   *)
(* here is ANY implementation whose answers the contract accepts for the    *)
(* first two clauses (after a full sync its table is the active's snapshot; *)
(* each delivered change is the oldest outstanding one and is applied).     *)
(* Frame: the standby's table changes only in full-sync and delivery steps  *)
(* (an attachment may include one more full sync).                          *)
(* The third sentence of the property starts with "Consequently":           *)
(*                                                                         *)
(*   Window = FALSE  (no change on the active between the full-sync reply   *)
(*                   and the stream attachment):  Convergence is an         *)
(*                   invariant - it does follow from the first two clauses  *)
(*   Window = TRUE   changes may fall into that window: TLC must find a     *)
(*                   counterexample (the "consequently" needs the           *)
(*                   reconnect to be atomic, or the window to be closed by  *)
(*                   the protocol) - checked as an expected failure so the  *)
(*                   first result is not vacuous                            *)
(***************************************************************************)
EXTENDS HaSync

CONSTANTS NSess, MaxPend, Window

Cfg == [nsess |-> NSess]

VARIABLES act, sb, g
vars == <<act, sb, g>>

Obs(a, s, q) == [act |-> a, sb |-> s, inbox |-> Len(q)]

Edge(op, id, did, v, ok, none, m) ==
  [op |-> op, id |-> id, did |-> did, v |-> v, ok |-> ok, none |-> none, kind |-> m.k, mid |-> m.id, mv |-> m.v,
   middid |-> FALSE, midop |-> "", midid |-> 0, midv |-> 0, midhanded |-> FALSE]
NoMsg == [k |-> "", id |-> 0, v |-> 0]

\* a step is accepted iff the contract raises none of the first two clauses
Accept(e, a2, s2) ==
  LET g2 == Step(Cfg, g, e, Obs(a2, s2, g.pend)) IN
  /\ EdgeClauses(Cfg, g, e) = {}
  /\ NodeClauses(Cfg, g2, Obs(a2, s2, g2.pend), e.op) \cap {"AfterFullSyncEqual", "AppliedInPushOrder"} = {}
  /\ act' = a2 /\ sb' = s2 /\ g' = g2

Tables == [Ids(Cfg) -> 0..2]

Change1 ==
  /\ (Window \/ g.phase # "synced")
  /\ Len(g.pend) < MaxPend
  /\ \E i \in Ids(Cfg) :
       \/ act[i] = 0 /\ Accept(Edge("add", i, TRUE, 1, TRUE, FALSE, NoMsg), [act EXCEPT ![i] = 1], sb)
       \/ act[i] # 0 /\ Accept(Edge("update", i, TRUE, 3 - act[i], TRUE, FALSE, NoMsg), [act EXCEPT ![i] = 3 - act[i]], sb)
       \/ act[i] # 0 /\ Accept(Edge("delete", i, TRUE, 0, TRUE, FALSE, NoMsg), [act EXCEPT ![i] = 0], sb)

FullSync == g.phase = "down" /\ \E s2 \in Tables : Accept(Edge("fullsync", 0, FALSE, 0, TRUE, FALSE, NoMsg), act, s2)
Attach   == g.phase = "synced" /\ \E s2 \in {sb, act} : Accept(Edge("attach", 0, FALSE, 0, TRUE, FALSE, NoMsg), act, s2)
Cut      == g.phase # "down" /\ Accept(Edge("disconnect", 0, FALSE, 0, TRUE, FALSE, NoMsg), act, sb)
Deliver  == /\ g.phase = "streaming" /\ g.pend # <<>>
            /\ \E s2 \in Tables : Accept(Edge("deliver", 0, FALSE, 0, TRUE, FALSE, Head(g.pend)), act, s2)

Init == act = [i \in Ids(Cfg) |-> 0] /\ sb = [i \in Ids(Cfg) |-> 0] /\ g = G0(Cfg)
Next == Change1 \/ FullSync \/ Attach \/ Cut \/ Deliver
Spec == Init /\ [][Next]_vars

\* the third sentence
Convergence == g.phase = "streaming" /\ g.pend = <<>> => sb = act
=============================================================================
