---------------------------- MODULE HaSyncImpl ----------------------------
(***************************************************************************)
(* U2/U3: TLC walks the transition tables and chains EXTRACTED FROM THE     *)
(* REAL pkg/ha synchronisation code (bundle.json, written by harness/hasync: *)
(* real HASyncer pair, real HTTP handlers over loopback, the standby's own   *)
(* performFullSync / connectToStream / handleSSEData) with the HaSync        *)
(* contract as monitor: every clause at every step.                          *)
(***************************************************************************)
EXTENDS HaSync, Json, SequencesExt

CONSTANT Watch

Bundle == JsonDeserialize("bundle.json")
Systems == Bundle.systems

VARIABLES sys, node, g, viol, path, lastop
vars == <<sys, node, g, viol, path, lastop>>

Cfg(i)        == Systems[i].cfg
NodeOf(i, n)  == Systems[i].nodes[n]
EdgesOf(i, n) == Systems[i].edges[n]

Init == /\ sys \in 1..Len(Systems)
        /\ node = Systems[sys].init
        /\ g = G0(Cfg(sys))
        /\ lastop = "init"
        /\ viol = NodeClauses(Cfg(sys), g, NodeOf(sys, node), "init") \cap Watch
        /\ path = <<>>

\* the ghost's queue of outstanding changes is followed up to this length (a table can contain a cycle
\* on which an implementation keeps accepting changes without ever queueing them)
MaxPend == 8

Next == /\ viol = {}
        /\ Len(g.pend) <= MaxPend
        /\ \E k \in 1..Len(EdgesOf(sys, node)) :
             LET ed == EdgesOf(sys, node)[k]
                 e  == ed.ev
                 g2 == Step(Cfg(sys), g, e, NodeOf(sys, ed.to))
             IN /\ node' = ed.to
                /\ g' = g2
                /\ lastop' = e.op
                /\ viol' = (EdgeClauses(Cfg(sys), g, e) \cup NodeClauses(Cfg(sys), g2, NodeOf(sys, ed.to), e.op)) \cap Watch
                /\ path' = Append(path, ed.id)
                /\ UNCHANGED sys

Spec == Init /\ [][Next]_vars

Report == viol = {} \/ PrintT(<<"VIOLATION", ToJson([system |-> Systems[sys].name, clauses |-> viol, path |-> path])>>)

\* sanity of the binding: the ghost's phase is the phase the harness reports
PhaseTracks == g.phase = NodeOf(sys, node).phase

View == <<sys, node, g, viol>>
=============================================================================
