------------------------------- MODULE HaSync -------------------------------
(***************************************************************************)
(* Contract of the HA session synchronisation (property C13), seen from     *)
(* outside: the session tables of both nodes (GetAllSessions(), as          *)
(* id -> content version, 0 = absent), the changes the active pushed, the   *)
(* phase of the standby's reconnect cycle (down -> full sync -> stream      *)
(* attached), and the stream messages handed to the standby one at a time.  *)
(*                                                                         *)
(* clause              sentence of the property                             *)
(* ------------------  --------------------------------------------------  *)
(* AfterFullSyncEqual  "immediately after a completed full synchronisation  *)
(*                     the standby's session table equals the active's      *)
(*                     snapshot"                                            *)
(* AppliedInPushOrder  "every change pushed while the stream is connected   *)
(*                     is applied on the standby in push order"             *)
(* Convergence         "once the link is up and the active goes quiet, the  *)
(*                     standby holds exactly the active's sessions"         *)
(*                     (bounded-safety form: whenever the stream is         *)
(*                     attached and nothing pushed since the attachment is  *)
(*                     still under way, the two tables are equal)           *)
(*                                                                         *)
(* Weakest readings: a change pushed while the stream is attached creates   *)
(* an obligation only for as long as that attachment lasts (a cut stream    *)
(* voids it); messages the standby is handed that answer no such obligation *)
(* (e.g. a replay of older changes) are not judged; the snapshot of a full  *)
(* sync is the active's table at the moment the synchronous full-sync call  *)
(* was made (nothing else runs in between). A change pushed while an        *)
(* attachment is being set up, after the stream was registered, is owed on  *)
(* that stream; if the standby has already been handed it when the          *)
(* attachment completes (midhanded), nothing is under way and Convergence   *)
(* applies at once.                                                         *)
(***************************************************************************)
EXTENDS Integers, Sequences, FiniteSets, TLC

None == <<>>

\* cfg = [nsess]
Ids(cfg) == 1..cfg.nsess

\* a change = [k |-> "add"|"update"|"delete", id, v]   (v = content version, 0 for delete)
ApplyChange(t, c) == [t EXCEPT ![c.id] = IF c.k = "delete" THEN 0 ELSE c.v]

\* ghost g = [phase, pend, sb, expect, synced]
\*   phase   "down" | "synced" | "streaming"   the standby's reconnect cycle
\*   pend    changes pushed during the current attachment and not yet handed to the standby
\*   sb      the standby's table as last observed
\*   expect  None, or the table the standby must show after the step just taken
\*   synced  the step just taken was a completed full synchronisation
G0(cfg) == [phase |-> "down", pend |-> <<>>, sb |-> [i \in Ids(cfg) |-> 0], expect |-> None, synced |-> FALSE]

\* e = [op, id, did, v, ok, none, kind, mid, mv, ...]
\*   add/update/delete: did = the active's table changed and the change was pushed; v = new version
\*   deliver: none = the standby had no stream message to read; else kind/mid/mv describe the message
Change(e) == [k |-> e.op, id |-> e.id, v |-> e.v]
Msg(e)    == [k |-> e.kind, id |-> e.mid, v |-> IF e.kind = "delete" THEN 0 ELSE e.mv]

InPend(g, m) == \E i \in 1..Len(g.pend) : g.pend[i] = m

EdgeClauses(cfg, g, e) ==
  IF e.op = "deliver" /\ g.phase = "streaming"
    THEN IF e.none
           THEN (IF g.pend # <<>> THEN {"AppliedInPushOrder"} ELSE {})           \* a pushed change never arrived
           ELSE (IF g.pend # <<>> /\ Msg(e) # Head(g.pend) /\ InPend(g, Msg(e)) THEN {"AppliedInPushOrder"} ELSE {})  \* overtaken
    ELSE {}

Step(cfg, g, e, obs) ==
  LET base == [g EXCEPT !.sb = obs.sb, !.expect = None, !.synced = FALSE] IN
  CASE e.op \in {"add", "update", "delete"} ->
         IF e.did /\ g.phase = "streaming" THEN [base EXCEPT !.pend = Append(g.pend, Change(e))] ELSE base
    [] e.op = "fullsync" ->
         IF e.none THEN base
         ELSE IF e.ok THEN [base EXCEPT !.phase = "synced", !.synced = TRUE] ELSE base
    [] e.op = "attach" ->
         IF e.none THEN base
         ELSE IF e.ok THEN [base EXCEPT !.phase = "streaming",
                                        \* a change the active made and pushed while this attachment was being set up (after
                                        \* the stream was registered) is owed on this stream - unless the standby was handed
                                        \* it from the stream before the attachment was complete (midhanded): then nothing
                                        \* is under way any more and the Convergence clause judges the tables at once
                                        !.pend = IF e.middid /\ ~e.midhanded THEN <<[k |-> e.midop, id |-> e.midid, v |-> e.midv]>> ELSE <<>>]
              ELSE [base EXCEPT !.phase = "down", !.pend = <<>>]
    [] e.op = "disconnect" -> [base EXCEPT !.phase = "down", !.pend = <<>>]
    [] e.op = "deliver" ->
         IF e.none \/ g.phase # "streaming" THEN base
         ELSE IF g.pend # <<>> /\ Msg(e) = Head(g.pend)
                THEN [base EXCEPT !.pend = Tail(g.pend), !.expect = ApplyChange(g.sb, Head(g.pend))]
                ELSE base
    [] e.op = "quiesce" ->   \* end-to-end runs: the standby's own loop has the stream attached and a marker
                             \* change pushed after all others has been applied by the standby
         IF e.ok THEN [base EXCEPT !.phase = "streaming", !.pend = <<>>] ELSE [base EXCEPT !.phase = "down", !.pend = <<>>]
    [] e.op \in {"burst", "cut"} -> [base EXCEPT !.phase = "down", !.pend = <<>>]   \* end-to-end runs: nothing is claimed in between
    [] OTHER -> base

\* n = [act, sb, inbox, ...]  tables as sequences; inbox = stream messages received but not yet handed over
NodeClauses(cfg, g, n, lastop) ==
       (IF g.synced /\ n.sb # n.act THEN {"AfterFullSyncEqual"} ELSE {})
  \cup (IF g.expect # None /\ n.sb # g.expect THEN {"AppliedInPushOrder"} ELSE {})
  \cup (IF g.phase = "streaming" /\ g.pend = <<>> /\ n.inbox = 0 /\ n.sb # n.act THEN {"Convergence"} ELSE {})
=============================================================================
