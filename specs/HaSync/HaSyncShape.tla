----------------------------- MODULE HaSyncShape -----------------------------
(***************************************************************************)
(* Implementation-shaped design spec of pkg/ha/sync.go: the protocol as the *)
(* code runs it.                                                            *)
(*                                                                         *)
(*   Change(op,id)  session manager on the active: store mutation, then     *)
(*                  PushChange -> broadcastToClients: the change is queued  *)
(*                  ONLY on the channels of stream clients registered at    *)
(*                  that moment                                             *)
(*   FullSync       standby: GET /ha/sessions (snapshot = the active's      *)
(*                  table), performFullSync applies it: PutSession for      *)
(*                  every session of the snapshot - and nothing else        *)
(*   Attach         standby: GET /ha/sessions/stream; the active registers  *)
(*                  the client (fresh, empty channel)                       *)
(*   Deliver        one queued message reaches handleSSEData: add/update    *)
(*                  put, delete deletes                                     *)
(*   Cut            the stream breaks: the active unregisters the client,   *)
(*                  queued messages are gone                                *)
(*                                                                         *)
(* Fixed = FALSE is the design as found at the pinned commit; Fixed = TRUE   *)
(* is the design after the two repairs made in /repo: a full sync REPLACES   *)
(* the standby's table, and the standby takes one more full sync right after *)
(* its stream has been registered.  With Split = TRUE the attachment is two  *)
(* steps (register, then the post-attach full sync) and changes may fall in  *)
(* between; Split models are only verified, not replayed.                    *)
(*                                                                         *)
(* Every step is judged by the contract (HaSync.tla) exactly as             *)
(* HaSyncImpl judges the steps of the real code; violating states are        *)
(* printed as <<"DESIGN-CEX", json([clauses, events])>> with the history in  *)
(* the harness' alphabet and replayed on the real code by lib/fam_hasync.    *)
(***************************************************************************)
EXTENDS HaSync, Json

CONSTANTS NSess, Fixed, Split, MaxLen, MaxChan

Cfg == [impl |-> "shape", nsess |-> NSess, nsubs |-> 0]

VARIABLES act, sb, phase, reg, chan, mid, g, hist, bad
vars == <<act, sb, phase, reg, chan, mid, g, hist, bad>>
\* mid = TRUE between the two halves of a split attachment (not an observation point)

Zero == [i \in Ids(Cfg) |-> 0]

HEv(op, id) == [op |-> op, id |-> id]
Edge(op, id, did, v, ok, none, m) ==
  [op |-> op, id |-> id, did |-> did, v |-> v, ok |-> ok, none |-> none, kind |-> m.k, mid |-> m.id, mv |-> m.v,
   middid |-> FALSE, midop |-> "", midid |-> 0, midv |-> 0, midhanded |-> FALSE]
NoMsg == [k |-> "", id |-> 0, v |-> 0]
Obs(a, s, q) == [act |-> a, sb |-> s, inbox |-> Len(q)]

Take(hev, e, a2, s2, p2, r2, c2, m2) ==
  LET g2 == Step(Cfg, g, e, Obs(a2, s2, c2)) IN
  /\ act' = a2 /\ sb' = s2 /\ phase' = p2 /\ reg' = r2 /\ chan' = c2 /\ mid' = m2
  /\ g' = g2
  /\ hist' = Append(hist, hev)
  /\ bad' = EdgeClauses(Cfg, g, e) \cup (IF m2 THEN {} ELSE NodeClauses(Cfg, g2, Obs(a2, s2, c2), e.op))

Push(c) == IF reg THEN Append(chan, c) ELSE chan      \* broadcastToClients: registered clients only

ChangeOp(op, i) ==
  LET applicable == (op = "add" /\ act[i] = 0) \/ (op # "add" /\ act[i] # 0)
      v  == IF op = "add" THEN 1 ELSE IF op = "update" THEN 3 - act[i] ELSE 0
      a2 == [act EXCEPT ![i] = v]
      c  == [k |-> op, id |-> i, v |-> v]
  IN /\ applicable
     /\ Len(chan) < MaxChan
     /\ Take(HEv(op, i), Edge(op, i, TRUE, v, TRUE, FALSE, NoMsg), a2, sb, phase, reg, Push(c), mid)

\* performFullSync: puts only (original) / replaces the table (repaired)
SyncApply(s, snap) == IF Fixed THEN snap ELSE [i \in Ids(Cfg) |-> IF snap[i] # 0 THEN snap[i] ELSE s[i]]

FullSync ==
  /\ phase = "down"
  /\ Take(HEv("fullsync", 0), Edge("fullsync", 0, FALSE, 0, TRUE, FALSE, NoMsg), act, SyncApply(sb, act), "synced", reg, chan, FALSE)

Attach ==
  /\ phase = "synced" /\ ~mid
  /\ IF Fixed /\ ~Split
       THEN Take(HEv("attach", 0), Edge("attach", 0, FALSE, 0, TRUE, FALSE, NoMsg), act, SyncApply(sb, act), "streaming", TRUE, <<>>, FALSE)
       ELSE Take(HEv("attach", 0), Edge("attach", 0, FALSE, 0, TRUE, FALSE, NoMsg), act, sb, "streaming", TRUE, <<>>, Fixed /\ Split)

PostSync ==   \* second half of a split attachment (repaired design)
  /\ mid
  /\ Take(HEv("postsync", 0), Edge("postsync", 0, FALSE, 0, TRUE, FALSE, NoMsg), act, SyncApply(sb, act), phase, reg, chan, FALSE)

Cut ==
  /\ phase # "down" /\ ~mid
  /\ Take(HEv("disconnect", 0), Edge("disconnect", 0, FALSE, 0, TRUE, FALSE, NoMsg), act, sb, "down", FALSE, <<>>, FALSE)

Deliver ==
  /\ phase = "streaming" /\ ~mid
  /\ IF chan = <<>>
       THEN Take(HEv("deliver", 0), Edge("deliver", 0, FALSE, 0, TRUE, TRUE, NoMsg), act, sb, phase, reg, chan, FALSE)
       ELSE Take(HEv("deliver", 0), Edge("deliver", 0, FALSE, 0, TRUE, FALSE, Head(chan)), act, ApplyChange(sb, Head(chan)), phase, reg, Tail(chan), FALSE)

Init == /\ act = Zero /\ sb = Zero /\ phase = "down" /\ reg = FALSE /\ chan = <<>> /\ mid = FALSE
        /\ g = G0(Cfg) /\ hist = <<>> /\ bad = {}

Next == /\ bad = {}
        /\ Len(hist) < MaxLen
        /\ \/ \E op \in {"add", "update", "delete"}, i \in Ids(Cfg) : ChangeOp(op, i)
           \/ FullSync \/ Attach \/ PostSync \/ Cut \/ Deliver

Spec == Init /\ [][Next]_vars

Report == bad = {} \/ PrintT(<<"DESIGN-CEX", ToJson([clauses |-> bad, events |-> hist])>>)
Clean  == bad = {}

View == <<act, sb, phase, reg, chan, mid, g, bad>>
=============================================================================
