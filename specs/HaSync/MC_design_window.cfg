SPECIFICATION Spec
CONSTANTS NSess = 2  MaxPend = 3  Window = TRUE
INVARIANTS Convergence
CHECK_DEADLOCK FALSE
