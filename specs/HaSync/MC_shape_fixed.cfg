SPECIFICATION Spec
CONSTANTS NSess = 2  Fixed = TRUE  Split = FALSE  MaxLen = 1000  MaxChan = 3
INVARIANTS Clean
VIEW View
CHECK_DEADLOCK FALSE
