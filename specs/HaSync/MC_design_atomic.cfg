SPECIFICATION Spec
CONSTANTS NSess = 2  MaxPend = 3  Window = FALSE
INVARIANTS Convergence
CHECK_DEADLOCK FALSE
