SPECIFICATION Spec
CONSTANTS NSess = 2  Fixed = FALSE  Split = FALSE  MaxLen = 8  MaxChan = 2
INVARIANTS Report
VIEW View
CHECK_DEADLOCK FALSE
