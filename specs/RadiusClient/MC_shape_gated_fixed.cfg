SPECIFICATION Spec
CONSTANTS Kind = "gated"  N = 2  R = 3  Distinct = FALSE  AcctMA = FALSE  Fixed = TRUE  Atomic = FALSE  MaxLen = 12
INVARIANTS Clean Tracks
VIEW View
CHECK_DEADLOCK FALSE
