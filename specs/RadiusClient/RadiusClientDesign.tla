------------------------- MODULE RadiusClientDesign -------------------------
(***************************************************************************)
(* U1: the contract (RadiusClient.tla) is itself model-checked.  The        *)
(* contract judges one observed step at a time with a small ghost (the      *)
(* current server, one reference bucket per server).  Here an arbitrary     *)
(* environment produces EVERY possible step (any answer, accepted by the    *)
(* contract or not) and the contract's verdict is compared, step by step,   *)
(* with the guarantee stated directly over the whole history.               *)
(*                                                                         *)
(* Mode = "rate"  (one server, RequestsPerSecond = Rate, BurstSize = Burst)  *)
(*   every call k starts at st_k and returns after w_k (any w_k: the         *)
(*   environment is arbitrary); exchanges take no time, so the call was let  *)
(*   through at some instant a_k in [st_k, st_k + w_k].  Direct statement     *)
(*   over absolute times: the limit is respected iff instants a_k in those    *)
(*   intervals EXIST with, for all i <= j,                                    *)
(*        j - i + 1  <=  Burst + Rate * (a_j - a_i)                           *)
(*   ("in every interval of length T at most BurstSize + Rate*T calls").      *)
(*   AgreeRate : clause RateLimit is flagged for a call iff with that call    *)
(*               no such instants exist (as long as nothing was flagged       *)
(*               before) - the reference bucket of the contract is neither    *)
(*               weaker nor stronger than the sentence.                       *)
(*   NeedExact : the wait the contract computes (Need) is the shortest wait   *)
(*               after which the direct statement can still be met.           *)
(*                                                                         *)
(* Mode = "order"  (NS servers, R attempts, no limiter)                      *)
(*   the environment chooses the servers' behaviour and ANY sequence of      *)
(*   visible attempts and ANY result for every Authenticate / SendAccounting *)
(*   call.  Direct statement, as a walk through the server list told step by *)
(*   step (Walk: recursive, the way the sentence reads): start at the        *)
(*   current server; while the server tried gives no authentic answer and     *)
(*   attempts are left, go to the next configured one; the last server tried  *)
(*   becomes the current one; accounting tries the current server once and    *)
(*   moves nothing.                                                          *)
(*   AgreeOrder : the contract flags the call (ServerOrder / RetryBudget /    *)
(*                VerdictFollowsAnswer / AcceptOnlyAuthentic) iff the         *)
(*                observation differs from what the walk says an observer     *)
(*                sees (attempts at refusing servers are invisible) or the    *)
(*                result differs from the last server's answer.               *)
(*   CurAgrees  : as long as nothing was flagged the ghost's current server   *)
(*                is the walk's.                                              *)
(***************************************************************************)
EXTENDS RadiusClientEnv

CONSTANTS Mode, MaxT, Rate, Burst, NS, R

VARIABLES g, now, adm, flagged, last, wcur
vars == <<g, now, adm, flagged, last, wcur>>

(***************************************************************************)
(* Mode "rate"                                                              *)
(***************************************************************************)
RCfg == [impl |-> "design", kind |-> "client", nsrv |-> 1, retries |-> 1, timeout |-> 1000, limited |-> TRUE, rate |-> Rate, burst |-> Burst,
         ctxdl |-> 300, rt |-> FALSE, slack |-> 0, acctma |-> FALSE, distinct |-> FALSE, gated |-> FALSE, atpl |-> ATpl, ctpl |-> CTpl, nsubs |-> 0]

\* the window statement for admission instants sq (milliseconds): 1000 * (count - Burst) <= Rate * span
WindowOK(sq) == \A i \in 1..Len(sq) : \A j \in i..Len(sq) : 1000 * (j - i + 1 - Burst) <= Rate * (sq[j] - sq[i])

Waits == {0, 500, 1000}     \* a 500 ms grid keeps the existential below small

\* cs = <<[st, w]>>: instants inside the calls' intervals exist that respect the window statement
Direct(cs) == \E ds \in [1..Len(cs) -> Waits] :
                 /\ \A k \in 1..Len(cs) : ds[k] <= cs[k].w
                 /\ WindowOK([k \in 1..Len(cs) |-> cs[k].st + ds[k]])

RCall(w) ==   \* a call that returns after w ms, answered at once
  LET hev == HEv("auth", 1, 0, "", "", 0, 0)
  IN Edge(hev, "acc", <<AuthRec(1, 1, TRUE, RepliesOf("acc", 1, 1, "auth"))>>, w, [a |-> <<"acc">>, c |-> <<"ok">>], Var(1, 1), 0, 0, FALSE)

RateInit == /\ g = G0(RCfg) /\ now = 0 /\ adm = <<>> /\ flagged = FALSE /\ wcur = 1
            /\ last = [contract |-> FALSE, direct |-> FALSE, need |-> 0, earliest |-> 0]

RateNext ==
  /\ Len(adm) < MaxT /\ now < 4000 /\ ~flagged
  /\ \/ \E d \in {500, 1000} :
          LET e == Edge(HEv("adv", 0, 0, "", "", d, 0), "", <<>>, d, [a |-> <<"acc">>, c |-> <<"ok">>], 0, 0, 0, FALSE) IN
          /\ g' = Step(RCfg, g, e, [cur |-> 1])
          /\ now' = now + d
          /\ UNCHANGED <<adm, flagged, last, wcur>>
     \/ \E w \in Waits :
          LET e     == RCall(w)
              cl    == EdgeClauses(RCfg, g, e)
              adm2  == Append(adm, [st |-> now, w |-> w])
              early == CHOOSE x \in Waits :
                         /\ Direct(Append(adm, [st |-> now, w |-> x]))
                         /\ \A y \in Waits : y < x => ~Direct(Append(adm, [st |-> now, w |-> y]))
          IN /\ last' = [contract |-> "RateLimit" \in cl, direct |-> ~Direct(adm2), need |-> Need(RCfg, g), earliest |-> early]
             /\ flagged' = (cl # {})
             /\ g' = Step(RCfg, g, e, [cur |-> 1])
             /\ adm' = adm2
             /\ now' = now + w
             /\ UNCHANGED wcur

AgreeRate == Mode = "rate" => last.contract = last.direct
NeedExact == Mode = "rate" => last.need = last.earliest
NoOtherClause == Mode = "rate" => (flagged => last.contract)

(***************************************************************************)
(* Mode "order"                                                             *)
(***************************************************************************)
OCfg == [impl |-> "design", kind |-> "client", nsrv |-> NS, retries |-> R, timeout |-> 1000, limited |-> FALSE, rate |-> 1, burst |-> 1,
         ctxdl |-> 300, rt |-> FALSE, slack |-> 0, acctma |-> FALSE, distinct |-> FALSE, gated |-> FALSE, atpl |-> ATpl, ctpl |-> CTpl, nsubs |-> 0]
SS == 1..NS
OA == {"acc", "rej", "chal", "ref", "bad-ws"}
OC == {"ok", "ref", "odd"}
NoAnswerA == {"ref", "bad-ws"}
NoAnswerC == {"ref"}

\* the sentence, told as a walk: <<servers tried, in order>>
RECURSIVE Walk(_, _, _)
Walk(sv, left, am) ==
  IF am[sv] \in NoAnswerA /\ left > 1 THEN <<sv>> \o Walk((sv % NS) + 1, left - 1, am) ELSE <<sv>>

SeqsUpTo(n) == UNION {[1..k -> SS] : k \in 0..n}

OrderInit == /\ g = G0(OCfg) /\ now = 0 /\ adm = <<>> /\ flagged = FALSE /\ wcur = 1
             /\ last = [contract |-> FALSE, direct |-> FALSE]

OrderNext ==
  /\ now < MaxT /\ ~flagged
  /\ \/ \E am \in [SS -> OA], obs \in SeqsUpTo(R + 1), res \in {"acc", "rej", "err"} :
            LET cm == [sv \in SS |-> "ok"] IN
            LET hev   == HEv("auth", 1, 0, "", "", 0, 0)
                att   == [i \in 1..Len(obs) |-> AuthRec(obs[i], 1, TRUE, RepliesOf(am[obs[i]], obs[i], 1, "auth"))]
                goodv == \E i \in 1..Len(obs) : (res = "acc" /\ am[obs[i]] = "acc") \/ (res = "rej" /\ am[obs[i]] = "rej")
                e     == Edge(hev, res, att, 0, [a |-> am, c |-> cm], IF res = "acc" /\ goodv THEN Var(CHOOSE s \in SS : \E i \in 1..Len(obs) : obs[i] = s /\ am[s] = "acc", 1) ELSE 0,
                              IF res = "rej" /\ goodv THEN Var(CHOOSE s \in SS : \E i \in 1..Len(obs) : obs[i] = s /\ am[s] = "rej", 1) ELSE 0, 0, FALSE)
                cl    == EdgeClauses(OCfg, g, e)
                w     == Walk(wcur, R, am)
                wvis  == SelectSeq(w, LAMBDA s : am[s] # "ref")
                lastm == am[w[Len(w)]]
                wres  == IF lastm = "acc" THEN "acc" ELSE IF lastm = "rej" THEN "rej" ELSE "err"
            IN /\ last' = [contract |-> cl \cap {"ServerOrder", "RetryBudget", "VerdictFollowsAnswer", "AcceptOnlyAuthentic"} # {},
                           direct |-> obs # wvis \/ res # wres]
               /\ flagged' = (cl # {})
               /\ g' = Step(OCfg, g, e, [cur |-> 0])
               /\ wcur' = w[Len(w)]
               /\ now' = now + 1
               /\ UNCHANGED adm
     \/ \E cm \in [SS -> OC], obs \in SeqsUpTo(2), res \in {"ok", "err"} :
            LET am == [sv \in SS |-> "acc"] IN
            LET hev   == HEv("acct", 1, 0, "", "", 0, 0)
                att   == [i \in 1..Len(obs) |-> AcctRec(obs[i], 1, TRUE, RepliesOf(cm[obs[i]], obs[i], 1, "acct"))]
                e     == Edge(hev, res, att, 0, [a |-> am, c |-> cm], 0, 0, 0, FALSE)
                cl    == EdgeClauses(OCfg, g, e)
                wvis  == IF cm[wcur] = "ref" THEN <<>> ELSE <<wcur>>
                wres  == IF cm[wcur] = "ok" THEN "ok" ELSE "err"
            IN /\ last' = [contract |-> cl \cap {"ServerOrder", "RetryBudget", "VerdictFollowsAnswer", "AcceptOnlyAuthentic"} # {},
                           direct |-> obs # wvis \/ res # wres]
               /\ flagged' = (cl # {})
               /\ g' = Step(OCfg, g, e, [cur |-> 0])
               /\ now' = now + 1
               /\ UNCHANGED <<adm, wcur>>

AgreeOrder == Mode = "order" => last.contract = last.direct
CurAgrees  == (Mode = "order" /\ ~flagged) => g.cur = wcur
\* with every attribute and every protection in place no other clause ever fires in this environment
OnlyThose  == Mode = "order" => (flagged => last.contract)

Init == IF Mode = "rate" THEN RateInit ELSE OrderInit
Next == IF Mode = "rate" THEN RateNext ELSE OrderNext
Spec == Init /\ [][Next]_vars

View == vars
=============================================================================
