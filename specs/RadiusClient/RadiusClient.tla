---------------------------- MODULE RadiusClient ----------------------------
(***************************************************************************)
(* Contract of pkg/radius/client.go (radius.Client: NewClient,              *)
(* Authenticate, SendAccounting) - extra family X04, not one of the 20      *)
(* listed properties.                                                       *)
(*                                                                         *)
(* What the component is.  A thin RADIUS client on top of                   *)
(* layeh.com/radius: a list of servers with one "current" index             *)
(* (getServer / nextServer), one golang.org/x/time/rate limiter per server  *)
(* (waitRateLimit), request construction (attributes, User-Password hiding, *)
(* Message-Authenticator) and a retry loop around radius.Exchange, which    *)
(* opens one UDP socket per attempt, retransmits every second               *)
(* (radius.DefaultClient.Retry) until the attempt's context ends, drops     *)
(* replies that do not parse or whose Response Authenticator does not       *)
(* verify and gives up on the 10th such reply (MaxPacketErrors).  There is  *)
(* NO health / dead-server marking in this client: a server that failed is  *)
(* simply left behind by the rotation and comes up again when the rotation  *)
(* wraps round.  The observer of the contract sits on the wire (the         *)
(* scripted servers of harness/radiusclient) and at the API.                *)
(*                                                                         *)
(* clause                guarantee (source in the code / documentation)      *)
(* --------------------  -------------------------------------------------  *)
(* AcceptOnlyAuthentic   Authenticate reports Accepted (resp. a rejection    *)
(*                       with a nil error) only if, during this call, a      *)
(*                       server it had sent the request to delivered, from   *)
(*                       the address the request went to, an Access-Accept   *)
(*                       (resp. Access-Reject) whose Response Authenticator   *)
(*                       verifies against THIS request under the secret      *)
(*                       configured for that server; SendAccounting returns  *)
(*                       nil only after such an Accounting-Response.  No      *)
(*                       answer, a forged, replayed, wrong-secret or          *)
(*                       wrong-source reply, an Access-Challenge or any       *)
(*                       other code never yields a verdict  ["Authenticate    *)
(*                       sends an Access-Request and returns the response";   *)
(*                       ServerConfig.Secret; "access challenge not           *)
(*                       supported"; "unexpected RADIUS response code"]       *)
(* IdentifierMatch       ... and the Identifier of that reply is the          *)
(*                       request's (RFC 2865 section 3; judged apart, see     *)
(*                       below)                                               *)
(* VerdictFollowsAnswer  when the server the call ends up at answers          *)
(*                       authentically, the result is that answer (Accept ->  *)
(*                       Accepted, Reject -> not accepted and nil error,      *)
(*                       Accounting-Response -> nil), also when fewer than    *)
(*                       ten invalid replies arrive before it ("never flip    *)
(*                       the verdict"); an authentic Challenge / unexpected   *)
(*                       code ends the call with an error, without retry      *)
(* ResponseFaithful      the AuthResponse carries the Session-Timeout,        *)
(*                       Idle-Timeout, Framed-IP-Address, Filter-Id and Class *)
(*                       of the reply that was accepted, RejectReason the     *)
(*                       Reply-Message of the reject  [parseAuthAttributes]   *)
(* RequestFaithful       every datagram of a call is an Access-Request        *)
(*                       (Accounting-Request) carrying exactly the request    *)
(*                       given: User-Name, NAS-Identifier of the client,      *)
(*                       NAS-Port, NAS-Port-Type, Calling-Station-Id (the     *)
(*                       CallingID, else the MAC "uppercase with dashes",     *)
(*                       else none), Called-Station-Id; for accounting        *)
(*                       Acct-Status-Type, Acct-Session-Id, Framed-IP, Class, *)
(*                       the octet counters (gigawords for > 4 GB) / packets / *)
(*                       session time "for interim and stop", the terminate   *)
(*                       cause "for stop only"                                *)
(* RequestAuthentic      every datagram is protected for the server it is     *)
(*                       SENT TO: the Message-Authenticator ("adds RFC 2869   *)
(*                       Message-Authenticator") verifies under that server's *)
(*                       configured secret, the User-Password is hidden       *)
(*                       under it, the Request Authenticator of an            *)
(*                       Accounting-Request verifies (RFC 2866).  With        *)
(*                       cfg.acctma also: the Message-Authenticator of an     *)
(*                       Accounting-Request verifies (HMAC over the packet    *)
(*                       with a zero Request Authenticator, or over the       *)
(*                       packet as sent - either reading)                     *)
(* ServerOrder           the first attempt of a call goes to the current      *)
(*                       server (initially the first configured one);         *)
(*                       "Try next server on failure": a further attempt is   *)
(*                       made only after the previous one failed (no          *)
(*                       authentic answer) and goes to the next configured    *)
(*                       server, cyclically; nothing is sent after an         *)
(*                       authentic answer; the server last tried stays the    *)
(*                       current one; SendAccounting makes one attempt, to    *)
(*                       the current server's accounting port ("port +1"),    *)
(*                       and does not rotate                                  *)
(* RetryBudget           Authenticate makes at most Retries attempts          *)
(*                       (SendAccounting one); an attempt transmits at most   *)
(*                       1 + ceil(Timeout / 1 s) identical datagrams; the     *)
(*                       call returns within limiter wait + Retries x Timeout *)
(* WaitsTimeout          a server that stays silent is waited for during the  *)
(*                       whole Timeout before the attempt is given up         *)
(* RateLimit             "per-server rate limiter ... capping outbound        *)
(*                       request rate", RequestsPerSecond sustained,          *)
(*                       BurstSize burst: calls are let through no faster     *)
(*                       than a token bucket (BurstSize, RequestsPerSecond)   *)
(*                       of the current server allows, i.e. in every interval *)
(*                       of length T at most BurstSize + RequestsPerSecond*T  *)
(* CancelNoSend          "or returns an error if the context is canceled      *)
(*                       while waiting": a call whose context is done before  *)
(*                       the limiter lets it through returns an error and     *)
(*                       transmits nothing                                    *)
(* (ServerOrder, gated)  the same per call while several calls are in flight:  *)
(*                       the attempt after a failed one goes to the server    *)
(*                       configured after the one that just failed THIS call  *)
(* IdUnique              requests in flight to one server at the same time    *)
(*                       differ in (source address, Identifier); each call    *)
(*                       gets the verdict of the reply to ITS request         *)
(*                       (judged by the first three clauses per call)         *)
(*                                                                         *)
(* Weakest readings.  "Request" of the rate limit = one Authenticate /       *)
(* SendAccounting call (the retries of a call are not charged; recorded).    *)
(* The limiter charged is the current server's at the start of the call.     *)
(* Ten or more invalid replies within one attempt may fail the attempt       *)
(* (library constant), fewer may not change the outcome.  Retransmissions    *)
(* inside an attempt and the datagrams of later attempts may or may not      *)
(* reuse Identifier and Request Authenticator.  What a reply that arrives    *)
(* after its attempt ended does is not constrained (it reaches a closed      *)
(* socket).  Attempts at a server whose port is closed (ICMP port            *)
(* unreachable) are not seen by the observer; the contract infers them from  *)
(* the servers' scripted state (cfg of the step: e.modes), so the order      *)
(* clauses speak about the visible attempts.                                 *)
(*                                                                         *)
(* cfg  = [kind, nsrv, retries, timeout (ms), limited, rate (1/s), burst,     *)
(*         ctxdl (ms), rt, slack (ms), acctma, atpl, ctpl]                    *)
(*   rt      the system runs in real time (silent servers); time clauses are  *)
(*           then judged with cfg.slack and the bucket is not followed        *)
(*   atpl[t] = [pass, calling ("id"|"mac"|"none"), called]   request t        *)
(*   ctpl[t] = [status (1 start, 2 stop, 3 interim), mac, ip, class, cause]   *)
(* ghost g = [cur, tok]   cur = current server, tok[s] = milli-tokens of the  *)
(*           reference bucket of server s (the most permissive limiter)       *)
(* edge e  = [op, t, s, pk, m, dt, ctx, k,             (the event)            *)
(*            res, att, elapsed, modes, outvar, reason, calls, sent, held]    *)
(*   op      "auth" | "acct" | "mode" | "adv" | "par"                         *)
(*   ctx     "bg" | "done" (cancelled before the call) | "dl" (deadline       *)
(*           cfg.ctxdl)                                                       *)
(*   modes   [a |-> <<auth mode per server>>, c |-> <<acct mode per server>>] *)
(*           the servers' scripted behaviour during the step (environment)    *)
(*   att     visible attempts in order of arrival, each                       *)
(*           [srv, pk, ndg, same, code, user, pass, nasid, nasport, porttype, *)
(*            calling, called, ma, ra, maz, sid, status, ip, class, inoct,    *)
(*            outoct, inpkt, outpkt, stime, cause, replies]                   *)
(*           attribute fields: t = equals request t's value, 100+t = request  *)
(*           t's MAC in the documented format, 0 = absent, -1 = other         *)
(*           replies <<[kind, valid, idok, src, var]>> what the server sent   *)
(*   res     "acc" | "rej" | "ok" | "err"                                     *)
(* gated systems (cfg.gated; two call slots, every server keeps requests back  *)
(* until the harness decides): op "cstart" (slot e.c starts Authenticate; the  *)
(* step ends when its request is held at server e.hsrv), "cfail" (the held     *)
(* request of slot e.c is answered with ten invalid replies: the attempt       *)
(* fails; the step ends when the call's next request is held at e.hsrv or the  *)
(* call returned: e.done, e.res), "cans" (authentic Accept/Reject e.m).  The    *)
(* ghost keeps per slot fl[c] = [on, srv (where its request is), n (attempts)]. *)
(***************************************************************************)
EXTENDS Integers, FiniteSets, Sequences, TLC

Min2(a, b) == IF a < b THEN a ELSE b
Max2(a, b) == IF a > b THEN a ELSE b
SetMin(S) == CHOOSE x \in S : \A y \in S : x <= y
CeilDiv(a, b) == (a + b - 1) \div b

\* scripted behaviour of a server's authentication port
AuthFail == {"ref", "bad-ws", "bad-ra", "bad-st", "bad-gb", "sil", "osrc"}   \* the attempt ends without an authentic answer
AuthAcc  == {"acc", "nra-acc", "ngb-acc"}                                   \* (invalid replies, then) an authentic Access-Accept
AuthRej  == {"rej", "nws-rej", "nst-rej", "wid-rej"}                         \* (invalid replies, then) an authentic Access-Reject
\* "chal", "odd": an authentic Access-Challenge / Accounting-Response - an answer, but no verdict
AcctFail == {"ref", "bad-ws", "sil"}
AcctOk   == {"ok", "nws-ok"}
Silent   == {"sil", "osrc"}                                                   \* the attempt lasts the whole timeout

SrvAt(cfg, cur, k) == ((cur - 1 + (k - 1)) % cfg.nsrv) + 1
Cap(cfg) == cfg.burst * 1000

NextSrv(cfg, s) == (s % cfg.nsrv) + 1
Idle == [on |-> FALSE, srv |-> 0, n |-> 0]

G0(cfg) == [cur |-> 1, tok |-> [s \in 1..cfg.nsrv |-> Cap(cfg)], fl |-> <<Idle, Idle>>]

IsCall(e) == e.op \in {"auth", "acct"}

\* time the reference bucket of the current server needs before it holds one token
Need(cfg, g) == IF ~cfg.limited \/ g.tok[g.cur] >= 1000 THEN 0 ELSE CeilDiv(1000 - g.tok[g.cur], cfg.rate)

Admitted(cfg, g, e) == \/ e.ctx = "bg"
                       \/ e.ctx = "dl" /\ Need(cfg, g) <= cfg.ctxdl

Modes(e)   == IF e.op = "auth" THEN e.modes.a ELSE e.modes.c
Tries(cfg, e) == IF e.op = "auth" THEN cfg.retries ELSE 1
FailSet(e) == IF e.op = "auth" THEN AuthFail ELSE AcctFail

\* number of attempts the call makes: up to and including the first server that answers authentically
NAtt(cfg, g, e) ==
  LET ok == {k \in 1..Tries(cfg, e) : Modes(e)[SrvAt(cfg, g.cur, k)] \notin FailSet(e)}
  IN IF ok = {} THEN Tries(cfg, e) ELSE SetMin(ok)

LastSrv(cfg, g, e) == SrvAt(cfg, g.cur, NAtt(cfg, g, e))

Expected(cfg, g, e) ==
  LET lm == Modes(e)[LastSrv(cfg, g, e)] IN
  IF ~Admitted(cfg, g, e) THEN "err"
  ELSE IF e.op = "auth" THEN (IF lm \in AuthAcc THEN "acc" ELSE IF lm \in AuthRej THEN "rej" ELSE "err")
  ELSE (IF lm \in AcctOk THEN "ok" ELSE "err")

\* the attempts an observer on the wire sees among the first n of the call
Visible(cfg, g, e, n) ==
  LET sq == [k \in 1..n |-> SrvAt(cfg, g.cur, k)]
  IN SelectSeq(sq, LAMBDA s : Modes(e)[s] # "ref")

Replies(e) == UNION {{e.att[i].replies[j] : j \in 1..Len(e.att[i].replies)} : i \in 1..Len(e.att)}
GoodOf(r)  == r.valid /\ r.src
Want(res)  == IF res = "acc" THEN "accept" ELSE IF res = "rej" THEN "reject" ELSE "acctresp"

AuthReqOK(cfg, e, a) ==
  LET tp == cfg.atpl[e.t] IN
  /\ a.code = 1 /\ a.user = e.t /\ a.nasid = 1 /\ a.nasport = e.t /\ a.porttype = e.t
  /\ a.calling = (IF tp.calling = "id" THEN e.t ELSE IF tp.calling = "mac" THEN 100 + e.t ELSE 0)
  /\ a.called = (IF tp.called THEN e.t ELSE 0)
  /\ a.sid = 0 /\ a.status = 0 /\ a.ip = 0 /\ a.class = 0 /\ a.inoct = 0 /\ a.outoct = 0 /\ a.inpkt = 0 /\ a.outpkt = 0
  /\ a.stime = 0 /\ a.cause = 0

AcctReqOK(cfg, e, a) ==
  LET tp  == cfg.ctpl[e.t]
      cnt == tp.status \in {2, 3}
      V(b) == IF b THEN e.t ELSE 0
  IN
  /\ a.code = 4 /\ a.status = tp.status /\ a.sid = e.t /\ a.user = e.t /\ a.nasid = 1 /\ a.nasport = e.t
  /\ a.calling = (IF tp.mac THEN 100 + e.t ELSE 0)
  /\ a.ip = V(tp.ip) /\ a.class = V(tp.class)
  /\ a.inoct = V(cnt) /\ a.outoct = V(cnt) /\ a.inpkt = V(cnt) /\ a.outpkt = V(cnt) /\ a.stime = V(cnt)
  /\ a.cause = V(tp.status = 2 /\ tp.cause)
  /\ a.called = 0 /\ a.porttype = 0

AuthProtOK(cfg, e, a) == a.ma = 1 /\ a.ra = 1 /\ a.pass = (IF cfg.atpl[e.t].pass THEN e.t ELSE 0)
AcctProtOK(cfg, e, a) == a.ra = 1 /\ a.pass = 0 /\ (cfg.acctma => a.maz = 1)

CallClauses(cfg, g, e) ==
  LET adm   == Admitted(cfg, g, e)
      need  == Need(cfg, g)
      R     == Tries(cfg, e)
      m     == NAtt(cfg, g, e)
      vis   == IF adm THEN Visible(cfg, g, e, m) ELSE <<>>
      visf  == IF adm THEN Visible(cfg, g, e, R) ELSE <<>>
      exp   == Expected(cfg, g, e)
      obs   == [i \in 1..Len(e.att) |-> e.att[i].srv]
      A     == 1..Len(e.att)
      good(kind)  == \E r \in Replies(e) : r.kind = kind /\ GoodOf(r) /\ r.idok
      goodw(kind) == \E r \in Replies(e) : r.kind = kind /\ GoodOf(r) /\ ~r.idok
      verdict == e.res \in {"acc", "rej", "ok"}
      nsil  == Cardinality({k \in 1..m : Modes(e)[SrvAt(cfg, g.cur, k)] \in Silent})
      maxdg == 1 + CeilDiv(cfg.timeout, 1000)
      pkok  == \A i \in A : e.att[i].pk = e.op
  IN   (IF verdict /\ ~good(Want(e.res)) /\ ~goodw(Want(e.res)) THEN {"AcceptOnlyAuthentic"} ELSE {})
  \cup (IF verdict /\ ~good(Want(e.res)) /\ goodw(Want(e.res)) THEN {"IdentifierMatch"} ELSE {})
  \cup (IF adm /\ exp # "err" /\ e.res # exp THEN {"VerdictFollowsAnswer"} ELSE {})
  \cup (IF \/ e.res = "acc" /\ ~\E r \in Replies(e) : r.kind = "accept" /\ GoodOf(r) /\ r.var = e.outvar
           \/ e.res = "rej" /\ ~\E r \in Replies(e) : r.kind = "reject" /\ GoodOf(r) /\ r.var = e.reason
          THEN {"ResponseFaithful"} ELSE {})
  \cup (IF \E i \in A : ~(IF e.op = "auth" THEN AuthReqOK(cfg, e, e.att[i]) ELSE AcctReqOK(cfg, e, e.att[i]))
          THEN {"RequestFaithful"} ELSE {})
  \cup (IF \E i \in A : ~(IF e.op = "auth" THEN AuthProtOK(cfg, e, e.att[i]) ELSE AcctProtOK(cfg, e, e.att[i]))
          THEN {"RequestAuthentic"} ELSE {})
  \cup (IF adm /\ Len(obs) <= Len(visf) /\ (obs # vis \/ ~pkok) THEN {"ServerOrder"} ELSE {})
  \cup (IF \/ adm /\ Len(obs) > Len(visf)
           \/ \E i \in A : e.att[i].ndg > maxdg \/ ~e.att[i].same
           \/ adm /\ ~cfg.rt /\ e.elapsed > need + R * cfg.timeout
           \/ adm /\ cfg.rt /\ e.elapsed > R * cfg.timeout + cfg.slack
          THEN {"RetryBudget"} ELSE {})
  \cup (IF adm /\ cfg.rt /\ e.elapsed < nsil * cfg.timeout THEN {"WaitsTimeout"} ELSE {})
  \cup (IF adm /\ cfg.limited /\ ~cfg.rt /\ g.tok[g.cur] + cfg.rate * e.elapsed < 1000 THEN {"RateLimit"} ELSE {})
  \cup (IF ~adm /\ (e.res # "err" \/ Len(e.att) # 0 \/ (e.ctx = "dl" /\ e.elapsed > cfg.ctxdl)) THEN {"CancelNoSend"} ELSE {})

(***************************************************************************)
(* op = "par": several Authenticate calls at the same time, the server      *)
(* keeps every request back until all are there and then answers them in    *)
(* an order of its choice.                                                  *)
(*   calls <<[t, res, outvar, reason]>>    sent <<[user, kind, valid, var]>>  *)
(*   held  <<[srv, user, cls]>>  cls = class of (source address, Identifier)  *)
(***************************************************************************)
ParClauses(cfg, g, e) ==
  LET C == 1..Len(e.calls)
      S == 1..Len(e.sent)
      H == 1..Len(e.held)
      mine(i) == {j \in S : e.sent[j].user = e.calls[i].t /\ e.sent[j].valid}
      kindof(res) == IF res = "acc" THEN "accept" ELSE IF res = "rej" THEN "reject" ELSE "none"
  IN   (IF \E i \in C : e.calls[i].res \in {"acc", "rej"} /\ ~\E j \in mine(i) : e.sent[j].kind = kindof(e.calls[i].res)
          THEN {"AcceptOnlyAuthentic"} ELSE {})
  \cup (IF \E i \in C : \E j \in mine(i) : e.sent[j].kind \in {"accept", "reject"} /\ kindof(e.calls[i].res) # e.sent[j].kind
          THEN {"VerdictFollowsAnswer"} ELSE {})
  \cup (IF \E i \in C : \/ e.calls[i].res = "acc" /\ ~\E j \in mine(i) : e.sent[j].kind = "accept" /\ e.sent[j].var = e.calls[i].outvar
                        \/ e.calls[i].res = "rej" /\ ~\E j \in mine(i) : e.sent[j].kind = "reject" /\ e.sent[j].var = e.calls[i].reason
          THEN {"ResponseFaithful"} ELSE {})
  \cup (IF \E a \in H, b \in H : a # b /\ e.held[a].srv = e.held[b].srv /\ e.held[a].cls = e.held[b].cls THEN {"IdUnique"} ELSE {})
  \cup (IF Len(e.held) # Len(e.calls) \/ {e.held[j].user : j \in H} # {e.calls[i].t : i \in C} THEN {"RequestFaithful"} ELSE {})

(***************************************************************************)
(* gated systems                                                            *)
(***************************************************************************)
IsGated(e) == e.op \in {"cstart", "cfail", "cans"}
Applicable(g, e) == IF e.op = "cstart" THEN ~g.fl[e.c].on ELSE g.fl[e.c].on

GatedClauses(cfg, g, e) ==
  LET f == g.fl[e.c] IN
  IF ~Applicable(g, e) THEN {}
  ELSE IF e.op = "cstart" THEN (IF e.done \/ e.hsrv \notin 1..cfg.nsrv THEN {"ServerOrder"} ELSE {})
  ELSE IF e.op = "cfail" THEN
    (IF f.n < cfg.retries
       THEN (IF e.done \/ e.hsrv # NextSrv(cfg, f.srv) THEN {"ServerOrder"} ELSE {})
       ELSE (IF ~e.done THEN {"RetryBudget"} ELSE IF e.res # "err" THEN {"AcceptOnlyAuthentic"} ELSE {}))
  ELSE (IF ~e.done \/ e.res # e.m THEN {"VerdictFollowsAnswer"} ELSE {})

EdgeClauses(cfg, g, e) ==
  IF IsCall(e) THEN CallClauses(cfg, g, e)
  ELSE IF e.op = "par" THEN ParClauses(cfg, g, e)
  ELSE IF IsGated(e) THEN GatedClauses(cfg, g, e)
  ELSE {}

Refill(cfg, tok, dt) == [s \in 1..cfg.nsrv |-> Min2(Cap(cfg), tok[s] + cfg.rate * dt)]

Step(cfg, g, e, obs) ==
  IF e.op = "adv" THEN [g EXCEPT !.tok = IF cfg.limited /\ ~cfg.rt THEN Refill(cfg, g.tok, e.dt) ELSE g.tok]
  ELSE IF IsCall(e) THEN
    LET adm  == Admitted(cfg, g, e)
        need == Min2(Need(cfg, g), e.elapsed)
        t1   == Refill(cfg, g.tok, need)                                         \* up to the admission
        t2   == IF adm THEN [t1 EXCEPT ![g.cur] = Max2(0, @ - 1000)] ELSE t1
        t3   == Refill(cfg, t2, e.elapsed - need)                                \* rest of the call
    IN [g EXCEPT !.cur = IF adm /\ e.op = "auth" THEN LastSrv(cfg, g, e) ELSE g.cur,
                 !.tok = IF cfg.limited /\ ~cfg.rt THEN t3 ELSE g.tok]
  ELSE IF IsGated(e) /\ Applicable(g, e) THEN
    [g EXCEPT !.cur = obs.cur,       \* with calls in flight the current server is whatever the client says it is
              !.fl[e.c] = IF e.done THEN Idle
                          ELSE [on |-> TRUE, srv |-> e.hsrv, n |-> IF e.op = "cstart" THEN 1 ELSE g.fl[e.c].n + 1]]
  ELSE g

\* "the server last tried stays the current one", "SendAccounting does not rotate": the client's current index
\* (n.cur, read by reflection after the step) is where the next call will start
NodeClauses(cfg, g, n, lastop) == IF ~cfg.gated /\ n.cur # g.cur THEN {"ServerOrder"} ELSE {}
=============================================================================
