SPECIFICATION Spec
CONSTANTS Kind = "seq"  N = 2  R = 2  Distinct = TRUE  AcctMA = TRUE  Fixed = FALSE  Atomic = TRUE  MaxLen = 3
INVARIANTS Report Tracks
VIEW View
CHECK_DEADLOCK FALSE
