SPECIFICATION Spec
CONSTANTS Mode = "order"  MaxT = 2  Rate = 1  Burst = 1  NS = 3  R = 2
INVARIANTS AgreeOrder CurAgrees OnlyThose
VIEW View
CHECK_DEADLOCK FALSE
