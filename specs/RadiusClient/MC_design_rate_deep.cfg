SPECIFICATION Spec
CONSTANTS Mode = "rate"  MaxT = 5  Rate = 1  Burst = 2  NS = 1  R = 1
INVARIANTS AgreeRate NeedExact NoOtherClause
VIEW View
CHECK_DEADLOCK FALSE
