-------------------------- MODULE RadiusClientShape --------------------------
(***************************************************************************)
(* Implementation-shaped design spec of pkg/radius/client.go: one action    *)
(* per critical section / goroutine step of the real code, the scripted     *)
(* servers as environment.                                                  *)
(*                                                                         *)
(* Kind = "seq": one call at a time (the harness' sequential systems).       *)
(*   Mode(sv, pk, m)  the environment: a server port changes its behaviour   *)
(*   Auth(t)          Authenticate: getServer (c.mu) -> the packet is built   *)
(*                    ONCE, with the secret of the server that is current at  *)
(*                    that moment (radius.New(..., server.Secret), password   *)
(*                    hiding, addMessageAuthenticator) -> loop { Exchange:    *)
(*                    the library accepts the first reply whose Response      *)
(*                    Authenticator verifies under packet.Secret - it never   *)
(*                    compares the Identifier; on failure nextServer (c.mu),  *)
(*                    getServer (c.mu), same packet to the new address }      *)
(*   Acct(t)          SendAccounting: getServer, packet, addMessage-          *)
(*                    Authenticator (HMAC over packet.Encode(), which for an  *)
(*                    Accounting-Request already carries the MD5 Request      *)
(*                    Authenticator of the packet with a ZEROED Message-      *)
(*                    Authenticator - neither the zero field nor the final    *)
(*                    authenticator a verifier would use), one Exchange       *)
(* Kind = "gated": two calls in flight (the harness' gated systems).         *)
(*   CStart(c)        getServer (c.mu): the call's request is on its way      *)
(*   CFail(c)         its attempt fails: nextServer (c.mu: currentIdx++ on    *)
(*                    the SHARED index), then getServer (c.mu) - two          *)
(*                    critical sections; Atomic = TRUE takes them in one      *)
(*                    step (what the harness can schedule without a hook in   *)
(*                    /repo), Atomic = FALSE lets the other call's steps in   *)
(*                    between (CRot / CGet)                                   *)
(*   CAns(c, m)       an authentic answer: the call returns                   *)
(*                                                                         *)
(* Fixed = FALSE is the code as found.  Fixed = TRUE is the proposed repair:  *)
(* the packet is (re)built and signed for the server it is sent to on every   *)
(* attempt; a reply with a foreign Identifier is dropped like any other       *)
(* invalid reply; the accounting Message-Authenticator is computed over the   *)
(* packet with a zero Request Authenticator; every call walks the server list *)
(* with its OWN index (start = shared current index, +1 per failed attempt)   *)
(* and publishes it to the shared index when it got an answer.               *)
(*                                                                         *)
(* The spec carries the contract's ghost (RadiusClient.tla) and judges each   *)
(* of its own steps with EdgeClauses, exactly as RadiusClientImpl does with   *)
(* the steps of the real code.  Every violating state is printed as           *)
(*   <<"DESIGN-CEX", json([clauses, events, cfg])>>                          *)
(* where events is the history in the harness' alphabet;                      *)
(* lib/fam_radiusclient.py replays the shortest history per clause set on the *)
(* real client.                                                               *)
(***************************************************************************)
EXTENDS RadiusClientEnv, Json

CONSTANTS Kind, N, R, Distinct, AcctMA, Fixed, Atomic, MaxLen

ASSUME N \in 1..3 /\ R \in 1..4 /\ Kind \in {"seq", "gated"}

Cfg == [impl |-> "shape", kind |-> "client", nsrv |-> N, retries |-> R, timeout |-> 2500, limited |-> FALSE, rate |-> 1, burst |-> 1,
        ctxdl |-> 300, rt |-> FALSE, slack |-> 8000, acctma |-> AcctMA, distinct |-> Distinct, gated |-> (Kind = "gated"),
        atpl |-> ATpl, ctpl |-> CTpl, nsubs |-> 0]

S == 1..N
Secret(sv) == IF Distinct THEN sv ELSE 0
Nx(sv) == (sv % N) + 1

AModes == {"acc", "rej", "chal", "ref", "bad-ws", "nws-rej", "wid-rej"}
CModes == {"ok", "odd", "ref"}

VARIABLES s, g, hist, bad
vars == <<s, g, hist, bad>>

NoCall == [pc |-> "idle", srv |-> 0, n |-> 0, loc |-> 0]
S0 == [idx |-> 1, am |-> [sv \in S |-> IF Kind = "gated" THEN "hold" ELSE "acc"], cm |-> [sv \in S |-> "ok"], fl |-> <<NoCall, NoCall>>]

ModesOf(x) == [a |-> x.am, c |-> x.cm]

Take(hev, e, x) ==
  /\ s' = x
  /\ g' = Step(Cfg, g, e, [cur |-> x.idx])
  /\ hist' = Append(hist, hev)
  /\ bad' = EdgeClauses(Cfg, g, e) \cup NodeClauses(Cfg, Step(Cfg, g, e, [cur |-> x.idx]), [cur |-> x.idx], hev.op)

\* ---- radius.Exchange: which reply ends the attempt -----------------------------------------
\* sec = the secret the packet was built with (the library verifies replies with packet.Secret)
Accepts(r, sv, sec) == r.valid /\ r.kind # "garbage" /\ sec = Secret(sv) /\ (Fixed => r.idok)
FirstAcc(reps, sv, sec) ==
  LET I == {i \in 1..Len(reps) : Accepts(reps[i], sv, sec)} IN IF I = {} THEN 0 ELSE SetMin(I)

\* ---- Authenticate, one call at a time --------------------------------------------------------
RECURSIVE AuthLoop(_, _, _, _, _)
AuthLoop(k, idx, sec, t, atts) ==
  LET md    == s.am[idx]
      sec2  == IF Fixed THEN Secret(idx) ELSE sec
      reps  == RepliesOf(md, idx, t, "auth")
      atts2 == IF md = "ref" THEN atts ELSE Append(atts, AuthRec(idx, t, sec2 = Secret(idx), reps))
      i     == IF md = "ref" THEN 0 ELSE FirstAcc(reps, idx, sec2)
  IN IF i # 0 THEN [att |-> atts2, idx |-> idx, out |-> reps[i]]
     ELSE IF k < R THEN AuthLoop(k + 1, Nx(idx), sec2, t, atts2)
     ELSE [att |-> atts2, idx |-> idx, out |-> Rep("none", FALSE, FALSE, 0)]

Auth(t) ==
  LET hev == HEv("auth", t, 0, "", "", 0, 0)
      r   == AuthLoop(1, s.idx, Secret(s.idx), t, <<>>)
      res == IF r.out.kind = "accept" THEN "acc" ELSE IF r.out.kind = "reject" THEN "rej" ELSE "err"
      x   == [s EXCEPT !.idx = r.idx]
  IN Take(hev, Edge(hev, res, r.att, 0, ModesOf(s), IF res = "acc" THEN r.out.var ELSE 0, IF res = "rej" THEN r.out.var ELSE 0, 0, FALSE), x)

Acct(t) ==
  LET hev  == HEv("acct", t, 0, "", "", 0, 0)
      md   == s.cm[s.idx]
      reps == RepliesOf(md, s.idx, t, "acct")
      att  == IF md = "ref" THEN <<>> ELSE <<AcctRec(s.idx, t, Fixed, reps)>>
      i    == IF md = "ref" THEN 0 ELSE FirstAcc(reps, s.idx, Secret(s.idx))
      res  == IF i # 0 /\ reps[i].kind = "acctresp" THEN "ok" ELSE "err"
  IN Take(hev, Edge(hev, res, att, 0, ModesOf(s), 0, 0, 0, FALSE), s)

Mode(sv, pk, m) ==
  LET hev == HEv("mode", 0, sv, pk, m, 0, 0)
      x   == IF pk = "auth" THEN [s EXCEPT !.am[sv] = m] ELSE [s EXCEPT !.cm[sv] = m]
  IN /\ x # s
     /\ Take(hev, Edge(hev, "", <<>>, 0, ModesOf(x), 0, 0, 0, FALSE), x)

SeqNext == \/ \E t \in {1, 2} : Auth(t) \/ Acct(t)
           \/ \E sv \in S, m \in AModes : Mode(sv, "auth", m)
           \/ \E sv \in S, m \in CModes : Mode(sv, "acct", m)

\* ---- two calls in flight ---------------------------------------------------------------------
GEdge(hev, res, hsrv, done) == Edge(hev, res, <<>>, 0, ModesOf(s), 0, 0, hsrv, done)

CStart(c) ==
  LET hev == HEv("cstart", c, 0, "", "", 0, c)
      x   == [s EXCEPT !.fl[c] = [pc |-> "held", srv |-> s.idx, n |-> 1, loc |-> s.idx]]
  IN /\ s.fl[c].pc = "idle"
     /\ Take(hev, GEdge(hev, "", s.idx, FALSE), x)

\* nextServer + getServer in one step
CFail(c) ==
  LET hev == HEv("cfail", 0, 0, "", "", 0, c)
      f   == s.fl[c]
      ni  == IF Fixed THEN Nx(f.loc) ELSE Nx(s.idx)
      x   == IF f.n < R
               THEN [s EXCEPT !.idx = IF Fixed THEN s.idx ELSE ni, !.fl[c] = [pc |-> "held", srv |-> ni, n |-> f.n + 1, loc |-> ni]]
               ELSE [s EXCEPT !.fl[c] = NoCall]
  IN /\ Atomic
     /\ f.pc = "held"
     /\ Take(hev, GEdge(hev, IF f.n < R THEN "" ELSE "err", IF f.n < R THEN ni ELSE 0, f.n >= R), x)

\* ... or as the two critical sections they are
CRot(c) ==
  LET f == s.fl[c] IN
  /\ ~Atomic
  /\ f.pc = "held" /\ f.n < R
  /\ s' = [s EXCEPT !.idx = IF Fixed THEN s.idx ELSE Nx(s.idx), !.fl[c] = [f EXCEPT !.pc = "rot", !.loc = IF Fixed THEN Nx(f.loc) ELSE f.loc]]
  /\ UNCHANGED <<g, hist, bad>>

CGet(c) ==
  LET hev == HEv("cfail", 0, 0, "", "", 0, c)
      f   == s.fl[c]
      ni  == IF Fixed THEN f.loc ELSE s.idx
      x   == [s EXCEPT !.fl[c] = [pc |-> "held", srv |-> ni, n |-> f.n + 1, loc |-> ni]]
  IN /\ ~Atomic
     /\ f.pc = "rot"
     /\ Take(hev, GEdge(hev, "", ni, FALSE), x)

CGiveUp(c) ==
  LET hev == HEv("cfail", 0, 0, "", "", 0, c)
      f   == s.fl[c]
  IN /\ ~Atomic
     /\ f.pc = "held" /\ f.n >= R
     /\ Take(hev, GEdge(hev, "err", 0, TRUE), [s EXCEPT !.fl[c] = NoCall])

CAns(c, m) ==
  LET hev == HEv("cans", 0, 0, "", m, 0, c)
      f   == s.fl[c]
      x   == [s EXCEPT !.fl[c] = NoCall, !.idx = IF Fixed THEN f.loc ELSE s.idx]
  IN /\ f.pc = "held"
     /\ Take(hev, GEdge(hev, m, 0, TRUE), x)

GatedNext == \E c \in 1..2 : CStart(c) \/ CFail(c) \/ CRot(c) \/ CGet(c) \/ CGiveUp(c) \/ CAns(c, "acc") \/ CAns(c, "rej")

Init == s = S0 /\ g = G0(Cfg) /\ hist = <<>> /\ bad = {}

Next == /\ bad = {}
        /\ Len(hist) < MaxLen
        /\ IF Kind = "seq" THEN SeqNext ELSE GatedNext

Spec == Init /\ [][Next]_vars

Report == bad = {} \/ PrintT(<<"DESIGN-CEX", ToJson([clauses |-> bad, events |-> hist, cfg |-> Cfg, replayable |-> (Kind = "seq" \/ Atomic)])>>)
Clean  == bad = {}
\* the model's current index and the ghost's agree as long as nothing is flagged (sequential systems)
Tracks == (Kind = "seq" /\ bad = {}) => g.cur = s.idx

View == <<s, g, bad>>
=============================================================================
