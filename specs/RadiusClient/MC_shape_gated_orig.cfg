SPECIFICATION Spec
CONSTANTS Kind = "gated"  N = 2  R = 2  Distinct = FALSE  AcctMA = FALSE  Fixed = FALSE  Atomic = TRUE  MaxLen = 6
INVARIANTS Report Tracks
VIEW View
CHECK_DEADLOCK FALSE
