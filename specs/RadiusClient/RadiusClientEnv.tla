--------------------------- MODULE RadiusClientEnv ---------------------------
(***************************************************************************)
(* What the scripted servers of harness/radiusclient do and what a request  *)
(* of template t looks like on the wire, in the vocabulary of the contract  *)
(* (RadiusClient.tla).  Shared by the design specs (RadiusClientDesign,     *)
(* RadiusClientShape); the monitor does not use it.                         *)
(***************************************************************************)
EXTENDS RadiusClient

\* the request templates of harness/radiusclient/system.go (authTpl, acctTpl)
ATpl == << [pass |-> TRUE,  calling |-> "id",   called |-> TRUE],
           [pass |-> FALSE, calling |-> "mac",  called |-> FALSE],
           [pass |-> TRUE,  calling |-> "none", called |-> TRUE] >>
CTpl == << [status |-> 1, mac |-> TRUE,  ip |-> TRUE,  class |-> TRUE,  cause |-> FALSE],
           [status |-> 2, mac |-> FALSE, ip |-> FALSE, class |-> FALSE, cause |-> TRUE],
           [status |-> 3, mac |-> TRUE,  ip |-> TRUE,  class |-> FALSE, cause |-> TRUE] >>

\* attribute variant of the authentic replies of server sv to request t (peer.go: variantFor; User-Name "user-" + t digits)
Var(sv, t) == 1 + ((sv + 5 + t) % 2)

Rep(kind, valid, idok, v) == [kind |-> kind, valid |-> valid, idok |-> idok, src |-> TRUE, var |-> v]
Times(n, r) == [i \in 1..n |-> r]

\* what a server in mode md sends back for one datagram of request t on port kind pk (peer.go: script)
RepliesOf(md, sv, t, pk) ==
  LET v  == Var(sv, t)
      ok == IF pk = "auth" THEN "accept" ELSE "acctresp"
  IN CASE md \in {"acc", "ok"} -> <<Rep(ok, TRUE, TRUE, v)>>
       [] md = "rej"     -> <<Rep("reject", TRUE, TRUE, v)>>
       [] md = "chal"    -> <<Rep("challenge", TRUE, TRUE, v)>>
       [] md = "odd"     -> <<Rep(IF pk = "auth" THEN "acctresp" ELSE "accept", TRUE, TRUE, v)>>
       [] md \in {"bad-ws", "bad-ra", "bad-st"} -> Times(10, Rep(ok, FALSE, TRUE, v))
       [] md = "bad-gb"  -> Times(10, Rep("garbage", FALSE, TRUE, 0))
       [] md \in {"nws-rej", "nst-rej"} -> Times(3, Rep("accept", FALSE, TRUE, v)) \o <<Rep("reject", TRUE, TRUE, v)>>
       [] md = "nra-acc" -> Times(3, Rep("reject", FALSE, TRUE, v)) \o <<Rep("accept", TRUE, TRUE, v)>>
       [] md = "ngb-acc" -> Times(3, Rep("garbage", FALSE, TRUE, 0)) \o <<Rep("accept", TRUE, TRUE, v)>>
       [] md = "nws-ok"  -> Times(3, Rep("acctresp", FALSE, TRUE, v)) \o <<Rep("acctresp", TRUE, TRUE, v)>>
       [] md = "wid-rej" -> <<Rep("accept", TRUE, FALSE, v), Rep("reject", TRUE, TRUE, v)>>
       [] OTHER          -> <<>>

\* one visible attempt of Authenticate(request t) at server sv; prot = the packet is protected with sv's own secret
AuthRec(sv, t, prot, reps) ==
  [srv |-> sv, pk |-> "auth", ndg |-> 1, same |-> TRUE, code |-> 1, user |-> t,
   pass |-> IF ATpl[t].pass THEN (IF prot THEN t ELSE -1) ELSE 0,
   nasid |-> 1, nasport |-> t, porttype |-> t,
   calling |-> IF ATpl[t].calling = "id" THEN t ELSE IF ATpl[t].calling = "mac" THEN 100 + t ELSE 0,
   called |-> IF ATpl[t].called THEN t ELSE 0,
   ma |-> IF prot THEN 1 ELSE -1, ra |-> 1, maz |-> 0,
   sid |-> 0, status |-> 0, ip |-> 0, class |-> 0, inoct |-> 0, outoct |-> 0, inpkt |-> 0, outpkt |-> 0, stime |-> 0, cause |-> 0,
   replies |-> reps]

\* one visible attempt of SendAccounting(request t); maok = its Message-Authenticator verifies
AcctRec(sv, t, maok, reps) ==
  LET tp  == CTpl[t]
      cnt == tp.status \in {2, 3}
      V(b) == IF b THEN t ELSE 0
  IN
  [srv |-> sv, pk |-> "acct", ndg |-> 1, same |-> TRUE, code |-> 4, user |-> t, pass |-> 0,
   nasid |-> 1, nasport |-> t, porttype |-> 0, calling |-> IF tp.mac THEN 100 + t ELSE 0, called |-> 0,
   ma |-> 0, ra |-> 1, maz |-> IF maok THEN 1 ELSE -1,
   sid |-> t, status |-> tp.status, ip |-> V(tp.ip), class |-> V(tp.class),
   inoct |-> V(cnt), outoct |-> V(cnt), inpkt |-> V(cnt), outpkt |-> V(cnt), stime |-> V(cnt),
   cause |-> V(tp.status = 2 /\ tp.cause),
   replies |-> reps]

\* harness events carry the same fields for every op (radiusclient_test.go: cev)
HEv(op, t, sv, pk, m, dt, c) == [op |-> op, t |-> t, s |-> sv, pk |-> pk, m |-> m, dt |-> dt, ctx |-> "bg", k |-> 0, c |-> c]

\* an edge = the event plus what the step showed
Edge(hev, res, att, elapsed, modes, outvar, reason, hsrv, done) ==
  [op |-> hev.op, t |-> hev.t, s |-> hev.s, pk |-> hev.pk, m |-> hev.m, dt |-> hev.dt, ctx |-> hev.ctx, k |-> hev.k, c |-> hev.c,
   res |-> res, att |-> att, elapsed |-> elapsed, modes |-> modes, outvar |-> outvar, reason |-> reason,
   calls |-> <<>>, sent |-> <<>>, held |-> <<>>, hsrv |-> hsrv, done |-> done, skip |-> FALSE]
=============================================================================
