SPECIFICATION Spec
CONSTANTS Mode = "order"  MaxT = 2  Rate = 1  Burst = 1  NS = 2  R = 3
INVARIANTS AgreeOrder CurAgrees OnlyThose
VIEW View
CHECK_DEADLOCK FALSE
