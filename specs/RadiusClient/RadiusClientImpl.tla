-------------------------- MODULE RadiusClientImpl --------------------------
(***************************************************************************)
(* U2/U3: TLC walks the transition tables and chains EXTRACTED FROM THE     *)
(* REAL radius.Client of /repo (driven against scripted RADIUS servers on   *)
(* loopback UDP, under testing/synctest virtual time where no server is     *)
(* silent, in real time otherwise; bundle.json written by                   *)
(* harness/radiusclient) with the RadiusClient contract as monitor.  Tables *)
(* that are closed under their alphabet give a verdict for event sequences  *)
(* of any length over that alphabet.                                        *)
(***************************************************************************)
EXTENDS RadiusClient, Json, SequencesExt

CONSTANT Watch

Bundle == JsonDeserialize("bundle.json")
Systems == Bundle.systems

VARIABLES sys, node, g, viol, path, lastop
vars == <<sys, node, g, viol, path, lastop>>

Cfg(i)        == Systems[i].cfg
NodeOf(i, n)  == Systems[i].nodes[n]
EdgesOf(i, n) == Systems[i].edges[n]

Init == /\ sys \in 1..Len(Systems)
        /\ node = Systems[sys].init
        /\ g = G0(Cfg(sys))
        /\ lastop = "init"
        /\ viol = NodeClauses(Cfg(sys), g, NodeOf(sys, node), "init") \cap Watch
        /\ path = <<>>

Next == /\ viol = {}
        /\ \E k \in 1..Len(EdgesOf(sys, node)) :
             LET ed == EdgesOf(sys, node)[k]
                 e  == ed.ev
                 g2 == Step(Cfg(sys), g, e, NodeOf(sys, ed.to))
             IN /\ node' = ed.to
                /\ g' = g2
                /\ lastop' = e.op
                /\ viol' = (EdgeClauses(Cfg(sys), g, e) \cup NodeClauses(Cfg(sys), g2, NodeOf(sys, ed.to), e.op)) \cap Watch
                /\ path' = Append(path, ed.id)
                /\ UNCHANGED sys

Spec == Init /\ [][Next]_vars

Report == viol = {} \/ PrintT(<<"VIOLATION", ToJson([system |-> Systems[sys].name, clauses |-> viol, path |-> path])>>)

\* sanity of the binding: as long as nothing was flagged the ghost's current server is the client's currentIdx
\* (read by reflection), so the ghost follows the object it judges
GhostTracks == viol = {} => g.cur = NodeOf(sys, node).cur

View == <<sys, node, g, viol>>
=============================================================================
