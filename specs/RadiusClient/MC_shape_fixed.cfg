SPECIFICATION Spec
CONSTANTS Kind = "seq"  N = 2  R = 2  Distinct = TRUE  AcctMA = TRUE  Fixed = TRUE  Atomic = TRUE  MaxLen = 3
INVARIANTS Clean Tracks
VIEW View
CHECK_DEADLOCK FALSE
