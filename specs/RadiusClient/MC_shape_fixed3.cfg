SPECIFICATION Spec
CONSTANTS Kind = "seq"  N = 3  R = 4  Distinct = TRUE  AcctMA = TRUE  Fixed = TRUE  Atomic = TRUE  MaxLen = 2
INVARIANTS Clean Tracks
VIEW View
CHECK_DEADLOCK FALSE
