SPECIFICATION Spec
CONSTANT Watch = {"AcceptOnlyAuthentic", "IdentifierMatch", "VerdictFollowsAnswer", "ResponseFaithful", "RequestFaithful", "RequestAuthentic", "ServerOrder", "RetryBudget", "WaitsTimeout", "RateLimit", "CancelNoSend", "IdUnique"}
INVARIANTS Report GhostTracks
VIEW View
CHECK_DEADLOCK FALSE
