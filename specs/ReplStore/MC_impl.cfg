SPECIFICATION Spec
CONSTANT Watch = {"ReadYourWrites", "WriteAccepted", "QueryExact", "Stable", "WatchOnce", "WatchOnlyMatching", "HookOnce", "HookKind", "NoEcho", "RemoteVisible", "Isolation", "ConvergeOrdered", "ConvergeConcurrent", "ReadOnlyRefuses", "WriteNodeRule", "ClosedRejects", "NoEarlyInactive", "InactiveAfterTtl", "SelfNeverPruned", "PeersKnown"}
INVARIANTS Report
VIEW View
CHECK_DEADLOCK FALSE
