--------------------------- MODULE ReplStoreDesign ---------------------------
(***************************************************************************)
(* U1: the contract (ReplStore.tla) is itself model-checked.  The contract  *)
(* judges one observed step at a time with a small ghost (what each replica *)
(* holds, what is under way, a taint per key, capped peer ages).  Here an   *)
(* arbitrary environment produces steps with right and wrong answers and    *)
(* right and wrong observations, and the contract's verdict is compared,    *)
(* step by step, with the guarantees stated directly over the history kept  *)
(* in absolute terms:                                                       *)
(*                                                                         *)
(* Mode "repl" (two replicas, Put / Delete / Get / Query / apply the next   *)
(* announcement)                                                            *)
(*   L[r]   every write replica r applied, in order: key, value, and the    *)
(*          replica that made it                                            *)
(*   A[r]   every announcement replica r made (hook calls), in order: key,  *)
(*          value, and how many of the other's announcements r had applied  *)
(*          when it made it                                                 *)
(*   done[r] how many of the other's announcements r has applied (FIFO)     *)
(*   - Get / Query / the observation must show the value of the last write  *)
(*     of the key in L[r]; a change of the other replica that is concurrent *)
(*     with an announced write of r (r wrote the key without having seen    *)
(*     it) enters L[r] or not, as observed                                  *)
(*   - when done[1] = Len(A[2]) and done[2] = Len(A[1]) the replicas must   *)
(*     agree on every key; a key is "concurrent" iff the last announcement  *)
(*     of it by replica 1 and the last one by replica 2 were each made      *)
(*     before the other had been applied there (vector-clock concurrency)   *)
(* Mode "peers" (register / heartbeat / time)                                *)
(*   seen[i] the absolute time peer i registered / was last heard of        *)
(*   - listed active if now - seen <= ttl, not active if > ttl + sync       *)
(*                                                                         *)
(* Invariants: Agree (the contract flags a step iff the direct statement is *)
(* broken by it, with the same clause names), GhostTracks (the ghost is the *)
(* abstraction of the history), OrderedFollows (a divergence on a key       *)
(* without concurrent writes is impossible unless another clause is broken  *)
(* in the same step: ordered convergence is a theorem of the per-call       *)
(* clauses, given FIFO delivery), for as long as no earlier step was        *)
(* flagged.                                                                 *)
(***************************************************************************)
EXTENDS ReplStore

CONSTANTS Mode, MaxSteps, NK, NV

Cfg == IF Mode = "repl"
       THEN [impl |-> "design", nr |-> 2, nk |-> NK, np |-> 2, pk |-> <<[k \in 1..NK |-> TRUE], [k \in 1..NK |-> k = 1]>>,
             mode |-> <<"plain", "plain">>, hooks |-> <<<<"ins", "upd", "del">>, <<"ins", "upd", "del">>>>, gossip |-> TRUE,
             w0 |-> <<<<>>, <<>>>>, ttl |-> 0, sync |-> 0, npeer |-> 0]
       ELSE [impl |-> "design", nr |-> 1, nk |-> 1, np |-> 1, pk |-> <<<<TRUE>>>>, mode |-> <<"plain">>, hooks |-> <<<<>>>>, gossip |-> FALSE,
             w0 |-> <<<<>>>>, ttl |-> 2, sync |-> 1, npeer |-> 2]

VARIABLES g, steps, flagged, last, L, A, done, now, seen
vars == <<g, steps, flagged, last, L, A, done, now, seen>>

Judged == {"ReadYourWrites", "WriteAccepted", "QueryExact", "Stable", "HookOnce", "HookKind", "NoEcho", "RemoteVisible",
           "ConvergeOrdered", "ConvergeConcurrent", "NoEarlyInactive", "InactiveAfterTtl", "SelfNeverPruned", "PeersKnown",
           "WatchOnce", "WatchOnlyMatching"}

B(op, r, k, v) == [op |-> op, r |-> r, k |-> k, v |-> v, v2 |-> 0, p |-> 0, d |-> FALSE,
                   skip |-> FALSE, err |-> "", val |-> 0, res |-> <<>>, cbs |-> <<>>, hooks |-> <<>>, chg |-> FALSE, reg |-> FALSE, fin |-> 0, dt |-> 0]

\* ---- the history, read directly -----------------------------------------------------------------
LastIdx(s, k) == IF \E i \in 1..Len(s) : s[i].k = k THEN CHOOSE i \in 1..Len(s) : s[i].k = k /\ \A j \in (i + 1)..Len(s) : s[j].k # k ELSE 0
Content(r, k) == IF LastIdx(L[r], k) = 0 THEN 0 ELSE L[r][LastIdx(L[r], k)].v
BlameD(r, k)  == IF LastIdx(L[r], k) # 0 /\ L[r][LastIdx(L[r], k)].by # r THEN "RemoteVisible" ELSE "ReadYourWrites"
AllApplied    == done[1] = Len(A[2]) /\ done[2] = Len(A[1])
Concurrent(k) == LET i == LastIdx(A[1], k)  j == LastIdx(A[2], k)
                 IN i # 0 /\ j # 0 /\ A[1][i].saw < j /\ A[2][j].saw < i

\* announcement j of the other replica is concurrent with a write of r: r announced a write of that key without having seen it,
\* and it was made without having seen that write
Conflicting(r, j) == \E i \in 1..Len(A[r]) : A[r][i].k = A[3 - r][j].k /\ A[r][i].saw < j /\ A[3 - r][j].saw < i

RightHook(r, k, v) == IF v = 0 THEN <<[r |-> r, h |-> 3, k |-> k, v |-> 0]>>
                      ELSE <<[r |-> r, h |-> IF Content(r, k) # 0 THEN 2 ELSE 1, k |-> k, v |-> v]>>
SeqOfSet(S) == LET RECURSIVE F(_) F(T) == IF T = {} THEN <<>> ELSE LET m == CHOOSE x \in T : \A y \in T : x.k <= y.k IN <<m>> \o F(T \ {m}) IN F(S)
RightQuery(r, p) == SeqOfSet({[k |-> k, v |-> Content(r, k)] : k \in {j \in 1..NK : Content(r, j) # 0 /\ Cfg.pk[p][j]}})

\* ---- the edge universe (right and wrong answers) ---------------------------------------------------
ReplEdges ==
  UNION {
       UNION {{[B("put", r, k, v) EXCEPT !.err = er, !.hooks = hk, !.chg = TRUE] :
                   er \in {"", "other"}, hk \in {RightHook(r, k, v), <<>>, RightHook(r, k, v) \o RightHook(r, k, v)}} : k \in 1..NK, v \in 1..NV}
  \cup UNION {{[B("del", r, k, 0) EXCEPT !.hooks = hk, !.chg = TRUE] : hk \in {RightHook(r, k, 0), <<>>}} : k \in 1..NK}
  \cup UNION {{[B("get", r, k, 0) EXCEPT !.err = er, !.val = vl] : er \in {"", "notfound"}, vl \in {Content(r, k), (Content(r, k) % NV) + 1}} : k \in 1..NK}
  \cup UNION {{[B("query", r, 0, 0) EXCEPT !.p = p, !.res = rs] : rs \in {RightQuery(r, p), <<>>, RightQuery(r, p) \o RightQuery(r, p)}} : p \in 1..2}
  \cup {[B("rc", r, 0, 0) EXCEPT !.skip = done[r] = Len(A[3 - r]), !.hooks = hk] : hk \in {<<>>, <<[r |-> r, h |-> 1, k |-> 1, v |-> 1]>>}}
     : r \in 1..2}

PeerEdges ==
       {B("reg", 1, i, 0) : i \in 1..2}
  \cup {[B("hb", 1, i, 0) EXCEPT !.skip = seen[i] = -1] : i \in 1..2}
  \cup {[B("adv", 1, 0, 0) EXCEPT !.dt = 1]}

\* the writes a step applies / announces, per the documentation
Applies(e) ==
  IF e.op \in {"put", "del"} THEN <<[k |-> e.k, v |-> e.v, by |-> e.r]>>
  ELSE IF e.op = "rc" /\ ~e.skip THEN LET ch == A[3 - e.r][done[e.r] + 1] IN <<[k |-> ch.k, v |-> ch.v, by |-> 3 - e.r]>>
  ELSE <<>>
Announces(e) ==
  IF e.op = "put" \/ (e.op = "del" /\ (Content(e.r, e.k) # 0 \/ e.hooks # <<>>)) THEN <<[k |-> e.k, v |-> e.v, saw |-> done[e.r]]>> ELSE <<>>

\* ---- the direct statement -----------------------------------------------------------------------
DirectEdge(e) ==
  CASE e.op = "put" -> (IF e.err # "" THEN {"WriteAccepted"} ELSE {}) \cup (IF e.hooks # RightHook(e.r, e.k, e.v) THEN {"HookOnce"} ELSE {})
    [] e.op = "del" -> IF (Content(e.r, e.k) # 0 /\ e.hooks # RightHook(e.r, e.k, 0)) THEN {"HookOnce"} ELSE {}
    [] e.op = "get" -> IF Content(e.r, e.k) = 0 THEN (IF e.err # "notfound" THEN {BlameD(e.r, e.k)} ELSE {})
                       ELSE (IF e.err # "" \/ e.val # Content(e.r, e.k) THEN {BlameD(e.r, e.k)} ELSE {})
    [] e.op = "query" -> IF e.res # RightQuery(e.r, e.p) THEN {"QueryExact"} ELSE {}
    [] e.op = "rc" -> IF ~e.skip /\ e.hooks # <<>> THEN {"NoEcho"} ELSE {}
    [] OTHER -> {}

\* the observation d (replica -> key -> value) after the step, judged against the history as it is after the step
DirectNode(e, d, L2, A2, done2) ==
  LET cont(r, k) == IF LastIdx(L2[r], k) = 0 THEN 0 ELSE L2[r][LastIdx(L2[r], k)].v
      conc(k)    == LET i == LastIdx(A2[1], k)  j == LastIdx(A2[2], k) IN i # 0 /\ j # 0 /\ A2[1][i].saw < j /\ A2[2][j].saw < i
      all        == done2[1] = Len(A2[2]) /\ done2[2] = Len(A2[1])
  IN   (IF \E r \in 1..2, k \in 1..NK : d[r][k] # cont(r, k) THEN {ContentBlame(e.op)} ELSE {})
  \cup (IF all /\ \E k \in 1..NK : ~conc(k) /\ d[1][k] # d[2][k] THEN {"ConvergeOrdered"} ELSE {})
  \cup (IF all /\ \E k \in 1..NK : conc(k) /\ d[1][k] # d[2][k] THEN {"ConvergeConcurrent"} ELSE {})

DataSeq(d, r) == SeqOfSet({[k |-> k, v |-> d[r][k]] : k \in {j \in 1..NK : d[r][j] # 0}})

ReplNext ==
  \E e \in ReplEdges :
     LET ap0   == Applies(e)
         an    == Announces(e)
         isrc  == e.op = "rc" /\ ~e.skip
         confl == isrc /\ Conflicting(e.r, done[e.r] + 1)
         L0    == IF ap0 # <<>> THEN [L EXCEPT ![e.r] = @ \o ap0] ELSE L
         A2    == IF an # <<>> THEN [A EXCEPT ![e.r] = @ \o an] ELSE A
         done2 == IF isrc THEN [done EXCEPT ![e.r] = @ + 1] ELSE done
         right == [r \in 1..2 |-> [k \in 1..NK |-> IF LastIdx(L0[r], k) = 0 THEN 0 ELSE L0[r][LastIdx(L0[r], k)].v]]
         \* the observations offered: the right one and wrong ones (after a read: one wrong one)
         wrong == IF e.op \in {"get", "query"} THEN {[right EXCEPT ![1][1] = (@ + 1) % (NV + 1)]}
                  ELSE {[right EXCEPT ![r][k] = x] : r \in 1..2, k \in 1..NK, x \in 0..NV}
     IN \E d \in {right} \cup wrong :
          \* a change concurrent with a write of the receiver may be dropped by it: the history follows what is observed
          LET kept == confl /\ d[e.r][ap0[1].k] = Content(e.r, ap0[1].k)
              L2   == IF kept THEN L ELSE L0
              obs  == [data |-> <<DataSeq(d, 1), DataSeq(d, 2)>>, wn |-> <<TRUE, TRUE>>, peers |-> <<>>, active |-> <<>>]
              g2   == Step(Cfg, g, e, obs)
              cl   == (EdgeClauses(Cfg, g, e) \cup NodeClauses(Cfg, g2, obs, e.op)) \cap Judged
              dr   == DirectEdge(e) \cup DirectNode(e, d, L2, A2, done2)
          IN /\ last' = [contract |-> cl, direct |-> dr]
             /\ flagged' = (cl # {} \/ dr # {})
             /\ g' = g2 /\ L' = L2 /\ A' = A2 /\ done' = done2
             /\ UNCHANGED <<now, seen>>

\* ---- peers ---------------------------------------------------------------------------------------
SortInts(S) == LET RECURSIVE F(_) F(T) == IF T = {} THEN <<>> ELSE LET m == CHOOSE x \in T : \A y \in T : x <= y IN <<m>> \o F(T \ {m}) IN F(S)

PeerNext ==
  \E e \in PeerEdges, act \in SUBSET (0..2), extra \in {{}, {1}, {0, 2}} :
     LET t     == now + e.dt
         seen2 == IF e.op = "reg" THEN [seen EXCEPT ![e.k] = t]
                  ELSE IF e.op = "hb" /\ ~e.skip THEN [seen EXCEPT ![e.k] = t] ELSE seen
         peers == act \cup extra
         obs   == [data |-> <<<<>>>>, wn |-> <<TRUE>>, peers |-> SortInts(peers), active |-> SortInts(act)]
         g2    == Step(Cfg, g, e, obs)
         cl    == (EdgeClauses(Cfg, g, e) \cup NodeClauses(Cfg, g2, obs, e.op)) \cap Judged
         dr    == (IF \E i \in 1..2 : seen2[i] # -1 /\ t - seen2[i] <= Cfg.ttl /\ (i \notin act \/ i \notin peers) THEN {"NoEarlyInactive"} ELSE {})
             \cup (IF \E i \in 1..2 : seen2[i] # -1 /\ t - seen2[i] > Cfg.ttl + Cfg.sync /\ i \in act THEN {"InactiveAfterTtl"} ELSE {})
             \cup (IF 0 \notin act THEN {"SelfNeverPruned"} ELSE {})
             \cup (IF \E i \in peers : i # 0 /\ seen2[i] = -1 THEN {"PeersKnown"} ELSE {})
     IN /\ last' = [contract |-> cl, direct |-> dr]
        /\ flagged' = (cl # {} \/ dr # {})
        /\ g' = g2 /\ now' = t /\ seen' = seen2
        /\ UNCHANGED <<L, A, done>>

Next == /\ ~flagged
        /\ steps < MaxSteps
        /\ steps' = steps + 1
        /\ IF Mode = "repl" THEN ReplNext ELSE PeerNext

Init == /\ g = G0(Cfg) /\ steps = 0 /\ flagged = FALSE /\ last = [contract |-> {}, direct |-> {}]
        /\ L = <<<<>>, <<>>>> /\ A = <<<<>>, <<>>>> /\ done = <<0, 0>> /\ now = 0 /\ seen = <<-1, -1>>

Spec == Init /\ [][Next]_vars

Agree == last.contract = last.direct

\* a divergence on a key without concurrent writes never comes alone
OrderedFollows == "ConvergeOrdered" \in last.contract => last.contract \cap {"ReadYourWrites", "RemoteVisible", "Stable", "Isolation"} # {}

\* until a step is flagged the ghost is the abstraction of the history
GhostTracks ==
  flagged \/ IF Mode = "repl"
             THEN /\ \A r \in 1..2, k \in 1..NK : g.c[r][k] = Content(r, k)
                  /\ \A r \in 1..2 : g.q[r] = [i \in 1..(Len(A[3 - r]) - done[r]) |-> [k |-> A[3 - r][done[r] + i].k, v |-> A[3 - r][done[r] + i].v, x |-> Conflicting(r, done[r] + i)]]
                  /\ \A k \in 1..NK : (LastIdx(A[1], k) # 0 \/ LastIdx(A[2], k) # 0) => (g.t[k] = Concurrent(k))
             ELSE \A i \in 1..2 : g.age[i] = IF seen[i] = -1 THEN -1 ELSE Min2(now - seen[i], AgeCap(Cfg))

\* absolute time only grows: the view keeps it relative
View == <<g, steps, flagged, last, L, A, done, [i \in 1..2 |-> IF seen[i] = -1 THEN -1 ELSE Min2(now - seen[i], AgeCap(Cfg) + 1)]>>
=============================================================================
