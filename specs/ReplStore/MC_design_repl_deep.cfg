SPECIFICATION Spec
CONSTANTS Mode = "repl"  MaxSteps = 5  NK = 1  NV = 2
INVARIANTS Agree GhostTracks OrderedFollows
VIEW View
CHECK_DEADLOCK FALSE
