SPECIFICATION Spec
CONSTANTS Fixed = TRUE  Variant = "full"  MaxLen = 5
INVARIANTS Clean GhostTracks
VIEW View
CHECK_DEADLOCK FALSE
