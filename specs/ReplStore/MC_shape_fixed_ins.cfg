SPECIFICATION Spec
CONSTANTS Fixed = TRUE  Variant = "ins"  MaxLen = 5
INVARIANTS Clean GhostTracks
VIEW View
CHECK_DEADLOCK FALSE
