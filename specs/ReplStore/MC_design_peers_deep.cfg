SPECIFICATION Spec
CONSTANTS Mode = "peers"  MaxSteps = 9  NK = 1  NV = 2
INVARIANTS Agree GhostTracks OrderedFollows
VIEW View
CHECK_DEADLOCK FALSE
