SPECIFICATION Spec
CONSTANTS Fixed = FALSE  Variant = "ins"  MaxLen = 3
INVARIANTS Report
VIEW View
CHECK_DEADLOCK FALSE
