----------------------------- MODULE ReplStore -----------------------------
(***************************************************************************)
(* Contract of pkg/nexus' replicated key-value store: nexus.Store as        *)
(* implemented by MemoryStore (store.go), CLSetStore (clset.go: namespace,  *)
(* watchers, insert/update/delete hooks "for CLSet sync",                   *)
(* ApplyRemoteChange, peer registry with heartbeats) and DistributedStore   *)
(* (clset_store.go: modes memory / read / write).  Extra family X07: none   *)
(* of the 20 listed properties; the sentences below were formulated from    *)
(* the package's own comments (quoted), weakest reading.                    *)
(*                                                                         *)
(* The contract talks about what a user of the store sees: the answers of   *)
(* Get / Put / Delete / Query / Close, the calls of the callbacks it        *)
(* registered (Watch) and of the hooks it installed (SetInsertHook ...),    *)
(* the peers GetPeers / GetActivePeers list, IsWriteNode, and - for two     *)
(* replicas joined by the hooks of one and ApplyRemoteChange of the other   *)
(* (what "the CLSet sync mechanism" does with them) - what the replicas     *)
(* hold once everything announced has been applied.                         *)
(*                                                                         *)
(* S1 Store: "Get retrieves a value by key", "Put stores a value at the     *)
(*    given key", "Delete removes a value at the given key", ErrNotFound    *)
(*    "is returned when a key does not exist", "Query returns all key-value *)
(*    pairs matching the prefix" / "Return key without namespace prefix":   *)
(*    ReadYourWrites     Get returns the value of the last Put of that key  *)
(*                       through this store and ErrNotFound after its       *)
(*                       Delete / when it was never put (a remote change    *)
(*                       counts as a write, see S4)                         *)
(*    WriteAccepted      Put / Delete on a store that is open and not a     *)
(*                       read-only node return nil                          *)
(*    QueryExact         Query returns exactly the keys held that start     *)
(*                       with the prefix, each once, with the value Get     *)
(*                       would return, named as the user named them (no     *)
(*                       namespace)                                         *)
(*    Stable             a call that is not a write (Get, Query, Watch,     *)
(*                       peer bookkeeping, time passing) changes no key     *)
(* S2 "Watch registers a callback for changes matching the prefix" /        *)
(*    WatchCallback "is called when a watched key changes" / "Notify local  *)
(*    watchers", "Notify watchers about remote change":                     *)
(*    WatchOnce          a Put, a Delete of a key held and a remote change  *)
(*                       call every registered callback whose prefix is a   *)
(*                       prefix of the (user's) key exactly once, with that *)
(*                       key, the new value and the deleted flag            *)
(*    WatchOnlyMatching  no other callback is called: not one registered    *)
(*                       for another prefix, not with another key / value,  *)
(*                       not by a call that is no write, not on another     *)
(*                       replica                                            *)
(* S3 "Hooks for CLSet integration" / "Trigger hooks for CLSet sync" /      *)
(*    "SetInsertHook sets a callback for insert operations",                *)
(*    "SetUpdateHook ... for update operations", "SetDeleteHook ... for     *)
(*    delete operations":                                                   *)
(*    HookOnce           a successful local Put calls exactly one of the    *)
(*                       insert / update hooks installed for its kind (none *)
(*                       if that kind has no hook), a Delete of a key held  *)
(*                       calls the delete hook exactly once; the hook gets  *)
(*                       the namespaced key and the value                   *)
(*    HookKind           the insert hook is called only for a key that was  *)
(*                       not held, the update hook only for one that was    *)
(*    NoEcho             nothing but a local Put / Delete calls a hook: not *)
(*                       ApplyRemoteChange (the change would travel back),  *)
(*                       not a refused write, not a read                    *)
(* S4 "ApplyRemoteChange applies a change received from a remote peer" /    *)
(*    "Namespace isolates this store's data from other CRDT users" /        *)
(*    CLSetStore "provides eventual consistency across Nexus cluster        *)
(*    nodes":                                                               *)
(*    RemoteVisible      after a remote change for a key of this namespace  *)
(*                       Get / Query show it (value, or not found) - unless *)
(*                       it is concurrent with a write of this replica      *)
(*                       (this replica wrote the key without having seen    *)
(*                       it, and it was made without having seen that       *)
(*                       write): then they show the one or the other        *)
(*    Isolation          a remote change for a key of another namespace     *)
(*                       changes nothing this store's user can see and      *)
(*                       calls none of his callbacks                        *)
(*    ConvergeOrdered    two replicas whose announcements (hook calls, in   *)
(*                       the order made) were all applied by the other one  *)
(*                       in that order hold the same value for every key    *)
(*                       whose last writes on the two replicas were not     *)
(*                       concurrent (a write is concurrent with the other   *)
(*                       replica's if a change of that key by the other was *)
(*                       still under way to the writer)                     *)
(*    ConvergeConcurrent ... and also for the keys that were (the type's    *)
(*                       comment promises eventual consistency without      *)
(*                       qualification; NewCLSetStore says "in-memory       *)
(*                       implementation with sync stub" - separate clause)  *)
(* S5 StoreModeRead: "Writes: returns ErrReadOnlyNode" / "read nodes        *)
(*    receive updates but return ErrReadOnlyNode on writes" / IsWriteNode   *)
(*    "returns true if this node can perform writes":                       *)
(*    ReadOnlyRefuses    Put / Delete on a read node return ErrReadOnlyNode,*)
(*                       change nothing, call no callback and no hook       *)
(*    WriteNodeRule      IsWriteNode is true exactly on write nodes         *)
(* S6 "Close shuts down the store" (CLSetStore: "store closed",             *)
(*    `if c.closed { return nil }`):                                        *)
(*    ClosedRejects      after Close, Get / Put / Delete / Query return an  *)
(*                       error, change nothing and call nothing; a second   *)
(*                       Close returns nil                                  *)
(* S7 "PeerTTL is how long a peer is considered active without heartbeat" / *)
(*    "SyncInterval is how often to sync with peers" / "Register self as a  *)
(*    peer", "Don't prune self" / "UpdatePeerHeartbeat updates the last     *)
(*    seen time for a peer" / "GetActivePeers returns only active cluster   *)
(*    peers":                                                               *)
(*    NoEarlyInactive    a peer whose registration or last heartbeat is at  *)
(*                       most PeerTTL old is listed by GetPeers and by      *)
(*                       GetActivePeers                                     *)
(*    InactiveAfterTtl   a peer silent for more than PeerTTL + SyncInterval *)
(*                       (a sync round has passed since its time ran out)   *)
(*                       is not listed by GetActivePeers                    *)
(*    SelfNeverPruned    the store's own peer id is always listed active    *)
(*    PeersKnown         nobody is listed who was never registered          *)
(*                                                                         *)
(* Unconstrained: which of two concurrent writes of one key (made on        *)
(* different replicas, neither having seen the other) a replica keeps when  *)
(* the other's change arrives, and whether it then calls callbacks; whether *)
(* a Delete of a key not held / a remote delete of a key not held calls     *)
(* callbacks and the delete hook (at most once each);                       *)
(* the order in which callbacks of one change run; nil values; whether      *)
(* inactive peers stay in GetPeers; heartbeats of unknown peers; what       *)
(* ApplyRemoteChange does on a closed store; peers after Close; the instant *)
(* age = PeerTTL .. PeerTTL + SyncInterval; which of two overlapping Puts   *)
(* of one key wins (the value held afterwards is one of the two).           *)
(* Environment assumptions: announcements travel FIFO per direction and     *)
(* are applied once; time advances only between calls, in whole units.      *)
(***************************************************************************)
EXTENDS Integers, FiniteSets, Sequences, TLC

Range(s)   == {s[i] : i \in 1..Len(s)}
Min2(a, b) == IF a < b THEN a ELSE b

\* cfg = [impl, nr (replicas), nk (keys), np (prefixes), pk (prefix x key -> is it a prefix of it), mode (replica -> "plain" | "write" |
\*        "read"), hooks (replica -> sequence of "ins" | "upd" | "del"), gossip (the hooks of one replica feed the queue of the other),
\*        w0 (replica -> prefixes watched from the start), ttl, sync (units), npeer, ...]
\* ghost
\*   c[r][k]    the value replica r holds for key k (0: none)       src[r][k]  "l" / "r": the last write of it was local / remote
\*   q[r]       the changes announced by the other replica and not yet applied by r: <<[k, v, x]>>, v = 0 is a delete; x: r has itself
\*              written (and announced) key k since, without having seen this change - the two writes are concurrent, and the package
\*              does not say which of them r keeps
\*   w[r]       the prefixes of the callbacks registered on r, in order of registration (callback number = position)
\*   closed[r]  Close was called
\*   t[k]       the last write of key k was made on a replica while a change of k by the other one was still under way to it
\*   age[i]     units since peer i registered / was last heard of (-1: never registered), capped
Keys(cfg)  == 1..cfg.nk
Reps(cfg)  == 1..cfg.nr
AgeCap(cfg) == cfg.ttl + cfg.sync + 1

G0(cfg) == [c      |-> [r \in Reps(cfg) |-> [k \in Keys(cfg) |-> 0]],
            src    |-> [r \in Reps(cfg) |-> [k \in Keys(cfg) |-> "l"]],
            q      |-> [r \in Reps(cfg) |-> <<>>],
            w      |-> [r \in Reps(cfg) |-> cfg.w0[r]],
            closed |-> [r \in Reps(cfg) |-> FALSE],
            t      |-> [k \in Keys(cfg) |-> FALSE],
            age    |-> [i \in 1..cfg.npeer |-> -1]]

Other(r) == 3 - r
HasHook(cfg, r, h) == h \in Range(cfg.hooks[r])
InQ(q, k) == \E i \in 1..Len(q) : q[i].k = k

\* ---- S2: which callbacks a change of key k on replica r must reach --------------------------------
Matching(cfg, g, r, k) == {w \in 1..Len(g.w[r]) : cfg.pk[g.w[r][w]][k]}
Expected(cfg, g, r, k, v, d) == {[r |-> r, w |-> w, k |-> k, v |-> v, d |-> d] : w \in Matching(cfg, g, r, k)}

\* cbs: the callbacks that ran (a sequence, any order); E: the ones the sentence names; must: the change is one that must be notified
\* times: how many writes of that kind the call made (2 for two overlapping Puts)
WatchClauses(cbs, E, must) ==
       (IF Range(cbs) \ E # {} THEN {"WatchOnlyMatching"} ELSE {})
  \cup (IF must /\ E \ Range(cbs) # {} THEN {"WatchOnce"} ELSE {})
  \cup (IF Len(cbs) # Cardinality(Range(cbs)) THEN {"WatchOnce"} ELSE {})

\* ---- S3: hooks (h: 1 insert, 2 update, 3 delete) ---------------------------------------------------
HookClausesPut(cfg, g, e) ==
  LET was  == g.c[e.r][e.k] # 0
      want == IF was THEN (IF HasHook(cfg, e.r, "upd") THEN {[r |-> e.r, h |-> 2, k |-> e.k, v |-> e.v]} ELSE {})
              ELSE (IF HasHook(cfg, e.r, "ins") THEN {[r |-> e.r, h |-> 1, k |-> e.k, v |-> e.v]} ELSE {})
      wrongKind == \E i \in 1..Len(e.hooks) : (e.hooks[i].h = 1 /\ was) \/ (e.hooks[i].h = 2 /\ ~was)
  IN   (IF wrongKind THEN {"HookKind"} ELSE {})
  \cup (IF ~wrongKind /\ (Range(e.hooks) # want \/ Len(e.hooks) # Cardinality(want)) THEN {"HookOnce"} ELSE {})

HookClausesDel(cfg, g, e) ==
  LET was  == g.c[e.r][e.k] # 0
      want == IF HasHook(cfg, e.r, "del") THEN {[r |-> e.r, h |-> 3, k |-> e.k, v |-> 0]} ELSE {}
  IN IF \/ Range(e.hooks) \ want # {}
        \/ Len(e.hooks) > Cardinality(want)
        \/ (was /\ Len(e.hooks) # Cardinality(want))
     THEN {"HookOnce"} ELSE {}

Quiet(e, clW, clH) ==      \* a call that must reach no callback and no hook
       (IF e.cbs # <<>> THEN {clW} ELSE {})
  \cup (IF e.hooks # <<>> THEN {clH} ELSE {})

\* ---- the calls -----------------------------------------------------------------------------------
ReadBlame(g, r, k) == IF g.src[r][k] = "r" THEN "RemoteVisible" ELSE "ReadYourWrites"

WriteClauses(cfg, g, e) ==
  IF e.skip THEN {}
  ELSE IF g.closed[e.r] THEN
       (IF e.err = "" \/ e.chg THEN {"ClosedRejects"} ELSE {}) \cup Quiet(e, "ClosedRejects", "ClosedRejects")
  ELSE IF cfg.mode[e.r] = "read" THEN
       (IF e.err # "readonly" \/ e.chg THEN {"ReadOnlyRefuses"} ELSE {}) \cup Quiet(e, "ReadOnlyRefuses", "ReadOnlyRefuses")
  ELSE (IF e.err # "" THEN {"WriteAccepted"} ELSE {})
  \cup (IF e.op = "put" THEN WatchClauses(e.cbs, Expected(cfg, g, e.r, e.k, e.v, 0), TRUE) \cup HookClausesPut(cfg, g, e)
        ELSE WatchClauses(e.cbs, Expected(cfg, g, e.r, e.k, 0, 1), g.c[e.r][e.k] # 0) \cup HookClausesDel(cfg, g, e))

\* two Puts of one key on one replica that overlap: the second runs while the first is between its critical section and its hook
Put2Clauses(cfg, g, e) ==
  IF e.skip THEN {}
  ELSE (IF e.err # "" THEN {"WriteAccepted"} ELSE {})
  \cup (IF e.fin \notin {e.v, e.v2} THEN {"ReadYourWrites"} ELSE {})
  \cup WatchClauses(e.cbs, Expected(cfg, g, e.r, e.k, e.v, 0) \cup Expected(cfg, g, e.r, e.k, e.v2, 0), TRUE)
  \cup (IF \/ Len(e.hooks) # 2
           \/ {e.hooks[i].v : i \in 1..Len(e.hooks)} # {e.v, e.v2}
           \/ \E i \in 1..Len(e.hooks) : e.hooks[i].r # e.r \/ e.hooks[i].k # e.k \/ e.hooks[i].h \notin {1, 2}
        THEN {"HookOnce"} ELSE {})

GetClauses(cfg, g, e) ==
  IF g.closed[e.r] THEN (IF e.err = "" THEN {"ClosedRejects"} ELSE {})
  ELSE IF g.c[e.r][e.k] = 0 THEN (IF e.err # "notfound" THEN {ReadBlame(g, e.r, e.k)} ELSE {})
  ELSE (IF e.err # "" \/ e.val # g.c[e.r][e.k] THEN {ReadBlame(g, e.r, e.k)} ELSE {})

QueryClauses(cfg, g, e) ==
  IF g.closed[e.r] THEN (IF e.err = "" THEN {"ClosedRejects"} ELSE {})
  ELSE LET want == {[k |-> k, v |-> g.c[e.r][k]] : k \in {j \in Keys(cfg) : g.c[e.r][j] # 0 /\ cfg.pk[e.p][j]}}
       IN IF e.err # "" \/ Range(e.res) # want \/ Len(e.res) # Cardinality(want) THEN {"QueryExact"} ELSE {}

RemoteClauses(cfg, g, e) ==          \* "rc": replica e.r applies the oldest change under way to it
  IF e.skip THEN {}
  ELSE LET ch == Head(g.q[e.r]) IN
       WatchClauses(e.cbs, Expected(cfg, g, e.r, ch.k, ch.v, IF ch.v = 0 THEN 1 ELSE 0), ~ch.x /\ (ch.v # 0 \/ g.c[e.r][ch.k] # 0))
  \cup (IF e.hooks # <<>> THEN {"NoEcho"} ELSE {})

ForeignClauses(cfg, g, e) ==         \* "rf": a remote change for the same key string in another namespace
  IF e.skip THEN {}
  ELSE (IF e.cbs # <<>> \/ e.chg THEN {"Isolation"} ELSE {}) \cup (IF e.hooks # <<>> THEN {"NoEcho"} ELSE {})

EdgeClauses(cfg, g, e) ==
  CASE e.op \in {"put", "del"} -> WriteClauses(cfg, g, e)
    [] e.op = "put2"  -> Put2Clauses(cfg, g, e)
    [] e.op = "get"   -> GetClauses(cfg, g, e) \cup Quiet(e, "WatchOnlyMatching", "NoEcho") \cup (IF e.chg THEN {"Stable"} ELSE {})
    [] e.op = "query" -> QueryClauses(cfg, g, e) \cup Quiet(e, "WatchOnlyMatching", "NoEcho") \cup (IF e.chg THEN {"Stable"} ELSE {})
    [] e.op = "rc"    -> RemoteClauses(cfg, g, e)
    [] e.op = "rf"    -> ForeignClauses(cfg, g, e)
    [] e.op = "close" -> (IF e.err # "" THEN {"ClosedRejects"} ELSE {}) \cup Quiet(e, "WatchOnlyMatching", "NoEcho")
    [] OTHER          -> Quiet(e, "WatchOnlyMatching", "NoEcho") \cup (IF e.chg THEN {"Stable"} ELSE {})      \* watch, reg, hb, adv

\* ---- next ghost ----------------------------------------------------------------------------------
\* what observation n shows replica r to hold for key k (0: nothing)
HeldIn(n, r, k) == IF \E i \in 1..Len(n.data[r]) : n.data[r][i].k = k
                   THEN (CHOOSE x \in Range(n.data[r]) : x.k = k).v ELSE 0

Effective(cfg, g, e) == ~e.skip /\ ~g.closed[e.r] /\ cfg.mode[e.r] # "read"

\* the taint of key k after a write of it on replica r: the writer has not yet seen a change of k made by the other replica (whose
\* last write of k cannot have seen this one either); a write that has seen all of them settles the key
Taint(cfg, g, r, k) == cfg.nr = 2 /\ InQ(g.q[r], k)

\* the queues after r announced the changes chs of key k: they are under way to the other replica (concurrent with the other's
\* writes of k that r has not seen: x); the changes of k under way to r are now concurrent with a write of r
Announce(cfg, g, r, k, chs) ==
  IF cfg.gossip /\ cfg.nr = 2
  THEN [g.q EXCEPT ![Other(r)] = @ \o chs,
                   ![r] = [i \in 1..Len(@) |-> IF @[i].k = k THEN [@[i] EXCEPT !.x = TRUE] ELSE @[i]]]
  ELSE g.q

Step(cfg, g, e, obs) ==
  CASE e.op = "put" /\ Effective(cfg, g, e) ->
         [g EXCEPT !.c[e.r][e.k] = e.v, !.src[e.r][e.k] = "l", !.t[e.k] = Taint(cfg, g, e.r, e.k),
                   !.q = IF HasHook(cfg, e.r, IF g.c[e.r][e.k] # 0 THEN "upd" ELSE "ins") THEN Announce(cfg, g, e.r, e.k, <<[k |-> e.k, v |-> e.v, x |-> Taint(cfg, g, e.r, e.k)]>>) ELSE g.q]
    [] e.op = "del" /\ Effective(cfg, g, e) ->
         \* a Delete of a key not held is announced iff the delete hook was called (either is accepted)
         LET ann == HasHook(cfg, e.r, "del") /\ (g.c[e.r][e.k] # 0 \/ e.hooks # <<>>) IN
         [g EXCEPT !.c[e.r][e.k] = 0, !.src[e.r][e.k] = "l", !.t[e.k] = IF ann THEN Taint(cfg, g, e.r, e.k) ELSE @,
                   !.q = IF ann THEN Announce(cfg, g, e.r, e.k, <<[k |-> e.k, v |-> 0, x |-> Taint(cfg, g, e.r, e.k)]>>) ELSE g.q]
    [] e.op = "put2" /\ ~e.skip ->
         \* the value held afterwards is the one the implementation chose; the announcements travel in the order the hooks were called
         [g EXCEPT !.c[e.r][e.k] = e.fin, !.src[e.r][e.k] = "l", !.t[e.k] = Taint(cfg, g, e.r, e.k),
                   !.q = Announce(cfg, g, e.r, e.k, [i \in 1..Len(e.hooks) |-> [k |-> e.k, v |-> e.hooks[i].v, x |-> Taint(cfg, g, e.r, e.k)]])]
    [] e.op = "rc" /\ ~e.skip ->
         \* a change concurrent with a write of the receiver: the receiver may keep what it holds (read from the observation)
         LET ch   == Head(g.q[e.r])
             keep == ch.x /\ HeldIn(obs, e.r, ch.k) = g.c[e.r][ch.k]
         IN [g EXCEPT !.c[e.r][ch.k] = IF keep THEN @ ELSE ch.v, !.src[e.r][ch.k] = IF keep THEN @ ELSE "r", !.q[e.r] = Tail(@)]
    [] e.op = "watch" /\ e.reg -> [g EXCEPT !.w[e.r] = Append(@, e.p)]
    [] e.op = "close" -> [g EXCEPT !.closed[e.r] = TRUE]
    [] e.op = "reg" -> [g EXCEPT !.age[e.k] = 0]
    [] e.op = "hb" /\ ~e.skip -> [g EXCEPT !.age[e.k] = IF @ = -1 THEN -1 ELSE 0]
    [] e.op = "adv" -> [g EXCEPT !.age = [i \in DOMAIN g.age |-> IF g.age[i] = -1 THEN -1 ELSE Min2(g.age[i] + e.dt, AgeCap(cfg))]]
    [] OTHER -> g

\* ---- observations --------------------------------------------------------------------------------
\* n = [data (replica -> <<[k, v]>>: the keys of the namespace it holds), wn (replica -> IsWriteNode), peers, active (ids; 0 = self)]
Held(n, r, k) == HeldIn(n, r, k)

ContentBlame(lastop) ==
  CASE lastop \in {"put", "del", "put2"} -> "ReadYourWrites"
    [] lastop = "rc" -> "RemoteVisible"
    [] lastop = "rf" -> "Isolation"
    [] OTHER -> "Stable"

NodeClauses(cfg, g, n, lastop) ==
       (IF \E r \in Reps(cfg) : ~g.closed[r] /\ \E k \in Keys(cfg) : Held(n, r, k) # g.c[r][k] THEN {ContentBlame(lastop)} ELSE {})
  \cup (IF cfg.nr = 2 /\ cfg.gossip /\ g.q[1] = <<>> /\ g.q[2] = <<>> /\ ~g.closed[1] /\ ~g.closed[2] THEN
             (IF \E k \in Keys(cfg) : ~g.t[k] /\ Held(n, 1, k) # Held(n, 2, k) THEN {"ConvergeOrdered"} ELSE {})
        \cup (IF \E k \in Keys(cfg) : g.t[k] /\ Held(n, 1, k) # Held(n, 2, k) THEN {"ConvergeConcurrent"} ELSE {})
        ELSE {})
  \cup (IF \E r \in Reps(cfg) : cfg.mode[r] # "plain" /\ n.wn[r] # (cfg.mode[r] = "write") THEN {"WriteNodeRule"} ELSE {})
  \cup (IF cfg.npeer > 0 THEN
             (IF \E i \in 1..cfg.npeer : g.age[i] # -1 /\ g.age[i] <= cfg.ttl /\ (i \notin Range(n.active) \/ i \notin Range(n.peers)) THEN {"NoEarlyInactive"} ELSE {})
        \cup (IF \E i \in 1..cfg.npeer : g.age[i] > cfg.ttl + cfg.sync /\ i \in Range(n.active) THEN {"InactiveAfterTtl"} ELSE {})
        \cup (IF 0 \notin Range(n.active) \/ 0 \notin Range(n.peers) THEN {"SelfNeverPruned"} ELSE {})
        \cup (IF \E i \in Range(n.peers) \cup Range(n.active) : i # 0 /\ (i \notin 1..cfg.npeer \/ g.age[i] = -1) THEN {"PeersKnown"} ELSE {})
        ELSE {})

Soft == {}
=============================================================================
