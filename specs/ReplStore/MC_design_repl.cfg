SPECIFICATION Spec
CONSTANTS Mode = "repl"  MaxSteps = 4  NK = 1  NV = 1
INVARIANTS Agree GhostTracks OrderedFollows
VIEW View
CHECK_DEADLOCK FALSE
