--------------------------- MODULE ReplStoreShape ---------------------------
(***************************************************************************)
(* Implementation-shaped design spec of pkg/nexus/clset.go: one operator    *)
(* per critical section of the code, one action per harness step - and,     *)
(* for two overlapping Puts, one action per scheduling point.               *)
(*                                                                         *)
(*   PutCS(r, v)      Put, c.mu.Lock() .. Unlock(): `isUpdate :=             *)
(*                    c.data[fullKey] != nil; c.data[fullKey] = value`       *)
(*   HookOf(r, upd)   Put, after the unlock: `if isUpdate && c.onUpdate !=   *)
(*                    nil { onUpdate } else if c.onInsert != nil { onInsert }`*)
(*                    - the hook is what announces the change to the peer    *)
(*   Notify(r, ..)    notifyWatchers: every callback whose prefix matches,   *)
(*                    `go cb(key, value, deleted)`                           *)
(*   Delete           the same three parts (delete hook)                     *)
(*   ApplyRemote      ApplyRemoteChange: `delete(c.data, key)` /             *)
(*                    `c.data[key] = value` under the lock, then             *)
(*                    notifyWatchers(stripNamespace(key))                    *)
(*                                                                         *)
(* Two Puts of one key on one replica that overlap (PutStart, PutOverlap,   *)
(* PutFinish): the first has left its critical section and not yet reached  *)
(* its hook when the second runs from start to end - the schedule the       *)
(* harness produces on the real store by parking the first Put's goroutine  *)
(* at the entry of its hook (step put2).                                    *)
(*                                                                         *)
(* Fixed = FALSE is the design as found.  Fixed = TRUE is a proposed        *)
(* repair: the hook is chosen by kind alone; ApplyRemoteChange drops keys   *)
(* of other namespaces; the hooks are called inside the critical section    *)
(* (announcements leave in the order of application); every change carries  *)
(* a version (Lamport clock, replica) and a replica keeps the larger one    *)
(* (deletes leave a versioned tombstone).  The spec carries the contract's  *)
(* ghost (ReplStore.tla) and judges each of its own steps with EdgeClauses  *)
(* / NodeClauses exactly as ReplStoreImpl does with the steps of the real   *)
(* code.  Every violating state is printed as <<"DESIGN-CEX", json(clauses, *)
(* events)>> with events in the harness' alphabet; lib/fam_replstore        *)
(* replays the shortest history per clause set on the real stores.          *)
(***************************************************************************)
EXTENDS ReplStore, Json

CONSTANTS Fixed, Variant, MaxLen

Full == Variant = "full"
NR   == IF Full THEN 2 ELSE 1
QCap == 2
\* must describe the same configurations as SHAPE_DEFS in lib/fam_replstore.py
Cfg == [impl |-> "shape", nr |-> NR, nk |-> 1, np |-> 1, nv |-> 2, pk |-> <<<<TRUE>>>>,
        mode |-> [r \in 1..NR |-> "plain"],
        hooks |-> IF Full THEN <<<<"ins", "upd", "del">>, <<"ins", "upd", "del">>>> ELSE <<<<"ins", "del">>>>,
        gossip |-> Full, w0 |-> [r \in 1..NR |-> <<1>>], ttl |-> 0, sync |-> 0, npeer |-> 0, qcap |-> QCap, nsubs |-> 0]

VARIABLES s, g, hist, bad, pend
vars == <<s, g, hist, bad, pend>>

\* data[r]: the value replica r holds for the key (0: none); ver[r]: its version <<clock, replica>> (Fixed only); lc[r]: r's clock;
\* box[r]: the changes announced to r and not yet applied: [v, ver]
S0 == [data |-> [r \in 1..NR |-> 0], ver |-> [r \in 1..NR |-> <<0, 0>>], lc |-> [r \in 1..NR |-> 0], box |-> [r \in 1..NR |-> <<>>]]

Installed(r, h) == h \in Range(Cfg.hooks[r])
Newer(a, b) == a[1] > b[1] \/ (a[1] = b[1] /\ a[2] > b[2])

\* ---- critical sections --------------------------------------------------------------------------
\* Put / Delete, the part under c.mu: returns [st, upd (isUpdate), ver]
WriteCS(st, r, v) ==
  LET c == st.lc[r] + 1 IN
  [st  |-> IF Fixed THEN [st EXCEPT !.data[r] = v, !.ver[r] = <<c, r>>, !.lc[r] = c] ELSE [st EXCEPT !.data[r] = v],
   upd |-> st.data[r] # 0,
   ver |-> IF Fixed THEN <<c, r>> ELSE <<0, 0>>]

\* which hook Put calls (1 insert, 2 update, 0 none)
HookOf(r, upd) ==
  IF Fixed THEN (IF upd THEN (IF Installed(r, "upd") THEN 2 ELSE 0) ELSE (IF Installed(r, "ins") THEN 1 ELSE 0))
  ELSE IF upd /\ Installed(r, "upd") THEN 2 ELSE IF Installed(r, "ins") THEN 1 ELSE 0

\* the hook announces the change: it joins the other replica's box
Sent(st, r, v, ver) == IF Full THEN [st EXCEPT !.box[3 - r] = Append(@, [v |-> v, ver |-> ver])] ELSE st

HookRec(r, h, v) == [r |-> r, h |-> h, k |-> 1, v |-> v]
Cb(r, k, v, d)   == [r |-> r, w |-> 1, k |-> k, v |-> v, d |-> d]     \* every replica has one callback, for prefix ""

\* ---- the harness' projection of a step ------------------------------------------------------------
HEv(op, r, k, v, v2, d) == [op |-> op, r |-> r, k |-> k, v |-> v, v2 |-> v2, p |-> 0, d |-> d]
Base(hev) == [op |-> hev.op, r |-> hev.r, k |-> hev.k, v |-> hev.v, v2 |-> hev.v2, p |-> 0, d |-> hev.d,
              skip |-> FALSE, err |-> "", val |-> 0, res |-> <<>>, cbs |-> <<>>, hooks |-> <<>>, chg |-> FALSE, reg |-> FALSE, fin |-> 0, dt |-> 0]

NodeOfS(x) == [data |-> [r \in 1..NR |-> IF x.data[r] = 0 THEN <<>> ELSE <<[k |-> 1, v |-> x.data[r]]>>],
               wn |-> [r \in 1..NR |-> TRUE], peers |-> <<>>, active |-> <<>>]

Take(hev, e0, x) ==
  LET e  == [e0 EXCEPT !.chg = x.data # s.data]
      n  == NodeOfS(x)
      g2 == Step(Cfg, g, e, n)
  IN /\ s' = x
     /\ g' = g2
     /\ hist' = Append(hist, hev)
     /\ bad' = EdgeClauses(Cfg, g, e) \cup NodeClauses(Cfg, g2, n, hev.op)
     /\ pend' = <<>>

RoomFor(r, n) == IF Full THEN Len(s.box[3 - r]) + n <= QCap ELSE TRUE

\* ---- one harness step = one call, run from start to end ---------------------------------------------
Put(r, v) ==
  /\ pend = <<>> /\ RoomFor(r, 1)
  /\ LET hev == HEv("put", r, 1, v, 0, FALSE)
         cs  == WriteCS(s, r, v)
         h   == HookOf(r, cs.upd)
         x   == IF h # 0 THEN Sent(cs.st, r, v, cs.ver) ELSE cs.st
     IN Take(hev, [Base(hev) EXCEPT !.hooks = IF h # 0 THEN <<HookRec(r, h, v)>> ELSE <<>>, !.cbs = <<Cb(r, 1, v, 0)>>], x)

Del(r) ==
  /\ pend = <<>> /\ RoomFor(r, 1)
  /\ LET hev == HEv("del", r, 1, 0, 0, FALSE)
         cs  == WriteCS(s, r, 0)
         x   == IF Installed(r, "del") THEN Sent(cs.st, r, 0, cs.ver) ELSE cs.st
     IN Take(hev, [Base(hev) EXCEPT !.hooks = IF Installed(r, "del") THEN <<HookRec(r, 3, 0)>> ELSE <<>>, !.cbs = <<Cb(r, 1, 0, 1)>>], x)

\* ApplyRemoteChange with the oldest announced change
Rc(r) ==
  /\ pend = <<>> /\ Full /\ s.box[r] # <<>>
  /\ LET hev == HEv("rc", r, 0, 0, 0, FALSE)
         ch  == Head(s.box[r])
         acc == ~Fixed \/ Newer(ch.ver, s.ver[r])
         x   == [s EXCEPT !.box[r] = Tail(@),
                          !.data[r] = IF acc THEN ch.v ELSE @,
                          !.ver[r] = IF Fixed /\ acc THEN ch.ver ELSE @,
                          !.lc[r] = IF Fixed /\ ch.ver[1] > @ THEN ch.ver[1] ELSE @]
     IN Take(hev, [Base(hev) EXCEPT !.cbs = IF acc THEN <<Cb(r, 1, ch.v, IF ch.v = 0 THEN 1 ELSE 0)>> ELSE <<>>], x)

\* ApplyRemoteChange with a key of another namespace ("zz/a"): stripNamespace leaves it as it is, the callback for prefix "" matches it
Rf(r, del) ==
  /\ pend = <<>>
  /\ LET hev == HEv("rf", r, 1, IF del THEN 0 ELSE 1, 0, del)
     IN Take(hev, [Base(hev) EXCEPT !.cbs = IF Fixed THEN <<>> ELSE <<Cb(r, 0, IF del THEN 0 ELSE 1, IF del THEN 1 ELSE 0)>>], s)

\* ---- two overlapping Puts (values 1 and 2) on replica 1 -----------------------------------------------
PutStart ==
  /\ pend = <<>> /\ Full /\ RoomFor(1, 2) /\ Len(hist) < MaxLen
  /\ LET cs == WriteCS(s, 1, 1)
         h  == HookOf(1, cs.upd)
     IN /\ s' = IF Fixed /\ h # 0 THEN Sent(cs.st, 1, 1, cs.ver) ELSE cs.st        \* Fixed: the hook runs inside the critical section
        /\ pend' = <<[h1 |-> h, ver1 |-> cs.ver, second |-> FALSE, hooks |-> IF Fixed /\ h # 0 THEN <<HookRec(1, h, 1)>> ELSE <<>>, s0 |-> s.data]>>
        /\ UNCHANGED <<g, hist, bad>>

PutOverlap ==
  /\ pend # <<>> /\ ~pend[1].second
  /\ LET cs == WriteCS(s, 1, 2)
         h  == HookOf(1, cs.upd)
     IN /\ s' = IF h # 0 THEN Sent(cs.st, 1, 2, cs.ver) ELSE cs.st
        /\ pend' = <<[pend[1] EXCEPT !.second = TRUE, !.hooks = IF h # 0 THEN Append(@, HookRec(1, h, 2)) ELSE @]>>
        /\ UNCHANGED <<g, hist, bad>>

PutFinish ==
  /\ pend # <<>> /\ pend[1].second
  /\ LET hev == HEv("put2", 1, 1, 1, 2, FALSE)
         p   == pend[1]
         x   == IF ~Fixed /\ p.h1 # 0 THEN Sent(s, 1, 1, p.ver1) ELSE s
         hk  == IF ~Fixed /\ p.h1 # 0 THEN Append(p.hooks, HookRec(1, p.h1, 1)) ELSE p.hooks
         e   == [Base(hev) EXCEPT !.hooks = hk, !.cbs = <<Cb(1, 1, 1, 0), Cb(1, 1, 2, 0)>>, !.fin = x.data[1]]
         n   == NodeOfS(x)
         e2  == [e EXCEPT !.chg = x.data # p.s0]
         g2  == Step(Cfg, g, e2, n)
     IN /\ s' = x /\ g' = g2 /\ hist' = Append(hist, hev) /\ pend' = <<>>
        /\ bad' = EdgeClauses(Cfg, g, e2) \cup NodeClauses(Cfg, g2, n, "put2")

Init == s = S0 /\ g = G0(Cfg) /\ hist = <<>> /\ bad = {} /\ pend = <<>>

Next == /\ bad = {}
        /\ \/ /\ Len(hist) < MaxLen
              /\ \E r \in 1..NR : \/ \E v \in 1..2 : Put(r, v)
                                  \/ Del(r)
                                  \/ Rc(r)
                                  \/ (Full /\ \E d \in BOOLEAN : Rf(r, d))
           \/ PutStart \/ PutOverlap \/ PutFinish

Spec == Init /\ [][Next]_vars

Report == bad = {} \/ PrintT(<<"DESIGN-CEX", ToJson([clauses |-> bad, events |-> hist])>>)
Clean  == bad = {}
\* the model's stores and the contract's ghost agree on what is held and on what is under way
GhostTracks == bad # {} \/ pend # <<>> \/ \A r \in 1..NR : g.c[r][1] = s.data[r] /\ Len(g.q[r]) = Len(s.box[r])

View == <<s, g, bad, pend>>
=============================================================================
