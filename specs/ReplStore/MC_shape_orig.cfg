SPECIFICATION Spec
CONSTANTS Fixed = FALSE  Variant = "full"  MaxLen = 4
INVARIANTS Report
VIEW View
CHECK_DEADLOCK FALSE
