----------------------------- MODULE AntiSpoof -----------------------------
(***************************************************************************)
(* Decision contract of source-address validation (property C18).           *)
(* Ghost = what the control plane was told:                                 *)
(*   default        mode last set with SetMode (the manager's start-up mode *)
(*                  initially)                                              *)
(*   bind[m]        [v4, v6, mode] for MAC m: AddBinding/AddBindingV6 set   *)
(*                  one family and leave the other as it was; mode = the    *)
(*                  manager's mode when the binding was last written        *)
(*   ranges         allowed ranges added with AddAllowedRange               *)
(* The mode "in force for the sender's MAC" is bind[m].mode when m has a    *)
(* binding, else default.                                                   *)
(*                                                                         *)
(* clause          sentence of the property                                 *)
(* --------------  ----------------------------------------------------    *)
(* StrictExact     "when strict source validation is in force for the       *)
(*                 sender's MAC the frame is forwarded if and only if its   *)
(*                 IPv4/IPv6 source address equals the address bound to     *)
(*                 that MAC"                                                *)
(* LogOnlyForwards "in log-only mode it is always forwarded"                *)
(* LooseInRange    "in loose mode it is forwarded iff the source lies in an *)
(*                 allowed range" (IPv4; no IPv6 range can be configured,   *)
(*                 so IPv6 in loose mode is unconstrained)                  *)
(* DisabledForwards validation switched off forwards everything             *)
(* AsWritten       "bindings added or removed through the control plane     *)
(*                 take effect exactly as written" - the three clauses      *)
(*                 above evaluated on the ghost bindings in every           *)
(*                 control-plane state; a control-plane call that fails is  *)
(*                 reported under this name                                 *)
(* PassUnmodified  a forwarded frame is handed on unchanged                 *)
(* Frames without an IP source (other ethertypes, truncated IP header) are  *)
(* unconstrained.                                                           *)
(***************************************************************************)
EXTENDS Integers, FiniteSets, Sequences, TLC

Forward == 0   \* TC_ACT_OK
Drop    == 2   \* TC_ACT_SHOT
NoBind == [v4 |-> 0, v6 |-> 0, mode |-> -1]

G0(cfg) == [default |-> cfg.initmode, bind |-> [m \in 1..(cfg.nmacs + 1) |-> NoBind], ranges |-> {}]

Step(g, e) ==
  CASE e.op = "SETMODE" /\ e.ok -> [g EXCEPT !.default = e.a]
    [] e.op = "ADD4" /\ e.ok -> [g EXCEPT !.bind[e.mac].v4 = e.a, !.bind[e.mac].mode = g.default]
    [] e.op = "ADD6" /\ e.ok -> [g EXCEPT !.bind[e.mac].v6 = e.a, !.bind[e.mac].mode = g.default]
    [] e.op = "DEL"  /\ e.ok -> [g EXCEPT !.bind[e.mac] = NoBind]
    [] e.op = "RANGE" /\ e.ok -> [g EXCEPT !.ranges = @ \cup {e.a}]
    [] OTHER -> g

SeqToSet(s) == {s[i] : i \in 1..Len(s)}

\* what the contract demands for probe p in ghost state g: "fwd", "drop" or "any"
Expect(g, p) ==
  LET b == g.bind[p.mac]
      mode == IF b.mode # -1 THEN b.mode ELSE g.default
  IN IF mode = 0 THEN "fwd"
     ELSE IF p.fam = "arp" \/ p.trunc THEN "any"
     ELSE IF mode = 3 THEN "fwd"
     ELSE IF mode = 1 THEN
            (IF p.fam = "4" THEN (IF b.v4 # 0 /\ p.addr = b.v4 THEN "fwd" ELSE "drop")
                            ELSE (IF b.v6 # 0 /\ p.addr = b.v6 THEN "fwd" ELSE "drop"))
     ELSE IF mode = 2 THEN
            (IF p.fam = "4" THEN (IF SeqToSet(p.inrng) \cap g.ranges # {} THEN "fwd" ELSE "drop") ELSE "any")
     ELSE "any"

ModeClause(g, p) ==
  LET b == g.bind[p.mac]  mode == IF b.mode # -1 THEN b.mode ELSE g.default IN
  CASE mode = 0 -> "DisabledForwards" [] mode = 1 -> "StrictExact" [] mode = 2 -> "LooseInRange" [] mode = 3 -> "LogOnlyForwards" [] OTHER -> "AsWritten"

\* cfg.noconfig: the loaded object has no antispoof_config map (it is optional), so the default mode cannot reach
\* the data plane and nothing is claimed for senders without a binding; bindings still carry the mode they were
\* written under
NodeClauses(cfg, g, n) ==
  UNION { LET p == cfg.probes[i]
              x == IF cfg.noconfig /\ g.bind[p.mac].mode = -1 THEN "any" ELSE Expect(g, p)
              v == n.verdict[i] IN
             (IF (x = "fwd" /\ v # Forward) \/ (x = "drop" /\ v # Drop) THEN {ModeClause(g, p), "AsWritten"} ELSE {})
        \cup (IF v = Forward /\ ~n.unmod[i] THEN {"PassUnmodified"} ELSE {})
        \cup (IF v \notin {Forward, Drop} THEN {"StrictExact"} ELSE {})
        : i \in 1..Len(cfg.probes) }

EdgeClauses(cfg, g, e) == IF ~e.ok THEN {"AsWritten"} ELSE {}
=============================================================================
