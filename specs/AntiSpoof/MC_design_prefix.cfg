SPECIFICATION Spec
CONSTANTS NMacs = 1  CFix = FALSE  KeepOther = FALSE
INVARIANTS Agrees
CHECK_DEADLOCK FALSE
