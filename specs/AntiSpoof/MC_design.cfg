SPECIFICATION Spec
CONSTANTS NMacs = 2  CFix = TRUE  KeepOther = TRUE
INVARIANTS Agrees
CHECK_DEADLOCK FALSE
