--------------------------- MODULE AntiSpoofImpl ---------------------------
(* Walks the control-plane transition table extracted from the real          *)
(* antispoof.Manager (writing real kernel maps) with, at every node, the     *)
(* verdicts of the natively compiled bpf/antispoof.c for a frame battery.    *)
EXTENDS AntiSpoof, Json, SequencesExt

CONSTANT Watch
Bundle == JsonDeserialize("bundle.json")
Systems == Bundle.systems
VARIABLES sys, node, g, viol, path, lastop
vars == <<sys, node, g, viol, path, lastop>>
Cfg(i) == Systems[i].cfg
NodeOf(i, n) == Systems[i].nodes[n]
EdgesOf(i, n) == Systems[i].edges[n]

Init == /\ sys \in 1..Len(Systems)
        /\ node = Systems[sys].init
        /\ g = G0(Cfg(sys))
        /\ lastop = "init"
        /\ viol = NodeClauses(Cfg(sys), g, NodeOf(sys, node)) \cap Watch
        /\ path = <<>>
Next == /\ viol = {}
        /\ \E k \in 1..Len(EdgesOf(sys, node)) :
             LET ed == EdgesOf(sys, node)[k]  g2 == Step(g, ed.ev) IN
                /\ node' = ed.to /\ g' = g2 /\ lastop' = ed.ev.op
                /\ viol' = (EdgeClauses(Cfg(sys), g, ed.ev) \cup NodeClauses(Cfg(sys), g2, NodeOf(sys, ed.to))) \cap Watch
                /\ path' = Append(path, ed.id)
                /\ UNCHANGED sys
Spec == Init /\ [][Next]_vars
Report == viol = {} \/ PrintT(<<"VIOLATION", ToJson([system |-> Systems[sys].name, clauses |-> viol, path |-> path])>>)
View == <<sys, node, g, viol>>
=============================================================================
