-------------------------- MODULE AntiSpoofDesign --------------------------
(***************************************************************************)
(* U1: implementation-shaped model of the data path: the map written by the *)
(* manager (binding struct per MAC, config, LPM ranges) and the decision    *)
(* procedure of antispoof_ingress, checked against the contract's Expect    *)
(* for every control-plane history and every abstract frame.                *)
(* CFix = TRUE: the TC program after the fix (loose mode consults the       *)
(* allowed ranges whether or not a binding exists); FALSE reproduces the    *)
(* original program, for which TLC reports LooseInRange violated.           *)
(* KeepOther = TRUE: AddBinding preserves the IPv6 half (after the fix).    *)
(***************************************************************************)
EXTENDS AntiSpoof

CONSTANTS NMacs, CFix, KeepOther

Cfg == [nmacs |-> NMacs, initmode |-> 1]
VARIABLES g, map, mgrmode
vars == <<g, map, mgrmode>>

Macs == 1..NMacs
NoEntry == [present |-> FALSE, v4 |-> 0, v6 |-> 0, mode |-> 0]
Init == g = G0(Cfg) /\ map = [m \in 1..(NMacs + 1) |-> NoEntry] /\ mgrmode = 1

Do(e) == g' = Step(g, e)
SetMode(a) == Do([op |-> "SETMODE", ok |-> TRUE, a |-> a, mac |-> 0]) /\ mgrmode' = a /\ UNCHANGED map
Add4(m, a) == /\ Do([op |-> "ADD4", ok |-> TRUE, a |-> a, mac |-> m]) /\ UNCHANGED mgrmode
              /\ map' = [map EXCEPT ![m] = [present |-> TRUE, v4 |-> a, v6 |-> IF KeepOther THEN map[m].v6 ELSE 0, mode |-> mgrmode]]
Add6(m, a) == /\ Do([op |-> "ADD6", ok |-> TRUE, a |-> a, mac |-> m]) /\ UNCHANGED mgrmode
              /\ map' = [map EXCEPT ![m] = [present |-> TRUE, v4 |-> map[m].v4, v6 |-> a, mode |-> mgrmode]]
Del(m) == Do([op |-> "DEL", ok |-> TRUE, a |-> 0, mac |-> m]) /\ map' = [map EXCEPT ![m] = NoEntry] /\ UNCHANGED mgrmode
Range(r) == Do([op |-> "RANGE", ok |-> TRUE, a |-> r, mac |-> 0]) /\ UNCHANGED <<map, mgrmode>>

Next == \/ \E a \in 0..3 : SetMode(a)
        \/ \E m \in Macs, a \in 1..2 : Add4(m, a) \/ Add6(m, a)
        \/ \E m \in Macs : Del(m)
        \/ \E r \in 1..2 : Range(r)
Spec == Init /\ [][Next]_vars

\* the decision procedure of the TC program on an abstract frame p
Verdict(p) ==
  LET b == map[p.mac]
      mode == IF b.present THEN b.mode ELSE g.default
      inrange == SeqToSet(p.inrng) \cap g.ranges # {}
  IN IF mode = 0 THEN Forward
     ELSE IF p.fam = "4" THEN
        LET allowed == IF CFix /\ mode = 2 THEN inrange
                       ELSE IF b.present /\ b.v4 # 0 THEN (mode \in {1, 3} /\ p.addr = b.v4)
                       ELSE IF mode = 2 THEN inrange ELSE FALSE
        IN IF allowed \/ mode = 3 THEN Forward ELSE Drop
     ELSE IF p.fam = "6" THEN
        LET allowed == IF b.present /\ b.v6 # 0 THEN p.addr = b.v6 ELSE mode = 2
        IN IF allowed \/ mode = 3 THEN Forward ELSE Drop
     ELSE Forward

Frames == [mac : 1..(NMacs + 1), fam : {"4", "6", "arp"}, addr : 0..2, inrng : {<<>>, <<1>>, <<2>>}, trunc : {FALSE}]

Agrees == \A p \in Frames : LET x == Expect(g, p) IN (x = "fwd" => Verdict(p) = Forward) /\ (x = "drop" => Verdict(p) = Drop)
=============================================================================
