------------------------------ MODULE Nat44Shape ------------------------------
(***************************************************************************)
(* Implementation-shaped model of the port selection of bpf/nat44.c for one *)
(* subscriber with the block Lo..Hi: nat44_egress looks the session up,     *)
(* otherwise allocate_port_from_block reads next_port, increments and wraps *)
(* it, and accepts the candidate unless its `in use` test says otherwise.   *)
(*   Fixed = FALSE  as found: the test looks the candidate EXTERNAL port up *)
(*                  as an INTERNAL port of the subscriber in eim_table      *)
(*                  (here: never true, the internal ports are outside the   *)
(*                  block), so every candidate is accepted                  *)
(*   Fixed = TRUE   proposed: a candidate held by a live mapping of another *)
(*                  internal endpoint is skipped; none left -> drop         *)
(* TLC finds for Fixed = FALSE the history replayed on the real code by the *)
(* table dp-udp (OUT p1; OUT p2; OUT p2 to another remote -> p1's port).    *)
(***************************************************************************)
EXTENDS Naturals, FiniteSets

CONSTANTS Lo, Hi, NP, ND, Fixed

VARIABLES next, sessions, dropped
vars == <<next, sessions, dropped>>

Init == next = Lo /\ sessions = {} /\ dropped = {}

Wrap(q) == IF q > Hi THEN Lo ELSE q
InUse(q, p) == \E x \in sessions : x.port = q /\ x.p # p
\* candidates in the order the loop visits them (at most 64 iterations; the block is smaller)
Cand(i) == Lo + ((next - Lo + i) % (Hi - Lo + 1))

Out(p, d) ==
  IF \E x \in sessions : x.p = p /\ x.d = d
  THEN UNCHANGED vars                                              \* existing session - use cached NAT mapping
  ELSE LET ok == {i \in 0..(Hi - Lo) : ~Fixed \/ ~InUse(Cand(i), p)}
       IN IF ok = {}
          THEN /\ dropped' = dropped \cup {<<p, d>>}                 \* port exhaustion -> TC_ACT_SHOT
               /\ UNCHANGED <<next, sessions>>
          ELSE LET i == CHOOSE j \in ok : \A k \in ok : j <= k
               IN /\ sessions' = sessions \cup {[p |-> p, d |-> d, port |-> Cand(i)]}
                  /\ next' = Wrap(Cand(i) + 1)
                  /\ UNCHANGED dropped

Next == \E p \in 1..NP, d \in 1..ND : Out(p, d)
Spec == Init /\ [][Next]_vars

PortUnique == \A x, y \in sessions : x.port = y.port => x.p = y.p
InBlock == \A x \in sessions : x.port \in Lo..Hi
DropOnlyExhausted == \A pd \in dropped : \A q \in Lo..Hi : InUse(q, pd[1])
=============================================================================
