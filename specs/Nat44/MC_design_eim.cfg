SPECIFICATION Spec
CONSTANTS MaxSteps = 4  Eim = TRUE
INVARIANTS Guarantees OneOwner GhostTracks
VIEW View
CHECK_DEADLOCK FALSE
