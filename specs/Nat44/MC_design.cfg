SPECIFICATION Spec
CONSTANTS MaxSteps = 4  Eim = FALSE
INVARIANTS Guarantees OneOwner GhostTracks
VIEW View
CHECK_DEADLOCK FALSE
