------------------------------- MODULE Nat44 -------------------------------
(***************************************************************************)
(* Contract of the CGNAT data plane bpf/nat44.c fed by pkg/nat (extra      *)
(* family X13).  Every clause restates a sentence of the component's own   *)
(* comments, weakest reading; whatever the comments are silent about       *)
(* (filtering of packets from remotes the endpoint never contacted,        *)
(* timeouts - the program never expires anything -, statistics, the log    *)
(* ring) is unconstrained.                                                 *)
(*                                                                         *)
(* clause              sentence                                            *)
(* ------------------  --------------------------------------------------- *)
(* AllocWhenFree       manager.go AllocateNAT: the only refusal is "NAT    *)
(*                     pool exhausted: no available public IPs"            *)
(* BlockDisjoint       "Calculate port range for this subscriber: the      *)
(*                     lowest port block of the address that no subscriber *)
(*                     holds"                                              *)
(* LayoutAgree         "SubscriberNAT mirrors the eBPF struct for          *)
(*                     subscriber NAT allocation"; "ipToKey converts an    *)
(*                     IPv4 address to a uint32 key (network byte order)"; *)
(*                     subscriber_nat key "Subscriber private IP": what    *)
(*                     the manager allocated is what the program finds     *)
(*                     under ip->saddr, field by field                     *)
(* NoBlockUntouched    "No NAT allocation for this subscriber - pass to    *)
(*                     userspace" (never translated into another block)    *)
(* AlgUntouched        "ALG required - pass to userspace"                  *)
(* Translated          "TC egress: Fast-path SNAT for outgoing packets     *)
(*                     (subscriber -> internet)"; "Only NAT private source *)
(*                     IPs": a subscriber with a block never leaves with   *)
(*                     its private source                                  *)
(* DropOnlyExhausted   "return 0; Port exhaustion" is the only drop        *)
(* InBlock             "Allocate a port from subscriber's port block (RFC  *)
(*                     6431)"; "Per-subscriber port blocks"                *)
(* Stable              "Existing session - use cached NAT mapping";        *)
(*                     "Endpoint-Independent Mapping: reuse existing       *)
(*                     mapping for same internal IP:port"                  *)
(* PortUnique          "Port already in use ..., try next"; "Found an      *)
(*                     available port"; "EIM lookup prevents actual port   *)
(*                     conflicts"                                          *)
(* Parity              "Preserve port parity for RTP"                      *)
(* InboundExact        "Perform DNAT - rewrite destination to original     *)
(*                     private IP/port"                                    *)
(* InboundDelivered    "TC ingress: Fast-path DNAT for incoming packets    *)
(*                     (internet -> subscriber)" for a session's remote    *)
(* UnmappedNotDelivered "No NAT session - ... packets_passed"              *)
(* StaleAfterRelease   "DeallocateNAT removes NAT allocation for a         *)
(*                     subscriber": nothing is delivered through the       *)
(*                     mappings of a released allocation                   *)
(* ChecksumValid       "Update IP checksum", "Update TCP checksum          *)
(*                     (includes pseudo-header)", "Update UDP checksum if  *)
(*                     present", "Update ICMP checksum"                    *)
(* RestUntouched       "Perform SNAT - rewrite source IP and port" /       *)
(*                     "Perform DNAT - rewrite destination ...": nothing   *)
(*                     else of the frame changes                           *)
(***************************************************************************)
EXTENDS Naturals, Sequences, FiniteSets

SHOT == 2

NoBlk == [has |-> FALSE, pubx |-> 0, lo |-> 0, hi |-> 0]
G0(cfg) == [blk |-> [s \in 1..(cfg.nsub + 1) |-> NoBlk], maps |-> {}, dead |-> {}]
InitEv == [op |-> "init"]

Capacity(cfg) == cfg.npub * ((cfg.hi - cfg.lo + 1) \div cfg.pps)
Holders(g) == {s \in DOMAIN g.blk : g.blk[s].has}
AlgHit(cfg, e) == cfg.alg /\ e.pr = 6 /\ e.d \in {cfg.algd[i] : i \in 1..Len(cfg.algd)}
\* the live mappings an outbound packet has to follow
Mine(cfg, g, e) == {m \in g.maps : m.s = e.s /\ m.p = e.p /\ m.pr = e.pr /\ (cfg.eim \/ m.d = e.d)}
Others(g, e) == {m \in g.maps : m.pr = e.pr /\ <<m.s, m.p>> # <<e.s, e.p>>}
Free(cfg, g, e) == LET b == g.blk[e.s] IN
    {q \in b.lo..b.hi : /\ \A m \in Others(g, e) : ~(m.pubx = b.pubx /\ m.port = q)
                        /\ (cfg.parity /\ e.pr \in {6, 17}) => (q % 2 = cfg.privports[e.p] % 2)}
TranslatedOut(e) == e.v = 0 /\ ~e.same

OutClauses(cfg, g, e) ==
  LET b == g.blk[e.s] IN
     (IF ~b.has /\ ~(e.same /\ e.v = 0) THEN {"NoBlockUntouched"} ELSE {})
  \cup (IF b.has /\ AlgHit(cfg, e) /\ ~(e.same /\ e.v = 0) THEN {"AlgUntouched"} ELSE {})
  \cup (IF b.has /\ ~AlgHit(cfg, e) /\ e.v = 0 /\ (e.same \/ e.xip = 0) THEN {"Translated"} ELSE {})
  \cup (IF b.has /\ ~AlgHit(cfg, e) /\ e.v # 0 /\ (Mine(cfg, g, e) # {} \/ Free(cfg, g, e) # {}) THEN {"DropOnlyExhausted"} ELSE {})
  \cup (IF b.has /\ TranslatedOut(e) /\ Mine(cfg, g, e) = {} /\ ~(e.xip = b.pubx /\ e.xport \in b.lo..b.hi) THEN {"InBlock"} ELSE {})
  \cup (IF b.has /\ TranslatedOut(e) /\ \E m \in Mine(cfg, g, e) : ~(e.xip = m.pubx /\ e.xport = m.port) THEN {"Stable"} ELSE {})
  \cup (IF b.has /\ TranslatedOut(e) /\ \E m \in Others(g, e) : m.pubx = e.xip /\ m.port = e.xport THEN {"PortUnique"} ELSE {})
  \cup (IF b.has /\ TranslatedOut(e) /\ cfg.parity /\ e.pr \in {6, 17} /\ Mine(cfg, g, e) = {} /\ e.xport % 2 # cfg.privports[e.p] % 2 THEN {"Parity"} ELSE {})

InClauses(cfg, g, e) ==
  LET live  == {m \in g.maps : m.pubx = e.pub /\ m.port = e.port /\ m.pr = e.pr}
      liveD == {m \in live : m.d = e.d}
      dead  == {m \in g.dead : m.pubx = e.pub /\ m.port = e.port /\ m.pr = e.pr}
  IN (IF live = {} /\ dead = {} /\ ~e.same THEN {"UnmappedNotDelivered"} ELSE {})
  \cup (IF live = {} /\ dead # {} /\ ~e.same THEN {"StaleAfterRelease"} ELSE {})
  \cup (IF live # {} /\ ~e.same /\ ~\E m \in live : e.xip = m.s /\ e.xport = cfg.privports[m.p] THEN {"InboundExact"} ELSE {})
  \cup (IF liveD # {} /\ (e.same \/ e.v # 0) THEN {"InboundDelivered"} ELSE {})

PacketClauses(e) ==
     (IF e.v = 0 /\ ~(e.ipck /\ e.l4ck) THEN {"ChecksumValid"} ELSE {})
  \cup (IF e.v = 0 /\ ~e.rest THEN {"RestUntouched"} ELSE {})

Overlap(b1, b2) == b1.pubx = b2.pubx /\ b1.lo <= b2.hi /\ b2.lo <= b1.hi

AllocClauses(cfg, g, e) ==
     (IF ~g.blk[e.s].has /\ Cardinality(Holders(g)) < Capacity(cfg) /\ ~e.ok THEN {"AllocWhenFree"} ELSE {})
  \cup (IF e.ok /\ ~g.blk[e.s].has /\ \E t \in Holders(g) : Overlap(g.blk[t], [pubx |-> e.pubx, lo |-> e.blo, hi |-> e.bhi]) THEN {"BlockDisjoint"} ELSE {})
  \cup (IF e.ok /\ g.blk[e.s].has /\ ~(g.blk[e.s].pubx = e.pubx /\ g.blk[e.s].lo = e.blo /\ g.blk[e.s].hi = e.bhi) THEN {"BlockDisjoint"} ELSE {})

EdgeClauses(cfg, g, e) ==
  CASE e.op = "OUT"   -> OutClauses(cfg, g, e) \cup PacketClauses(e)
    [] e.op = "IN"    -> InClauses(cfg, g, e) \cup PacketClauses(e)
    [] e.op = "ALLOC" -> AllocClauses(cfg, g, e)
    [] OTHER          -> {}

Step(cfg, g, e, obs) ==
  CASE e.op = "ALLOC" /\ e.ok /\ ~g.blk[e.s].has ->
         [g EXCEPT !.blk[e.s] = [has |-> TRUE, pubx |-> e.pubx, lo |-> e.blo, hi |-> e.bhi]]
    [] e.op = "DEALLOC" ->
         LET gone == {m \in g.maps : m.s = e.s}
         IN [g EXCEPT !.blk[e.s] = NoBlk, !.maps = g.maps \ gone, !.dead = g.dead \cup gone]
    [] e.op = "OUT" /\ g.blk[e.s].has /\ TranslatedOut(e) ->
         LET m == [s |-> e.s, p |-> e.p, pr |-> e.pr, d |-> e.d, pubx |-> e.xip, port |-> e.xport]
         IN [g EXCEPT !.maps = g.maps \cup {m},
                      !.dead = {x \in g.dead : ~(x.pubx = m.pubx /\ x.port = m.port /\ x.pr = m.pr)}]
    [] OTHER -> g

\* what the manager says it allocated is what the program finds under the subscriber's address
NodeClauses(cfg, g, n, lastev) ==
  IF \E s \in 1..Len(n.mgr) :
        LET a == n.mgr[s]  c == n.cview[s]
        IN \/ a.has # c.has
           \/ a.has /\ ~(c.pubx = a.pubx /\ c.blo = a.blo /\ c.bhi = a.bhi /\ c.next \in a.blo..a.bhi)
  THEN {"LayoutAgree"} ELSE {}

AllClauses == {"AllocWhenFree", "BlockDisjoint", "LayoutAgree", "NoBlockUntouched", "AlgUntouched", "Translated", "DropOnlyExhausted", "InBlock",
               "Stable", "PortUnique", "Parity", "InboundExact", "InboundDelivered", "UnmappedNotDelivered", "StaleAfterRelease",
               "ChecksumValid", "RestUntouched"}
=============================================================================
