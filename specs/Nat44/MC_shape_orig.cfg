SPECIFICATION Spec
CONSTANTS Lo = 1024  Hi = 1025  NP = 3  ND = 2  Fixed = FALSE
INVARIANTS PortUnique InBlock DropOnlyExhausted
CHECK_DEADLOCK FALSE
