----------------------------- MODULE Nat44Design -----------------------------
(***************************************************************************)
(* U1: every history the Nat44 contract accepts (Next = any event with any  *)
(* answer for which EdgeClauses is empty, ghost advanced by Step) satisfies *)
(* the guarantees stated DIRECTLY over an absolute record of the history    *)
(* that does not use the contract's ghost: who holds which block (ablk),    *)
(* which private endpoints were translated to which public (address, port,  *)
(* protocol) since their allocation began (owner).                          *)
(*   OwnBlockOnly   a translated outbound packet left with its subscriber's *)
(*                  public address and a port inside the block it holds     *)
(*   NeverForeign   a packet of an address without a block left untouched   *)
(*   OneOwner       a public (address, port, protocol) belongs to at most   *)
(*                  one private endpoint at a time                          *)
(*   SameMapping    an endpoint's 5-tuple keeps its public port             *)
(*   BackToCreator  a delivered inbound packet went to the endpoint that    *)
(*                  created the mapping; none is delivered without one      *)
(***************************************************************************)
EXTENDS Nat44, TLC

CONSTANTS MaxSteps, Eim

Cfg == [nsub |-> 2, npub |-> 1, lo |-> 1024, hi |-> 1027, pps |-> 2, eim |-> Eim, parity |-> FALSE, alg |-> FALSE, algd |-> <<>>,
        privports |-> <<5004, 40001>>]
Subs == 1..3
Ports == 1024..1028
Blocks == {[pubx |-> 1, lo |-> 1024, hi |-> 1025], [pubx |-> 1, lo |-> 1026, hi |-> 1027]}

VARIABLES g, ablk, owner, sess, bad, n
vars == <<g, ablk, owner, sess, bad, n>>

\* owner: set of <<port, s, p>> (one public address, one protocol); sess: set of <<s, p, d, port>>
Events ==
       {[op |-> "ALLOC", s |-> s, ok |-> ok, pubx |-> b.pubx, blo |-> b.lo, bhi |-> b.hi] : s \in 1..2, ok \in BOOLEAN, b \in Blocks}
  \cup {[op |-> "DEALLOC", s |-> s, ok |-> TRUE] : s \in 1..2}
  \cup {[op |-> "OUT", s |-> s, p |-> p, d |-> d, pr |-> 17, v |-> v, same |-> sm, xip |-> xi, xport |-> xp, ipck |-> TRUE, l4ck |-> TRUE, rest |-> TRUE] :
          s \in Subs, p \in 1..2, d \in 1..2, v \in {0, SHOT}, sm \in BOOLEAN, xi \in {0, 1}, xp \in Ports}
  \cup {[op |-> "IN", pub |-> 1, port |-> q, d |-> d, pr |-> 17, v |-> 0, same |-> sm, xip |-> xi, xport |-> xp, ipck |-> TRUE, l4ck |-> TRUE, rest |-> TRUE] :
          q \in Ports, d \in 1..2, sm \in BOOLEAN, xi \in 0..3, xp \in {5004, 40001}}

\* an answer is physically meaningful: an untouched frame has no new address
Sane(e) == e.op \in {"OUT", "IN"} => (e.same => e.xip = 0)

Init == g = G0(Cfg) /\ ablk = [s \in Subs |-> NoBlk] /\ owner = {} /\ sess = {} /\ bad = {} /\ n = 0

Do(e) ==
  /\ Sane(e) /\ EdgeClauses(Cfg, g, e) = {}
  /\ g' = Step(Cfg, g, e, [x |-> 0])
  /\ n' = n + 1
  /\ CASE e.op = "ALLOC" ->
            /\ ablk' = IF e.ok /\ ~ablk[e.s].has THEN [ablk EXCEPT ![e.s] = [has |-> TRUE, pubx |-> e.pubx, lo |-> e.blo, hi |-> e.bhi]] ELSE ablk
            /\ UNCHANGED <<owner, sess, bad>>
       [] e.op = "DEALLOC" ->
            /\ ablk' = [ablk EXCEPT ![e.s] = NoBlk]
            /\ owner' = {o \in owner : o[2] # e.s}
            /\ sess' = {x \in sess : x[1] # e.s}
            /\ bad' = bad
       [] e.op = "OUT" ->
            LET tr == e.v = 0 /\ ~e.same IN
            /\ ablk' = ablk
            /\ owner' = IF tr /\ ablk[e.s].has THEN owner \cup {<<e.xport, e.s, e.p>>} ELSE owner
            /\ sess' = IF tr /\ ablk[e.s].has THEN sess \cup {<<e.s, e.p, e.d, e.xport>>} ELSE sess
            /\ bad' = bad
                 \cup (IF tr /\ ablk[e.s].has /\ ~(e.xip = ablk[e.s].pubx /\ e.xport \in ablk[e.s].lo..ablk[e.s].hi)
                          /\ ~\E x \in sess : x[1] = e.s /\ x[2] = e.p /\ x[4] = e.xport THEN {"OwnBlockOnly"} ELSE {})
                 \cup (IF ~ablk[e.s].has /\ ~e.same THEN {"NeverForeign"} ELSE {})
                 \cup (IF tr /\ \E x \in sess : x[1] = e.s /\ x[2] = e.p /\ x[3] = e.d /\ x[4] # e.xport THEN {"SameMapping"} ELSE {})
       [] e.op = "IN" ->
            /\ UNCHANGED <<ablk, owner, sess>>
            /\ bad' = bad \cup (IF ~e.same /\ ~\E o \in owner : o[1] = e.port /\ o[2] = e.xip /\ Cfg.privports[o[3]] = e.xport THEN {"BackToCreator"} ELSE {})

Next == n < MaxSteps /\ \E e \in Events : Do(e)
Spec == Init /\ [][Next]_vars

Guarantees == bad = {}
OneOwner == \A o1, o2 \in owner : o1[1] = o2[1] => o1 = o2
\* the ghost tracks the absolute record
GhostTracks == /\ \A s \in Subs : g.blk[s] = ablk[s]
               /\ {<<m.port, m.s, m.p>> : m \in g.maps} = owner
View == <<g, ablk, owner, sess, bad>>
=============================================================================
