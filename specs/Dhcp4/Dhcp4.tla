------------------------------- MODULE Dhcp4 -------------------------------
(***************************************************************************)
(* Contract of the DHCPv4 server (property C02, v4 half).                  *)
(* Abstract state (ghost): per client what the server has told it.         *)
(*   bound[c]  = [ip, t]  the address last ACKed to c, t = its age in ticks  *)
(*                        (capped at LeaseTicks; None = -1)                 *)
(*   offer[c]  = [ip, t]  the address last OFFERed to c, t = its age        *)
(*   sticky[c] = addresses offered to c and not since bound or given back   *)
(*   declined  = addresses a client declined after being ACKed them         *)
(*   touched   = addresses named in any DECLINE (exempt from availability)  *)
(* One tick = lease/2 (+epsilon) of virtual time.                           *)
(* A lease is unexpired while its age < LeaseTicks.                         *)
(* The client is the hardware address (direct) or the circuit (relayed      *)
(* with option 82): DESIGN.md section 6.                                    *)
(*                                                                         *)
(* clause             sentence of the property                              *)
(* -----------------  ---------------------------------------------------  *)
(* InPoolUsable       "only hands out values inside the serving pool that   *)
(*                    are not the gateway, network or broadcast address"    *)
(* NotOthers          "never acknowledges [or offers] an address that is    *)
(*                    leased or offered to a different client"              *)
(* LeaseUnique        "never holds two unexpired bindings on one address"   *)
(*                    (on the server's own lease table)                     *)
(* RenewSame          "a client renewing its own unexpired binding is       *)
(*                    answered with the same value"                         *)
(* NotDeclined        "a declined address is not offered again"             *)
(* ReleasedAvailable  "a released or expired one becomes available again"   *)
(*                    (obtainable by a new client; expiry counts from the   *)
(*                    cleanup tick after it)                                *)
(***************************************************************************)
EXTENDS Integers, FiniteSets, Sequences, TLC

None == -1
NoRec == [ip |-> None, t |-> 0]

Clients(cfg) == 1..cfg.nclients
Usable(cfg)  == {cfg.usable[i] : i \in 1..Len(cfg.usable)}

G0(cfg) == [bound  |-> [c \in Clients(cfg) |-> NoRec],
            offer  |-> [c \in Clients(cfg) |-> NoRec],
            sticky |-> [c \in Clients(cfg) |-> {}],
            declined |-> {}, touched |-> {}]

Unexpired(cfg, g, c) == g.bound[c].ip # None /\ g.bound[c].t < cfg.leaseticks
OfferLive(cfg, g, c) == g.offer[c].ip # None /\ g.offer[c].t < cfg.leaseticks

IsReq(op)  == op \in {"REQSEL", "REQOWN", "REQ", "REQSELALT"}
IsDisc(op) == op \in {"DISC", "DISCALT"}
Gives(e)   == e.rtype \in {"OFFER", "ACK"} /\ (IsReq(e.op) \/ IsDisc(e.op))

\* e = [op, c, u, rtype, runit, req, skipped]
EdgeClauses(cfg, g, e) ==
  LET c == e.c IN
  IF e.skipped \/ c = 0 THEN {} ELSE
       (IF Gives(e) /\ e.runit \notin Usable(cfg) THEN {"InPoolUsable"} ELSE {})
  \cup (IF Gives(e) /\ \E d \in Clients(cfg) \ {c} :
              (Unexpired(cfg, g, d) /\ g.bound[d].ip = e.runit)
              \/ (e.rtype = "ACK" /\ OfferLive(cfg, g, d) /\ g.offer[d].ip = e.runit)   \* "never ACKNOWLEDGES ... offered to a different client"
          THEN {"NotOthers"} ELSE {})
  \cup (IF Gives(e) /\ e.runit \in g.declined THEN {"NotDeclined"} ELSE {})
  \cup (IF IsReq(e.op) /\ Unexpired(cfg, g, c) /\ e.req = g.bound[c].ip /\ ~(e.rtype = "ACK" /\ e.runit = e.req)
          THEN {"RenewSame"} ELSE {})
  \cup (IF (IsDisc(e.op) /\ e.rtype \notin {"OFFER", "none"}) \/ (IsReq(e.op) /\ e.rtype \notin {"ACK", "NAK", "none"})
          THEN {"ReplyKind"} ELSE {})

Step(cfg, g, e) ==
  LET c == e.c IN
  IF e.skipped THEN g ELSE
  CASE IsDisc(e.op) /\ e.rtype = "OFFER" ->
         [g EXCEPT !.offer[c] = [ip |-> e.runit, t |-> 0], !.sticky[c] = @ \cup {e.runit}]
    [] IsReq(e.op) /\ e.rtype = "ACK" ->
         [g EXCEPT !.bound[c] = [ip |-> e.runit, t |-> 0], !.offer[c] = NoRec, !.sticky[c] = @ \ {e.runit}]
    [] e.op \in {"REL", "RELDIRECT"} ->   \* ends the binding; an offer of that same address is withdrawn with it
         [g EXCEPT !.bound[c] = NoRec, !.sticky[c] = @ \ {g.bound[c].ip},
                   !.offer[c] = IF g.offer[c].ip = g.bound[c].ip THEN NoRec ELSE @]
    [] e.op \in {"DECL", "DECLU"} ->   \* a DECLINE counts only for the address the client is bound to (unexpired)
         IF g.bound[c].ip # None /\ g.bound[c].ip = e.req /\ Unexpired(cfg, g, c)
         THEN [g EXCEPT !.bound[c] = NoRec, !.declined = @ \cup {e.req}, !.touched = @ \cup {e.req}, !.sticky[c] = @ \ {e.req},
                        !.offer[c] = IF g.offer[c].ip = e.req THEN NoRec ELSE @]
         ELSE [g EXCEPT !.touched = @ \cup {e.req}]
    [] e.op = "ADV" ->
         LET Age(r) == IF r.ip = None \/ r.t >= cfg.leaseticks THEN r ELSE [r EXCEPT !.t = @ + 1] IN
         [g EXCEPT !.bound = [d \in Clients(cfg) |-> Age(g.bound[d])], !.offer = [d \in Clients(cfg) |-> Age(g.offer[d])]]
    [] e.op = "REFRESH" ->   \* the server extended the client's binding without naming it (shared lifetime)
         IF g.bound[c].ip # None THEN [g EXCEPT !.bound[c].t = 0] ELSE g
    [] e.op = "CLEAN" ->  \* the cleanup tick ends every expired binding
         [g EXCEPT !.bound = [d \in Clients(cfg) |-> IF g.bound[d].ip # None /\ ~Unexpired(cfg, g, d) THEN NoRec ELSE g.bound[d]],
                   !.sticky = [d \in Clients(cfg) |-> IF g.bound[d].ip # None /\ ~Unexpired(cfg, g, d) THEN g.sticky[d] \ {g.bound[d].ip} ELSE g.sticky[d]]]
    [] OTHER -> g

\* addresses the contract allows to be unobtainable for a new client
HeldBack(cfg, g) == {g.bound[c].ip : c \in Clients(cfg)} \cup UNION {g.sticky[c] : c \in Clients(cfg)}
                    \cup {g.offer[c].ip : c \in Clients(cfg)} \cup g.declined \cup g.touched

SeqToSet(s) == {s[i] : i \in 1..Len(s)}

\* n = [lease (seq), expired (seq of BOOLEAN), altlease, drain (seq; <<-9>> = not probed)]
NodeClauses(cfg, g, n) ==
       (IF \E a, b \in Clients(cfg) : a # b /\ n.lease[a] # None /\ n.lease[a] = n.lease[b] /\ ~n.expired[a] /\ ~n.expired[b]
          THEN {"LeaseUnique"} ELSE {})
  \cup (IF -9 \notin SeqToSet(n.drain) /\ (-3 \in SeqToSet(n.drain) \/ ~((Usable(cfg) \ HeldBack(cfg, g)) \subseteq SeqToSet(n.drain)))
          THEN {"ReleasedAvailable"} ELSE {})
  \cup (IF -9 \notin SeqToSet(n.drain) /\ \E u \in SeqToSet(n.drain) : u # -3 /\
              (u \notin Usable(cfg) \/ \E d \in Clients(cfg) : Unexpired(cfg, g, d) /\ g.bound[d].ip = u)
          THEN {"NotOthers"} ELSE {})
  \cup (IF -9 \notin SeqToSet(n.drain) /\ \E u \in SeqToSet(n.drain) : u \in g.declined
          THEN {"NotDeclined"} ELSE {})

\* abstract invariant: the ghost itself never holds two unexpired bindings on one address
NoDoubleBinding(cfg, g) == \A a, b \in Clients(cfg) : a # b /\ Unexpired(cfg, g, a) /\ Unexpired(cfg, g, b) => g.bound[a].ip # g.bound[b].ip
=============================================================================
