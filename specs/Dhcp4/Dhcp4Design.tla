---------------------------- MODULE Dhcp4Design ----------------------------
(***************************************************************************)
(* U1: (a) the contract implies the property: Next lets a server give ANY   *)
(* reply the contract accepts; TLC checks NoDoubleBinding and that no       *)
(* declined address is ever given again, for all message/time histories of  *)
(* a small configuration.                                                   *)
(***************************************************************************)
EXTENDS Dhcp4, SequencesExt

CONSTANTS NClients, UsableSet, NUnits

Cfg == [nclients |-> NClients, usable |-> SetToSeq(UsableSet), nunits |-> NUnits, leaseticks |-> 2]

VARIABLES g, last
Ops == {"DISC", "REQ", "REL", "DECL", "ADV", "CLEAN"}
Replies == [op : Ops, c : 0..NClients, u : {-1}, rtype : {"none", "OFFER", "ACK", "NAK"}, runit : (-2)..(NUnits), req : (-1)..(NUnits), skipped : {FALSE}]

Init == g = G0(Cfg) /\ last = [op |-> "ADV", c |-> 0, u |-> -1, rtype |-> "none", runit |-> -1, req |-> -1, skipped |-> FALSE]

WellFormed(e) ==
  /\ (e.op \in {"ADV", "CLEAN"}) = (e.c = 0)
  /\ (e.op \in {"ADV", "CLEAN", "REL", "DECL", "DECLU"} => e.rtype = "none" /\ e.runit = -1)
  /\ (e.rtype \in {"none", "NAK"} => e.runit = -1)
  /\ (e.op = "INFORM" => e.rtype \in {"ACK", "none"} /\ e.runit = -1)
  /\ (IsDisc(e.op) => e.req = -1)
  /\ (e.op = "DECL" => e.c # 0 /\ e.req = g.bound[e.c].ip /\ e.req # None)
  /\ (e.op = "REL" => e.req = -1)

Next == \E e \in Replies :
          /\ WellFormed(e)
          /\ EdgeClauses(Cfg, g, e) = {}
          /\ g' = Step(Cfg, g, e)
          /\ last' = e
Spec == Init /\ [][Next]_<<g, last>>

NoDouble == NoDoubleBinding(Cfg, g)
BoundUsable == \A c \in Clients(Cfg) : g.bound[c].ip # None => g.bound[c].ip \in UsableSet
DeclinedNeverGiven == [][Gives(last') => last'.runit \notin g.declined]_<<g, last>>
View == <<g.bound, g.offer, g.declined>>
=============================================================================
