---------------------------- MODULE Dhcp4FpImpl ----------------------------
(***************************************************************************)
(* C03 - the kernel DHCP fast path answers exactly as the userspace server. *)
(* The userspace server (real dhcp.Server) is walked as in Dhcp4Impl; its    *)
(* cache lives in real kernel maps written through the real ebpf.Loader;     *)
(* at every node the natively compiled bpf/dhcp_fastpath.c has answered a    *)
(* battery of request frames (cfg.probes; two kernel-clock values each) on   *)
(* a mirror of those maps.  The ghost is the Dhcp4 contract's: what the      *)
(* userspace server has ACKed to each client.                                *)
(*                                                                         *)
(* clause          sentence of the property                                 *)
(* --------------  -----------------------------------------------------   *)
(* FpWellFormed    "when the XDP fast path transmits a reply that reply is a *)
(*                 well-formed Ethernet/IPv4/UDP/BOOTP frame (valid IP       *)
(*                 header checksum, consistent lengths, same transaction id  *)
(*                 and client hardware address ...)"                         *)
(* FpReplyType     "OFFER for DISCOVER and ACK for REQUEST"                  *)
(* FpSameAsSlow    "carrying the same client address, server identifier,     *)
(*                 subnet mask, router, DNS servers and lease time that the  *)
(*                 userspace server sends to that subscriber at that         *)
(*                 moment" (yiaddr = the address userspace ACKed; option     *)
(*                 fields = those of the userspace ACK and, for a DISCOVER,  *)
(*                 those of the OFFER userspace sent that client since, if   *)
(*                 any: r.same; a REQUEST for an address userspace would     *)
(*                 refuse must not be ACKed)                                 *)
(* PassUnmodified  "when the fast path does not reply, the frame it hands to *)
(*                 userspace is byte-identical to the frame received"        *)
(* FpOnlyForBound  "after a lease is released, declined or expired in        *)
(*                 userspace the fast path no longer answers for it" (and    *)
(*                 never answers for a client userspace never ACKed);        *)
(*                 expiry counts from the userspace cleanup tick             *)
(***************************************************************************)
EXTENDS Dhcp4, Json, SequencesExt

CONSTANT Watch
Bundle == JsonDeserialize("bundle.json")
Systems == Bundle.systems
VARIABLES sys, node, g, viol, path, lastop
vars == <<sys, node, g, viol, path, lastop>>
Cfg(i) == Systems[i].cfg
NodeOf(i, n) == Systems[i].nodes[n]
EdgesOf(i, n) == Systems[i].edges[n]

XDP_PASS == 2
XDP_TX == 3

\* probe k (1-based) of the battery was run with two clock values: results 2k-1 and 2k
FpClauses(cfg, gh, n) ==
  UNION { LET p == cfg.probes[(j + 1) \div 2]
              r == n.fp[j]
              known == p.c \in Clients(cfg)
              bnd == IF known THEN gh.bound[p.c].ip ELSE None
          IN
               (IF r.verdict \notin {XDP_PASS, XDP_TX} THEN {"PassUnmodified"} ELSE {})
          \cup (IF r.verdict = XDP_PASS /\ ~r.unmod THEN {"PassUnmodified"} ELSE {})
          \cup (IF r.verdict = XDP_TX /\ bnd = None THEN {"FpOnlyForBound"} ELSE {})
          \cup (IF r.verdict = XDP_TX /\ r.wf # "" THEN {"FpWellFormed"} ELSE {})
          \cup (IF r.verdict = XDP_TX /\ r.wf = "" /\
                    ~((p.msg = "DISCOVER" /\ r.msg = "OFFER") \/ (p.msg \in {"REQOWN", "REQOTHER"} /\ r.msg = "ACK"))
                  THEN {"FpReplyType"} ELSE {})
          \cup (IF r.verdict = XDP_TX /\ r.wf = "" /\ bnd # None /\ (r.yi # bnd \/ ~r.same \/ p.msg = "REQOTHER")
                  THEN {"FpSameAsSlow"} ELSE {})
        : j \in 1..Len(n.fp) }

\* sweep of all IPv4 Identification values (when the node carries one): no transmitted reply may be malformed
SweepClauses(n) == IF "sweep" \in DOMAIN n
                     THEN (IF n.sweep.bad > 0 THEN {"FpWellFormed"} ELSE {}) \cup (IF n.sweep.passmod > 0 THEN {"PassUnmodified"} ELSE {})
                     ELSE {}

Init == /\ sys \in 1..Len(Systems)
        /\ node = Systems[sys].init
        /\ g = G0(Cfg(sys))
        /\ lastop = "init"
        /\ viol = (FpClauses(Cfg(sys), g, NodeOf(sys, node)) \cup SweepClauses(NodeOf(sys, node))) \cap Watch
        /\ path = <<>>
Next == /\ viol = {}
        /\ \E k \in 1..Len(EdgesOf(sys, node)) :
             LET ed == EdgesOf(sys, node)[k]  g2 == Step(Cfg(sys), g, ed.ev) IN
                /\ node' = ed.to /\ g' = g2 /\ lastop' = ed.ev.op
                /\ viol' = (FpClauses(Cfg(sys), g2, NodeOf(sys, ed.to)) \cup SweepClauses(NodeOf(sys, ed.to))) \cap Watch
                /\ path' = Append(path, ed.id)
                /\ UNCHANGED sys
Spec == Init /\ [][Next]_vars
Report == viol = {} \/ PrintT(<<"VIOLATION", ToJson([system |-> Systems[sys].name, clauses |-> viol, path |-> path])>>)
View == <<sys, node, g, viol>>
=============================================================================
