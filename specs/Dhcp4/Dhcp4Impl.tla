----------------------------- MODULE Dhcp4Impl -----------------------------
(* Walks the transition tables / traces extracted from the real dhcp.Server *)
(* (bundle.json) and judges every reply and every lease-table observation  *)
(* against the Dhcp4 contract (monitor style, see PoolImpl.tla).            *)
EXTENDS Dhcp4, Json, SequencesExt

CONSTANT Watch
Bundle == JsonDeserialize("bundle.json")
Systems == Bundle.systems

VARIABLES sys, node, g, viol, path, lastop
vars == <<sys, node, g, viol, path, lastop>>

Cfg(i) == Systems[i].cfg
NodeOf(i, n) == Systems[i].nodes[n]
EdgesOf(i, n) == Systems[i].edges[n]

Init == /\ sys \in 1..Len(Systems)
        /\ node = Systems[sys].init
        /\ g = G0(Cfg(sys))
        /\ lastop = "init"
        /\ viol = NodeClauses(Cfg(sys), g, NodeOf(sys, node)) \cap Watch
        /\ path = <<>>

Next == /\ viol = {}
        /\ \E k \in 1..Len(EdgesOf(sys, node)) :
             LET ed == EdgesOf(sys, node)[k]
                 e  == ed.ev
                 g2 == Step(Cfg(sys), g, e)
             IN /\ node' = ed.to
                /\ g' = g2
                /\ lastop' = e.op
                /\ viol' = (EdgeClauses(Cfg(sys), g, e) \cup NodeClauses(Cfg(sys), g2, NodeOf(sys, ed.to))) \cap Watch
                /\ path' = Append(path, ed.id)
                /\ UNCHANGED sys

Spec == Init /\ [][Next]_vars
Report == viol = {} \/ PrintT(<<"VIOLATION", ToJson([system |-> Systems[sys].name, clauses |-> viol, path |-> path])>>)
View == <<sys, node, g, viol>>
=============================================================================
