----------------------------- MODULE Dhcp6Impl -----------------------------
(***************************************************************************)
(* C02, DHCPv6 half.  The real dhcpv6.Server is walked through tables and   *)
(* traces (bundle.json) and every message is judged by the SAME contract as *)
(* DHCPv4 (module Dhcp4), applied once to the non-temporary address (IA_NA) *)
(* and once to the delegated prefix (IA_PD) of the message:                 *)
(*   SOLICIT            ~ DISCOVER   (Advertise with a value ~ OFFER)        *)
(*   SOLICIT+rapid, REQUEST ~ REQUEST (Reply with a value ~ ACK, Reply with  *)
(*                        NoAddrsAvail/NoPrefixAvail ~ NAK)                 *)
(*   RENEW / REBIND     ~ REQUEST for the client's own value (RenewSame)     *)
(*   RELEASE / DECLINE  ~ RELEASE / DECLINE of the whole binding             *)
(*   CONFIRM            no binding effect                                   *)
(* The client is the DUID.                                                  *)
(***************************************************************************)
EXTENDS Dhcp4, Json, SequencesExt

CONSTANT Watch
Bundle == JsonDeserialize("bundle.json")
Systems == Bundle.systems

VARIABLES sys, node, gna, gpd, viol, path, lastop
vars == <<sys, node, gna, gpd, viol, path, lastop>>

Cfg(i) == Systems[i].cfg
CfgNA(i) == [nclients |-> Cfg(i).nclients, usable |-> Cfg(i).usable_na, leaseticks |-> Cfg(i).leaseticks]
CfgPD(i) == [nclients |-> Cfg(i).nclients, usable |-> Cfg(i).usable_pd, leaseticks |-> Cfg(i).leaseticks]
NodeOf(i, n) == Systems[i].nodes[n]
EdgesOf(i, n) == Systems[i].edges[n]

\* the part of a v6 event that concerns one IA kind, in the vocabulary of the contract
Part(e, kind) ==
  LET val  == IF kind = "na" THEN e.addr ELSE e.pfx
      oval == IF kind = "na" THEN e.pfx ELSE e.addr
      req  == IF kind = "na" THEN e.reqaddr ELSE e.reqpfx
      has  == e.ia = "both" \/ e.ia = kind
      \* a Reply that (re)binds the other kind extends the one lease record both kinds share
      refresh == ~has /\ e.rkind = "REPLY" /\ e.op \in {"SOLRC", "REQ", "RENEW", "REBIND"}
      op   == CASE refresh -> "REFRESH"
                [] e.op = "SOL" -> "DISC"
                [] e.op \in {"SOLRC", "REQ"} -> "REQ"
                [] e.op \in {"RENEW", "REBIND"} -> IF req = -1 THEN "REQ" ELSE "REQOWN"
                [] e.op = "REL" -> "REL"
                [] e.op = "DECL" -> IF kind = "na" THEN "DECL" ELSE "REL"   \* only addresses are declined (RFC 8415 18.2.8)
                [] e.op = "ADV" -> "ADV"
                [] e.op = "CLEAN" -> "CLEAN"
                [] OTHER -> "INFORM"
      rt   == CASE e.rkind = "none" -> "none"
                [] e.rkind = "ADVERTISE" -> IF val # -1 THEN "OFFER" ELSE "none"
                [] e.rkind = "REPLY" -> IF e.op \in {"REL", "DECL", "CONFIRM"} THEN "none"
                                        ELSE IF val # -1 THEN "ACK" ELSE "NAK"
                [] OTHER -> e.rkind
  IN [op |-> op, c |-> e.c, u |-> -1, rtype |-> rt, runit |-> IF rt \in {"OFFER", "ACK"} THEN val ELSE -1,
      req |-> IF op \in {"REQOWN", "DECL", "REL"} THEN req ELSE -1,
      skipped |-> (e.c # 0 /\ ~has /\ op \notin {"REL", "DECL", "REFRESH"}) \/ (op = "DECL" /\ req = -1)]

NodePart(n, kind) == [lease |-> IF kind = "na" THEN n.lease_na ELSE n.lease_pd, expired |-> n.expired,
                      drain |-> IF kind = "na" THEN n.drain_na ELSE n.drain_pd]

Tag(S, kind) == {c \o "/" \o kind : c \in S}

\* Whether a Reply about the other kind extended this kind's binding too is the server's choice (one lease record,
\* one lifetime - or the record was already ended because it had expired): its own lease table after the step
\* tells which (the binding is listed with a full lifetime ahead, rem = leaseticks); the obligations then follow
\* from that choice.
PartAt(e, kind, g, n, lt) ==
  LET p == Part(e, kind) IN
  IF p.op = "REFRESH" /\ (p.c = 0 \/ NodePart(n, kind).lease[p.c] # g.bound[p.c].ip \/ n.rem[p.c] # lt)
    THEN [p EXCEPT !.op = "INFORM", !.skipped = TRUE] ELSE p

AllClauses(i, a, b, e, n) ==
  LET ea == PartAt(e, "na", a, n, Cfg(i).leaseticks)  ep == PartAt(e, "pd", b, n, Cfg(i).leaseticks)
      a2 == Step(CfgNA(i), a, ea)  b2 == Step(CfgPD(i), b, ep)
  IN      EdgeClauses(CfgNA(i), a, ea) \cup NodeClauses(CfgNA(i), a2, NodePart(n, "na"))
     \cup EdgeClauses(CfgPD(i), b, ep) \cup NodeClauses(CfgPD(i), b2, NodePart(n, "pd"))
     \cup (IF ~e.echo THEN {"ReplyKind"} ELSE {})

Init == /\ sys \in 1..Len(Systems)
        /\ node = Systems[sys].init
        /\ gna = G0(CfgNA(sys)) /\ gpd = G0(CfgPD(sys))
        /\ lastop = "init"
        /\ viol = (NodeClauses(CfgNA(sys), gna, NodePart(NodeOf(sys, node), "na"))
                   \cup NodeClauses(CfgPD(sys), gpd, NodePart(NodeOf(sys, node), "pd"))) \cap Watch
        /\ path = <<>>

Next == /\ viol = {}
        /\ \E k \in 1..Len(EdgesOf(sys, node)) :
             LET ed == EdgesOf(sys, node)[k]
                 e  == ed.ev
             IN /\ node' = ed.to
                /\ gna' = Step(CfgNA(sys), gna, PartAt(e, "na", gna, NodeOf(sys, ed.to), Cfg(sys).leaseticks))
                /\ gpd' = Step(CfgPD(sys), gpd, PartAt(e, "pd", gpd, NodeOf(sys, ed.to), Cfg(sys).leaseticks))
                /\ lastop' = e.op
                /\ viol' = AllClauses(sys, gna, gpd, e, NodeOf(sys, ed.to)) \cap Watch
                /\ path' = Append(path, ed.id)
                /\ UNCHANGED sys

Spec == Init /\ [][Next]_vars
Report == viol = {} \/ PrintT(<<"VIOLATION", ToJson([system |-> Systems[sys].name, clauses |-> viol, path |-> path])>>)
View == <<sys, node, gna, gpd, viol>>
=============================================================================
