SPECIFICATION Spec
CONSTANTS NClients = 2  UsableSet = {1, 2}  NUnits = 3
INVARIANTS NoDouble BoundUsable
PROPERTIES DeclinedNeverGiven
VIEW View
CHECK_DEADLOCK FALSE
