SPECIFICATION Spec
CONSTANTS NClients = 2  UsableSet = {1, 2, 3}  NUnits = 4
INVARIANTS NoDouble BoundUsable
PROPERTIES DeclinedNeverGiven
VIEW View
CHECK_DEADLOCK FALSE
