------------------------------ MODULE PppFsmImpl ------------------------------
(***************************************************************************)
(* U2/U3: TLC model-checks the transition systems EXTRACTED FROM THE REAL   *)
(* automata (bundle.json, written by harness/pppfsm) against the contract.  *)
(* A system is the breadth-first closure of one configured automaton over   *)
(* the event alphabet (a graph, fixed point) or one long random execution   *)
(* (a chain).  The ghost g is what crossed the automaton's boundary; every  *)
(* output and every reported state is judged against it.                    *)
(*                                                                         *)
(* Monitor style (see PoolImpl.tla): a violated clause is recorded in viol, *)
(* the violating state is reported once and not explored further.           *)
(*                                                                         *)
(* Refinement layer: every table edge is also compared with the RFC 1661    *)
(* table (Rfc1661.tla); differences are printed as one DRIFT line - they    *)
(* are information, never violations.                                       *)
(***************************************************************************)
EXTENDS PppFsm, Json, SequencesExt

CONSTANT Watch        \* set of clause names this run is about

Bundle == JsonDeserialize("bundle.json")
Systems == Bundle.systems

VARIABLES sys, node, g, viol, path, lastop

vars == <<sys, node, g, viol, path, lastop>>

Cfg(i)   == Systems[i].cfg
NodeOf(i, n) == Systems[i].nodes[n]
EdgesOf(i, n) == Systems[i].edges[n]

Init == /\ sys \in 1..Len(Systems)
        /\ node = Systems[sys].init
        /\ g = [G0(Cfg(sys)) EXCEPT !.opened = IsOpened(NodeOf(sys, node))]
        /\ lastop = "init"
        /\ viol = NodeClauses(Cfg(sys), g, NodeOf(sys, node), "init") \cap Watch
        /\ path = <<>>

Next == /\ viol = {}
        /\ \E k \in 1..Len(EdgesOf(sys, node)) :
             LET ed == EdgesOf(sys, node)[k]
                 e  == ed.ev
                 g2 == Step(Cfg(sys), g, e, NodeOf(sys, ed.to))
             IN /\ node' = ed.to
                /\ g' = Settle(g2)
                /\ lastop' = e.op
                /\ viol' = (EdgeClauses(Cfg(sys), g, e) \cup NodeClauses(Cfg(sys), g2, NodeOf(sys, ed.to), e.op)) \cap Watch
                /\ path' = Append(path, ed.id)
                /\ UNCHANGED sys

Spec == Init /\ [][Next]_vars

\* always TRUE; prints one line per distinct violating state
Report == viol = {} \/ PrintT(<<"VIOLATION", ToJson([system |-> Systems[sys].name, clauses |-> viol, path |-> path])>>)

\* the abstract safety property, on the ghost state reached through real transitions
MutualAck == viol = {} => OpenedOnlyOnMutualAck(g)

View == <<sys, node, g, viol>>

---------------------------------------------------------------------------
\* Refinement to RFC 1661 (information only)
R == INSTANCE Rfc1661

ActOf(code) == CASE code = 1 -> "scr" [] code = 2 -> "sca" [] code \in {3, 4} -> "scn" [] code = 5 -> "str"
                 [] code = 6 -> "sta" [] code = 7 -> "scj" [] code = 10 -> "ser" [] OTHER -> "other"
ImplActs(e) == {ActOf(e.out[i].code) : i \in 1..Len(e.out)}

\* the RFC events an alphabet event may stand for ({}: a packet RFC 1661 discards silently)
RfcOf(op) == CASE op \in {"Up", "Down", "Open", "Close", "RTR", "RTA", "RCA", "RCN", "RCR+"} -> {op}
               [] op = "TO" -> {"TO+", "TO-"}
               [] op \in {"RCR-nak", "RCR-rej", "RCR-wrong", "RCR-mix"} -> {"RCR-"}
               [] op = "RCR-empty" -> {"RCR+"}
               [] op = "RCR-dns0" -> {"RCR+", "RCR-"}   \* acceptable or not is the automaton's policy
               [] op = "RCJ" -> {"RCN"}
               [] op = "Unknown" -> {"RUC"}
               [] op \in {"CodeRej-crit", "ProtoRej-lcp"} -> {"RXJ-"}
               [] op \in {"CodeRej-other", "ProtoRej-other"} -> {"RXJ+"}
               [] op \in {"EchoReq", "EchoReply", "Discard"} -> {"RXR"}
               [] OTHER -> {}
Discarded(op) == op \in {"RCA-stale", "RCA-next", "RCN-stale", "RCJ-stale", "RCR-bad", "Short", "EchoReq-short"}

Expect(s, op) ==   \* set of <<next, wire actions>> RFC 1661 allows
  IF Discarded(op) THEN {<<s, {}>>}
  ELSE LET rows == {R!T[s][ev] : ev \in RfcOf(op)}
           legal == {r \in rows : r.ok}
       IN IF legal = {} THEN {<<s, {}>>}   \* cannot occur per RFC: expect nothing to happen
          ELSE {<<r.next, IF op \in {"EchoReply", "Discard"} THEN R!Wire(r.acts) \ {"ser"} ELSE R!Wire(r.acts)>> : r \in legal}

Tables == {i \in 1..Len(Systems) : Systems[i].closed}
Drift == UNION { UNION { { [impl |-> Systems[i].name, state |-> NodeOf(i, n).state, event |-> EdgesOf(i, n)[k].ev.op,
                            impl_next |-> NodeOf(i, EdgesOf(i, n)[k].to).state, impl_sends |-> ImplActs(EdgesOf(i, n)[k].ev),
                            rfc |-> Expect(NodeOf(i, n).state, EdgesOf(i, n)[k].ev.op)]
                          : k \in {k \in 1..Len(EdgesOf(i, n)) :
                                     /\ EdgesOf(i, n)[k].ev.kind \notin {"fire", "run"}
                                     \* a period in which no timer expired (none pending, or its goroutine is held) is no RFC event
                                     /\ ~(EdgesOf(i, n)[k].ev.kind = "to" /\ EdgesOf(i, n)[k].to = n /\ Len(EdgesOf(i, n)[k].ev.out) = 0)
                                     /\ <<NodeOf(i, EdgesOf(i, n)[k].to).state, ImplActs(EdgesOf(i, n)[k].ev)>>
                                          \notin Expect(NodeOf(i, n).state, EdgesOf(i, n)[k].ev.op)} }
                        : n \in 1..Len(Systems[i].nodes) }
               : i \in Tables }
ASSUME PrintT(<<"DRIFT", ToJson(Drift)>>)
=============================================================================
