SPECIFICATION Spec
CONSTANTS Mode = "any"  MaxConf = 2  MaxTerm = 1  HistLen = 4
INVARIANTS OpenedSafeHist GhostAgrees OpenedSafe RetxBounded LeavesH
CONSTRAINT HistBound
CHECK_DEADLOCK FALSE
