SPECIFICATION Spec
CONSTANT Watch = {"OpenedSafe", "LeavesOpened", "ReplyEchoesId", "AckRepeats", "NakRejOnlyOffending", "IpcpAcksOnlyAssigned", "BoundedRetx"}
INVARIANTS Report
VIEW View
CHECK_DEADLOCK FALSE
