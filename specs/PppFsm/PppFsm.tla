------------------------------- MODULE PppFsm -------------------------------
(***************************************************************************)
(* Contract of a PPP control-protocol automaton (LCP, IPCP, IPV6CP) -      *)
(* property C11.  The contract never looks inside the automaton: it keeps  *)
(* GHOST state computed only from what crossed the automaton's boundary    *)
(* (administrative events, packets fed to its receive entry point, timer   *)
(* expiries, packets it handed to its send callback, calls it made to the  *)
(* address pool) and judges the state it REPORTS (GetState/IsOpened).      *)
(*                                                                         *)
(* clause                sentence of the property                          *)
(* --------------------  ------------------------------------------------ *)
(* OpenedSafe            "reports the opened state only while it has       *)
(*                       acknowledged the peer's most recent configure-    *)
(*                       request and the peer has acknowledged its own     *)
(*                       most recent configure-request"                    *)
(* LeavesOpened          "any renegotiation, terminate or lower-layer-down *)
(*                       event leaves the opened state"                    *)
(* ReplyEchoesId         "every reply echoes the request's identifier"     *)
(* AckRepeats            "an acknowledgement repeats the request's options *)
(*                       unchanged"                                        *)
(* NakRejOnlyOffending   "a nak or reject lists only offending options"    *)
(* IpcpAcksOnlyAssigned  "IPCP acknowledges only the address assigned to   *)
(*                       the session"                                      *)
(* BoundedRetx           "against a silent peer the automaton stops after  *)
(*                       the configured number of retransmissions"         *)
(* (Panic                a crash of the automaton; reported by the         *)
(*                       explorer, there is nothing to judge)              *)
(*                                                                         *)
(* Weakest readings (DESIGN.md section 6 style):                           *)
(*  - "renegotiation event" = a well-formed Configure-Request, or a        *)
(*    Configure-Ack/Nak/Reject carrying the identifier of our latest       *)
(*    Configure-Request; "terminate event" = a well-formed Terminate-      *)
(*    Request / Terminate-Ack or the administrative Close; stale           *)
(*    identifiers, malformed packets, code/protocol rejects, echoes and    *)
(*    unknown codes are unconstrained.                                     *)
(*  - a reply is a Configure-Ack/Nak/Reject sent while handling a          *)
(*    Configure-Request, a Terminate-Ack sent while handling a Terminate-  *)
(*    Request, an Echo-Reply sent while handling an Echo-Request.          *)
(*  - "configured number of retransmissions" N: at most N requests are     *)
(*    re-sent on consecutive timer expiries with no other event between,   *)
(*    and from a negotiating/terminating state at most N+1 silent restart  *)
(*    periods pass before a quiescent state is reported (RFC 1661 itself   *)
(*    needs N-1 retransmissions and N periods).                            *)
(*  - "offending" option: one the alphabet marks bad (unknown type, value  *)
(*    out of range) or, for the IPCP address option, any value other than  *)
(*    the address assigned to the session.  What a Nak suggests is free.   *)
(***************************************************************************)
EXTENDS Integers, FiniteSets, Sequences, TLC

\* cfg = [impl, proto, maxconf, maxterm, static, pool]
\* e   = [op, kind, wf, code, idrel, opts, out, err, pool]
\*       kind: "admin" | "to" (restart period passes, expiry handled) | "fire" (expiry held
\*             before the automaton lock) | "run" (held expiry proceeds) | "pkt"
\*       opts: sequence of [t, d, k]   options of the packet fed in (k: "good"|"bad"|"ip"|"any")
\*       out : sequence of [code, idrel, opts (seq of [t, d]), wf]  packets sent (wf: decodable)
\*       idrel: identifier minus our latest Configure-Request identifier before the event
\*       pool: sequence of [op ("alloc"|"release"), addr]  calls made to the address pool
\* n   = [state, opened, silent]   silent: sequence of [state, creq, treq] (probe) or <<>>

CReq == 1  CAck == 2  CNak == 3  CRej == 4  TReq == 5  TAck == 6  CodeRej == 7  EchoReq == 9  EchoRep == 10

Quiet     == {"Initial", "Starting", "Closed", "Stopped"}
Transient == {"Closing", "Stopping", "Req-Sent", "Ack-Rcvd", "Ack-Sent"}

IsOpened(n) == n.opened \/ n.state = "Opened"

G0(cfg) == [haveReq |-> FALSE, peerAcked |-> FALSE, iAcked |-> FALSE, retxC |-> 0, retxT |-> 0,
            assigned |-> cfg.static, opened |-> FALSE, wasOpened |-> FALSE, mustLeave |-> FALSE]

Idx(s) == 1..Len(s)
Count(s, P(_)) == Cardinality({i \in Idx(s) : P(s[i])})
TD(os) == [i \in Idx(os) |-> <<os[i].t, os[i].d>>]

IsPkt(e, c)   == e.kind = "pkt" /\ e.wf /\ e.code = c
\* the peer's answer to OUR latest configure-request
ValidReply(g, e) == e.kind = "pkt" /\ e.wf /\ e.code \in {CAck, CNak, CRej} /\ e.idrel = 0 /\ g.haveReq
MustLeave(g, e) == \/ IsPkt(e, CReq) \/ ValidReply(g, e) \/ IsPkt(e, TReq) \/ IsPkt(e, TAck)
                   \/ e.op = "Down" \/ e.op = "Close"

\* address assigned to the session after the pool calls of step e
RECURSIVE AssignedAfter(_, _, _)
AssignedAfter(a, calls, i) ==
  IF i > Len(calls) THEN a
  ELSE AssignedAfter(IF calls[i].op = "release" THEN ""
                     ELSE IF calls[i].op = "alloc" /\ calls[i].addr # "" THEN calls[i].addr ELSE a,
                     calls, i + 1)
Assigned(g, e) == AssignedAfter(g.assigned, e.pool, 1)

\* may be listed in a Nak/Reject: marked bad, or left to the automaton's policy ("any", random chains)
Bad(g, o)  == o.k \in {"bad", "any"} \/ (o.k = "ip" /\ o.d # g.assigned)
ReplyCodes(e) == IF IsPkt(e, CReq) THEN {CAck, CNak, CRej}
                 ELSE IF IsPkt(e, TReq) THEN {TAck}
                 ELSE IF IsPkt(e, EchoReq) THEN {EchoRep} ELSE {}
Timer(e) == e.kind \in {"to", "run"}
NCReq(e) == Count(e.out, LAMBDA o : o.code = CReq)
NTReq(e) == Count(e.out, LAMBDA o : o.code = TReq)

\* the set of clause names violated by implementation step e taken in ghost state g
EdgeClauses(cfg, g, e) ==
     (IF \E i \in Idx(e.out) : e.out[i].code \in ReplyCodes(e) /\ e.out[i].idrel # e.idrel
        THEN {"ReplyEchoesId"} ELSE {})
\cup (IF IsPkt(e, CReq) /\ \E i \in Idx(e.out) : e.out[i].code = CAck /\ (~e.out[i].wf \/ TD(e.out[i].opts) # TD(e.opts))
        THEN {"AckRepeats"} ELSE {})
\cup (IF IsPkt(e, CReq) /\ \E i \in Idx(e.out) :
           LET o == e.out[i]
               badT  == {e.opts[j].t : j \in {j \in Idx(e.opts) : Bad(g, e.opts[j])}}
               badTD == {<<e.opts[j].t, e.opts[j].d>> : j \in {j \in Idx(e.opts) : Bad(g, e.opts[j])}}
           IN \/ o.code = CNak /\ (~o.wf \/ \E k \in Idx(o.opts) : o.opts[k].t \notin badT)
              \/ o.code = CRej /\ (~o.wf \/ \E k \in Idx(o.opts) : <<o.opts[k].t, o.opts[k].d>> \notin badTD)
        THEN {"NakRejOnlyOffending"} ELSE {})
\cup (IF cfg.proto = "ipcp" /\ \E i \in Idx(e.out) : e.out[i].code = CAck /\
           \E k \in Idx(e.out[i].opts) : e.out[i].opts[k].t = 3 /\ e.out[i].opts[k].d # Assigned(g, e)
        THEN {"IpcpAcksOnlyAssigned"} ELSE {})
\cup (IF Timer(e) /\ (g.retxC + NCReq(e) > cfg.maxconf \/ g.retxT + NTReq(e) > cfg.maxterm)
        THEN {"BoundedRetx"} ELSE {})

\* index of the last configure reply among the outputs (0: none)
LastReply(e) == LET R == {i \in Idx(e.out) : e.out[i].code \in {CAck, CNak, CRej}}
                IN IF R = {} THEN 0 ELSE CHOOSE i \in R : \A j \in R : j <= i

\* the ghost state after implementation step e; obs = the observation made after it
Step(cfg, g, e, obs) ==
  LET newReq == NCReq(e) > 0
      lr     == LastReply(e)
  IN [haveReq   |-> g.haveReq \/ newReq,
      \* set by the peer's Ack of our latest request, cleared by every request we send
      peerAcked |-> IF newReq THEN FALSE ELSE (g.peerAcked \/ (ValidReply(g, e) /\ e.code = CAck)),
      \* a new request of the peer is unanswered until our reply to it is an Ack echoing it
      iAcked    |-> IF IsPkt(e, CReq)
                      THEN lr # 0 /\ e.out[lr].code = CAck /\ e.out[lr].idrel = e.idrel
                      ELSE g.iAcked,
      retxC     |-> IF Timer(e) THEN g.retxC + NCReq(e) ELSE IF e.kind = "fire" THEN g.retxC ELSE 0,
      retxT     |-> IF Timer(e) THEN g.retxT + NTReq(e) ELSE IF e.kind = "fire" THEN g.retxT ELSE 0,
      assigned  |-> Assigned(g, e),
      opened    |-> IsOpened(obs),
      wasOpened |-> g.opened,
      mustLeave |-> MustLeave(g, e)]

\* wasOpened / mustLeave only serve the judgement of the observation that follows the step;
\* once judged they are forgotten (keeps the monitored state space small)
Settle(g) == [g EXCEPT !.wasOpened = FALSE, !.mustLeave = FALSE]

RECURSIVE SumC(_, _)
SumC(s, i) == IF i > Len(s) THEN 0 ELSE s[i].creq + SumC(s, i + 1)
RECURSIVE SumT(_, _)
SumT(s, i) == IF i > Len(s) THEN 0 ELSE s[i].treq + SumT(s, i + 1)
MinOf(a, b) == IF a < b THEN a ELSE b

\* the set of clause names violated by the observation n made in ghost state g
NodeClauses(cfg, g, n, lastop) ==
     (IF IsOpened(n) /\ ~(g.peerAcked /\ g.iAcked) THEN {"OpenedSafe"} ELSE {})
\cup (IF g.wasOpened /\ g.mustLeave /\ IsOpened(n) THEN {"LeavesOpened"} ELSE {})
\cup (IF Len(n.silent) > 0 /\ n.state \in Transient /\
         LET lim == IF n.state \in {"Closing", "Stopping"} THEN cfg.maxterm ELSE cfg.maxconf
         IN \/ ~\E k \in 1..MinOf(lim + 1, Len(n.silent)) : n.silent[k].state \in Quiet
            \/ g.retxC + SumC(n.silent, 1) > cfg.maxconf
            \/ g.retxT + SumT(n.silent, 1) > cfg.maxterm
        THEN {"BoundedRetx"} ELSE {})

\* what the property ultimately says, on the ghost state
OpenedOnlyOnMutualAck(g) == g.opened => g.peerAcked /\ g.iAcked
=============================================================================
