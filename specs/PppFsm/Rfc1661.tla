------------------------------ MODULE Rfc1661 ------------------------------
(***************************************************************************)
(* The state transition table of RFC 1661 section 4.1, as data.            *)
(* T[state][event] = [ok, next, acts]; ok = FALSE marks the "-" entries    *)
(* (event cannot occur in that state).  Actions: tlu tld tls tlf (layer    *)
(* signals), irc zrc (restart counter), scr sca scn str sta scj ser (send  *)
(* Configure-Request / -Ack / -Nak-or-Reject / Terminate-Request /         *)
(* Terminate-Ack / Code-Reject / Echo-Reply).  RCN stands for a received   *)
(* Configure-Nak or Configure-Reject.                                      *)
(***************************************************************************)
EXTENDS Naturals, Sequences

States == {"Initial", "Starting", "Closed", "Stopped", "Closing", "Stopping", "Req-Sent", "Ack-Rcvd", "Ack-Sent", "Opened"}
RfcEvents == {"Up", "Down", "Open", "Close", "TO+", "TO-", "RCR+", "RCR-", "RCA", "RCN", "RTR", "RTA", "RUC", "RXJ+", "RXJ-", "RXR"}
WireActs == {"scr", "sca", "scn", "str", "sta", "scj", "ser"}

X == [ok |-> FALSE, next |-> "-", acts |-> <<>>]
N(s) == [ok |-> TRUE, next |-> s, acts |-> <<>>]
A(s, a) == [ok |-> TRUE, next |-> s, acts |-> a]

T ==
 [ s \in States |->
   CASE s = "Initial" ->
     [ev \in RfcEvents |-> CASE ev = "Up" -> N("Closed") [] ev = "Open" -> A("Starting", <<"tls">>) [] ev = "Close" -> N("Initial") [] OTHER -> X]
   [] s = "Starting" ->
     [ev \in RfcEvents |-> CASE ev = "Up" -> A("Req-Sent", <<"irc", "scr">>) [] ev = "Open" -> N("Starting")
                             [] ev = "Close" -> A("Initial", <<"tlf">>) [] OTHER -> X]
   [] s = "Closed" ->
     [ev \in RfcEvents |-> CASE ev = "Down" -> N("Initial") [] ev = "Open" -> A("Req-Sent", <<"irc", "scr">>) [] ev = "Close" -> N("Closed")
                             [] ev \in {"RCR+", "RCR-", "RCA", "RCN", "RTR"} -> A("Closed", <<"sta">>)
                             [] ev \in {"RTA", "RXJ+", "RXR"} -> N("Closed") [] ev = "RUC" -> A("Closed", <<"scj">>)
                             [] ev = "RXJ-" -> A("Closed", <<"tlf">>) [] OTHER -> X]
   [] s = "Stopped" ->
     [ev \in RfcEvents |-> CASE ev = "Down" -> A("Starting", <<"tls">>) [] ev = "Open" -> N("Stopped") [] ev = "Close" -> N("Closed")
                             [] ev = "RCR+" -> A("Ack-Sent", <<"irc", "scr", "sca">>) [] ev = "RCR-" -> A("Req-Sent", <<"irc", "scr", "scn">>)
                             [] ev \in {"RCA", "RCN", "RTR"} -> A("Stopped", <<"sta">>)
                             [] ev \in {"RTA", "RXJ+", "RXR"} -> N("Stopped") [] ev = "RUC" -> A("Stopped", <<"scj">>)
                             [] ev = "RXJ-" -> A("Stopped", <<"tlf">>) [] OTHER -> X]
   [] s = "Closing" ->
     [ev \in RfcEvents |-> CASE ev = "Down" -> N("Initial") [] ev = "Open" -> N("Stopping") [] ev = "Close" -> N("Closing")
                             [] ev = "TO+" -> A("Closing", <<"str">>) [] ev = "TO-" -> A("Closed", <<"tlf">>)
                             [] ev \in {"RCR+", "RCR-", "RCA", "RCN", "RXJ+", "RXR"} -> N("Closing")
                             [] ev = "RTR" -> A("Closing", <<"sta">>) [] ev = "RTA" -> A("Closed", <<"tlf">>)
                             [] ev = "RUC" -> A("Closing", <<"scj">>) [] ev = "RXJ-" -> A("Closed", <<"tlf">>) [] OTHER -> X]
   [] s = "Stopping" ->
     [ev \in RfcEvents |-> CASE ev = "Down" -> N("Starting") [] ev = "Open" -> N("Stopping") [] ev = "Close" -> N("Closing")
                             [] ev = "TO+" -> A("Stopping", <<"str">>) [] ev = "TO-" -> A("Stopped", <<"tlf">>)
                             [] ev \in {"RCR+", "RCR-", "RCA", "RCN", "RXJ+", "RXR"} -> N("Stopping")
                             [] ev = "RTR" -> A("Stopping", <<"sta">>) [] ev = "RTA" -> A("Stopped", <<"tlf">>)
                             [] ev = "RUC" -> A("Stopping", <<"scj">>) [] ev = "RXJ-" -> A("Stopped", <<"tlf">>) [] OTHER -> X]
   [] s = "Req-Sent" ->
     [ev \in RfcEvents |-> CASE ev = "Down" -> N("Starting") [] ev = "Open" -> N("Req-Sent") [] ev = "Close" -> A("Closing", <<"irc", "str">>)
                             [] ev = "TO+" -> A("Req-Sent", <<"scr">>) [] ev = "TO-" -> A("Stopped", <<"tlf">>)
                             [] ev = "RCR+" -> A("Ack-Sent", <<"sca">>) [] ev = "RCR-" -> A("Req-Sent", <<"scn">>)
                             [] ev = "RCA" -> A("Ack-Rcvd", <<"irc">>) [] ev = "RCN" -> A("Req-Sent", <<"irc", "scr">>)
                             [] ev = "RTR" -> A("Req-Sent", <<"sta">>) [] ev \in {"RTA", "RXJ+", "RXR"} -> N("Req-Sent")
                             [] ev = "RUC" -> A("Req-Sent", <<"scj">>) [] ev = "RXJ-" -> A("Stopped", <<"tlf">>) [] OTHER -> X]
   [] s = "Ack-Rcvd" ->
     [ev \in RfcEvents |-> CASE ev = "Down" -> N("Starting") [] ev = "Open" -> N("Ack-Rcvd") [] ev = "Close" -> A("Closing", <<"irc", "str">>)
                             [] ev = "TO+" -> A("Req-Sent", <<"scr">>) [] ev = "TO-" -> A("Stopped", <<"tlf">>)
                             [] ev = "RCR+" -> A("Opened", <<"sca", "tlu">>) [] ev = "RCR-" -> A("Ack-Rcvd", <<"scn">>)
                             [] ev \in {"RCA", "RCN"} -> A("Req-Sent", <<"scr">>)
                             [] ev = "RTR" -> A("Req-Sent", <<"sta">>) [] ev \in {"RTA", "RXJ+"} -> N("Req-Sent") [] ev = "RXR" -> N("Ack-Rcvd")
                             [] ev = "RUC" -> A("Ack-Rcvd", <<"scj">>) [] ev = "RXJ-" -> A("Stopped", <<"tlf">>) [] OTHER -> X]
   [] s = "Ack-Sent" ->
     [ev \in RfcEvents |-> CASE ev = "Down" -> N("Starting") [] ev = "Open" -> N("Ack-Sent") [] ev = "Close" -> A("Closing", <<"irc", "str">>)
                             [] ev = "TO+" -> A("Ack-Sent", <<"scr">>) [] ev = "TO-" -> A("Stopped", <<"tlf">>)
                             [] ev = "RCR+" -> A("Ack-Sent", <<"sca">>) [] ev = "RCR-" -> A("Req-Sent", <<"scn">>)
                             [] ev = "RCA" -> A("Opened", <<"irc", "tlu">>) [] ev = "RCN" -> A("Ack-Sent", <<"irc", "scr">>)
                             [] ev = "RTR" -> A("Req-Sent", <<"sta">>) [] ev \in {"RTA", "RXJ+", "RXR"} -> N("Ack-Sent")
                             [] ev = "RUC" -> A("Ack-Sent", <<"scj">>) [] ev = "RXJ-" -> A("Stopped", <<"tlf">>) [] OTHER -> X]
   [] s = "Opened" ->
     [ev \in RfcEvents |-> CASE ev = "Down" -> A("Starting", <<"tld">>) [] ev = "Open" -> N("Opened") [] ev = "Close" -> A("Closing", <<"tld", "irc", "str">>)
                             [] ev = "RCR+" -> A("Ack-Sent", <<"tld", "scr", "sca">>) [] ev = "RCR-" -> A("Req-Sent", <<"tld", "scr", "scn">>)
                             [] ev \in {"RCA", "RCN", "RTA"} -> A("Req-Sent", <<"tld", "scr">>)
                             [] ev = "RTR" -> A("Stopping", <<"tld", "zrc", "sta">>)
                             [] ev = "RUC" -> A("Opened", <<"scj">>) [] ev = "RXJ+" -> N("Opened")
                             [] ev = "RXJ-" -> A("Stopping", <<"tld", "irc", "str">>) [] ev = "RXR" -> A("Opened", <<"ser">>) [] OTHER -> X] ]

Wire(acts) == {acts[i] : i \in 1..Len(acts)} \cap WireActs
=============================================================================
