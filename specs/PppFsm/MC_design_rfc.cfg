SPECIFICATION Spec
CONSTANTS Mode = "rfc"  MaxConf = 2  MaxTerm = 2  HistLen = 0
INVARIANTS OpenedSafe NoClause RetxBounded
PROPERTIES NoEdgeClause Leaves Terminates
CHECK_DEADLOCK FALSE
