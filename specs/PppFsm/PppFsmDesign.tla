---------------------------- MODULE PppFsmDesign ----------------------------
(***************************************************************************)
(* U1 for property C11, two model-checked systems (constant Mode):         *)
(*                                                                         *)
(* "any"  contract sanity.  An ARBITRARY automaton: on every event it may  *)
(*        send any packets from a small menu (right and wrong replies,     *)
(*        fresh requests) and report any state; the only restriction is    *)
(*        that the contract (PppFsm.tla) raises no clause.  TLC checks     *)
(*        that then the property holds when stated INDEPENDENTLY of the    *)
(*        ghosts, on the recorded wire history: Opened only while the last *)
(*        request of the peer was answered by an echoing Ack and our last  *)
(*        request was acknowledged (OpenedSafeHist), the ghosts equal the  *)
(*        history predicates (GhostAgrees), renegotiation / terminate /    *)
(*        down events leave Opened, consecutive retransmissions stay       *)
(*        within the configured number.                                    *)
(*                                                                         *)
(* "rfc"  the RFC 1661 automaton (Rfc1661.tla, with restart counter and    *)
(*        restart timer) as a TLA+ specification, driven by an arbitrary   *)
(*        peer.  Its packets are rendered as contract events; TLC checks   *)
(*        that it never raises a clause (so the contract does not reject   *)
(*        the reference automaton), OpenedSafe, and - liveness - that once *)
(*        the peer falls silent it reaches a quiescent state.  This model  *)
(*        is also the refinement target of PppFsmImpl (DRIFT lines).       *)
(***************************************************************************)
EXTENDS PppFsm, SequencesExt

CONSTANTS Mode, MaxConf, MaxTerm, HistLen

R == INSTANCE Rfc1661

Cfg == [impl |-> "design", proto |-> "lcp", maxconf |-> MaxConf, maxterm |-> MaxTerm, static |-> "", pool |-> ""]

VARIABLES st, rc, g, hist, silent, last, leftOk
vars == <<st, rc, g, hist, silent, last, leftOk>>

Good == [t |-> 1, d |-> "g", k |-> "good"]
BadO == [t |-> 9, d |-> "b", k |-> "bad"]
NoK(o) == [t |-> o.t, d |-> o.d]

Pkt(code, idrel, opts) == [code |-> code, idrel |-> idrel, opts |-> opts, wf |-> TRUE]
Ev(op, kind, code, idrel, opts, out) ==
  [op |-> op, kind |-> kind, wf |-> TRUE, code |-> code, idrel |-> idrel, opts |-> opts, out |-> out, err |-> "", pool |-> <<>>]
Obs(s) == [state |-> s, opened |-> s = "Opened", silent |-> <<>>]

\* the events of the alphabet as (op, kind, code, idrel, opts); peer request identifiers 10 / 11
PeerEvents ==
  {<<"RCR+", "pkt", 1, i, <<Good>>>> : i \in {10, 11}} \cup {<<"RCR-nak", "pkt", 1, i, <<Good, BadO>>>> : i \in {10, 11}}
  \cup {<<"RCA", "pkt", 2, 0, <<>>>>, <<"RCA-stale", "pkt", 2, 255, <<>>>>, <<"RCN", "pkt", 3, 0, <<>>>>, <<"RCN-stale", "pkt", 3, 255, <<>>>>,
        <<"RTR", "pkt", 5, 20, <<>>>>, <<"RTA", "pkt", 6, 21, <<>>>>, <<"Unknown", "pkt", 42, 22, <<>>>>,
        <<"CodeRej-other", "pkt", 7, 23, <<>>>>, <<"CodeRej-crit", "pkt", 7, 24, <<>>>>, <<"EchoReq", "pkt", 9, 25, <<>>>>}
AdminEvents == {<<"Up", "admin", 0, 0, <<>>>>, <<"Down", "admin", 0, 0, <<>>>>, <<"Open", "admin", 0, 0, <<>>>>, <<"Close", "admin", 0, 0, <<>>>>}
TimerEvent == <<"TO", "to", 0, 0, <<>>>>

---------------------------------------------------------------------------
\* history-based statement of the property (independent of the ghosts)
\* hist: sequence of <<what, id>>: "scr" (we sent a request, absolute id), "RCA" (peer acked id),
\*       "RCR" (peer request id), "sca"/"scn" (we answered Ack / Nak-Reject with id)
LastIdx(w) == LET S == {i \in 1..Len(hist) : hist[i][1] \in w} IN IF S = {} THEN 0 ELSE CHOOSE i \in S : \A j \in S : j <= i
MyId == Cardinality({i \in 1..Len(hist) : hist[i][1] = "scr"})
PeerAckedH == LET l == LastIdx({"scr"}) IN l # 0 /\ \E i \in (l+1)..Len(hist) : hist[i] = <<"RCA", hist[l][2]>>
IAckedH == LET l == LastIdx({"RCR"}) r == LastIdx({"sca", "scn"}) IN l # 0 /\ r > l /\ hist[r] = <<"sca", hist[l][2]>>
OpenedSafeHist == st = "Opened" => PeerAckedH /\ IAckedH
GhostAgrees == Mode = "any" => g.peerAcked = PeerAckedH /\ g.iAcked = IAckedH /\ g.haveReq = (MyId > 0)

\* wire history contributed by event ev with outputs out (absolute identifiers)
HistOf(ev, out) ==
  LET inp == IF ev[1] \in {"RCR+", "RCR-nak"} THEN << <<"RCR", ev[4]>> >>
             ELSE IF ev[1] \in {"RCA", "RCA-stale"} /\ MyId > 0 THEN << <<"RCA", IF ev[4] = 0 THEN MyId ELSE MyId - 1>> >> ELSE <<>>
      F[i \in 0..Len(out)] ==   \* <<history, requests sent so far>>
        IF i = 0 THEN <<inp, 0>>
        ELSE LET o == out[i] h == F[i-1][1] n == F[i-1][2]
             IN IF o.code = 1 THEN <<Append(h, <<"scr", MyId + n + 1>>), n + 1>>
                ELSE IF o.code = 2 THEN <<Append(h, <<"sca", o.idrel>>), n>>
                ELSE IF o.code \in {3, 4} THEN <<Append(h, <<"scn", o.idrel>>), n>>
                ELSE <<h, n>>
  IN F[Len(out)][1]

---------------------------------------------------------------------------
\* Mode "any": an arbitrary automaton restricted only by the contract
Menu(ev) ==   \* candidate output sequences
  LET req == {<<>>, <<Pkt(1, 1, <<NoK(Good)>>)>>}
      rep == IF ev[3] = 1
               THEN {<<>>, <<Pkt(2, ev[4], [i \in 1..Len(ev[5]) |-> NoK(ev[5][i])])>>,   \* proper Ack
                     <<Pkt(2, ev[4] + 1, [i \in 1..Len(ev[5]) |-> NoK(ev[5][i])])>>,      \* Ack, wrong identifier
                     <<Pkt(2, ev[4], <<NoK(Good), NoK(Good)>>)>>,                          \* Ack, options changed
                     <<Pkt(3, ev[4], <<NoK(BadO)>>)>>,                                    \* Nak of the offending option
                     <<Pkt(3, ev[4], <<NoK(Good)>>)>>,                                    \* Nak listing an acceptable option
                     <<Pkt(2, ev[4], [i \in 1..Len(ev[5]) |-> NoK(ev[5][i])]), Pkt(3, ev[4], <<NoK(BadO)>>)>>}  \* Ack then Nak
             ELSE IF ev[3] = 5 THEN {<<>>, <<Pkt(6, ev[4], <<>>)>>, <<Pkt(6, 0, <<>>)>>}
             ELSE IF ev[3] = 9 THEN {<<>>, <<Pkt(10, ev[4], <<>>)>>}
             ELSE {<<>>}
      trm == IF ev[1] \in {"Close", "TO"} THEN {<<>>, <<Pkt(5, 1, <<>>)>>} ELSE {<<>>}
  IN {a \o b \o c : a \in rep, b \in req, c \in trm}

\* renegotiation / terminate / lower-layer-down events, told from the raw event and the history only
MustLeaveH(ev) == ev[1] \in {"RCR+", "RCR-nak", "RTR", "RTA", "Down", "Close"} \/ (ev[1] \in {"RCA", "RCN"} /\ MyId > 0)
AnyStates == {"Opened", "Stopped"}   \* reported state: opened or not (nothing else matters to these clauses)

AnyStep(ev) ==
  \E out \in Menu(ev) :
    LET e == Ev(ev[1], ev[2], ev[3], ev[4], ev[5], out) IN
    /\ EdgeClauses(Cfg, g, e) = {}
    /\ \E s2 \in AnyStates :
         LET g2 == Step(Cfg, g, e, Obs(s2)) IN
         /\ NodeClauses(Cfg, g2, Obs(s2), ev[1]) = {}
         /\ st' = s2 /\ g' = g2
         /\ leftOk' = ~(st = "Opened" /\ MustLeaveH(ev) /\ s2 = "Opened")
         /\ hist' = hist \o HistOf(ev, out)
         /\ UNCHANGED <<rc, silent, last>>

AnyEvents == {ev \in PeerEvents \cup AdminEvents \cup {TimerEvent} :
                ev[1] \notin {"Unknown", "CodeRej-other", "CodeRej-crit", "Up", "Open", "RCN-stale", "RTA", "EchoReq"} /\ (ev[1] = "RCR-nak" => ev[4] = 10)}
NextAny == \E ev \in AnyEvents : AnyStep(ev)

---------------------------------------------------------------------------
\* Mode "rfc": the RFC 1661 automaton
RfcEv(op) == CASE op = "RCR-nak" -> "RCR-" [] op = "Unknown" -> "RUC" [] op = "CodeRej-other" -> "RXJ+"
               [] op = "CodeRej-crit" -> "RXJ-" [] op = "EchoReq" -> "RXR" [] OTHER -> op

\* packets produced by the action list acts while handling ev
OutOf(ev, acts) ==
  LET one(a) == CASE a = "scr" -> <<Pkt(1, 1, <<NoK(Good)>>)>>
                  [] a = "sca" -> <<Pkt(2, ev[4], [i \in 1..Len(ev[5]) |-> NoK(ev[5][i])])>>
                  [] a = "scn" -> <<Pkt(3, ev[4], <<NoK(BadO)>>)>>
                  [] a = "str" -> <<Pkt(5, 1, <<>>)>>
                  [] a = "sta" -> <<Pkt(6, ev[4], <<>>)>>
                  [] a = "scj" -> <<Pkt(7, 1, <<>>)>>
                  [] a = "ser" -> <<Pkt(10, ev[4], <<>>)>>
                  [] OTHER -> <<>>
      F[i \in 0..Len(acts)] == IF i = 0 THEN <<>> ELSE F[i-1] \o one(acts[i])
  IN F[Len(acts)]

\* restart counter after the action list (irc: Max-Terminate when a Terminate-Request follows)
RcOf(c, acts) ==
  LET term == \E i \in 1..Len(acts) : acts[i] = "str"
      F[i \in 0..Len(acts)] ==
        IF i = 0 THEN c
        ELSE CASE acts[i] = "irc" -> IF term THEN MaxTerm ELSE MaxConf
               [] acts[i] = "zrc" -> 0
               [] acts[i] \in {"scr", "str"} -> F[i-1] - 1
               [] OTHER -> F[i-1]
  IN F[Len(acts)]

RfcStep(ev) ==
  LET rev == IF ev[1] = "TO" THEN (IF rc > 0 THEN "TO+" ELSE "TO-") ELSE RfcEv(ev[1])
      stale == ev[1] \in {"RCA-stale", "RCN-stale"} \/ (ev[1] \in {"RCA", "RCN"} /\ ~g.haveReq)
      row == IF stale THEN R!N(st) ELSE R!T[st][rev]     \* invalid packets are silently discarded
      out == OutOf(ev, row.acts)
      e == Ev(ev[1], ev[2], ev[3], ev[4], ev[5], out)
  IN /\ row.ok
     /\ (ev[1] = "TO" => st \in Transient)               \* the restart timer runs exactly in these states
     /\ st' = row.next
     /\ rc' = RcOf(rc, row.acts)
     /\ g' = Step(Cfg, g, e, Obs(row.next))
     /\ last' = e
     /\ UNCHANGED <<hist, silent, leftOk>>

E0 == [op |-> "none", kind |-> "admin", wf |-> TRUE, code |-> 0, idrel |-> 0, opts |-> <<>>, out |-> <<>>, err |-> "", pool |-> <<>>]
Timeout == RfcStep(TimerEvent)
GoSilent == ~silent /\ silent' = TRUE /\ last' = E0 /\ UNCHANGED <<st, rc, g, hist, leftOk>>
NextRfc == \/ ~silent /\ \E ev \in PeerEvents \cup AdminEvents : RfcStep(ev)
           \/ Timeout
           \/ GoSilent

---------------------------------------------------------------------------
Init == /\ st = IF Mode = "any" THEN "Stopped" ELSE "Initial"
        /\ rc = 0 /\ g = G0(Cfg) /\ hist = <<>> /\ silent = FALSE /\ leftOk = TRUE /\ last = E0
Next == IF Mode = "any" THEN NextAny ELSE NextRfc
Spec == Init /\ [][Next]_vars /\ WF_vars(Timeout)

HistBound == Len(hist) <= HistLen

\* safety checked in both modes
OpenedSafe == st = "Opened" => g.peerAcked /\ g.iAcked
NoClause == Mode = "rfc" => /\ NodeClauses(Cfg, g, Obs(st), last.op) = {}
RetxBounded == g.retxC <= MaxConf /\ g.retxT <= MaxTerm
\* the reference automaton never raises an edge clause (evaluated on the step just taken)
NoEdgeClause == [][Mode = "rfc" => EdgeClauses(Cfg, g, last') = {}]_vars
Leaves == [][(Mode = "rfc" /\ st = "Opened" /\ MustLeave(g, last')) => st' # "Opened"]_vars
LeavesH == leftOk
\* liveness (mode rfc): a silent peer cannot keep the automaton negotiating or terminating
Terminates == silent ~> st \notin Transient
=============================================================================
