SPECIFICATION Spec
CONSTANTS N = 3  Mode = "hrw"
INVARIANTS HrwAccepted
VIEW View
CHECK_DEADLOCK FALSE
