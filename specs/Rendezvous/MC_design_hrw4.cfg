SPECIFICATION Spec
CONSTANTS N = 4  Mode = "hrw"
INVARIANTS HrwAccepted
VIEW View
CHECK_DEADLOCK FALSE
