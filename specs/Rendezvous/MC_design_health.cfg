SPECIFICATION Spec
CONSTANTS N = 3  Mode = "health"
INVARIANTS HealthLaw
VIEW View
CHECK_DEADLOCK FALSE
