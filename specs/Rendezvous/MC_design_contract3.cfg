SPECIFICATION Spec
CONSTANTS N = 3  Mode = "contract"
INVARIANTS Agreement OwnerIsMember Pairwise MultiStep RankingExists
VIEW View
CHECK_DEADLOCK FALSE
