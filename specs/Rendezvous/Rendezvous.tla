----------------------------- MODULE Rendezvous -----------------------------
(***************************************************************************)
(* Contract of subscriber ownership among peer gateways (property C17).    *)
(* Nodes of one universe are numbered 1..cfg.n (the harness maps the exact *)
(* node-id byte strings to these numbers; a string that is not a node of   *)
(* the universe is 0).  Subscribers are positions 1..nsubs of the answer   *)
(* vectors.  Every event is one observation of REAL PeerPool instances:    *)
(* what node `view`, whose configured peer set (what the operator          *)
(* configured / added / removed, as a set of names) is `peers`, answers    *)
(* for every subscriber.                                                   *)
(*                                                                         *)
(* The contract is silent about WHICH node owns a subscriber (no hash is   *)
(* modelled); it only relates answers to each other.                       *)
(*                                                                         *)
(* clause                 sentence of the property                         *)
(* ---------------------  ----------------------------------------------   *)
(* Agreement              "For every peer set, every order in which peers  *)
(*                        are configured or added, and every subscriber    *)
(*                        id, all nodes compute the same owner" - the      *)
(*                        owner vector of a peer set is bound by its first *)
(*                        observation, every later observation of the same *)
(*                        set (any node, any order, any add/remove         *)
(*                        history) must equal it; a node says "I am the    *)
(*                        owner" exactly when the owner it computes is     *)
(*                        itself (GetOwner / IsLocalOwner)                 *)
(* RankedStartsWithOwner  "the ranked fallback list starts with that owner"*)
(* RankedIsPermutation    "and is a permutation of the peer set"           *)
(* MinimalDisruption      "removing a peer or marking it unhealthy changes *)
(*                        ownership only for subscribers that peer owned": *)
(*                        sets: owner over P and over P+{x} differ only    *)
(*                        where the owner over P+{x} is x;                 *)
(*                        health (per viewing node, on one live node):     *)
(*                        with nothing marked unhealthy the effective      *)
(*                        owner is the owner; marking x unhealthy leaves   *)
(*                        the effective owner of every subscriber whose    *)
(*                        effective owner was not x unchanged              *)
(* ServedByOne            "A request entering at any node is served from   *)
(*                        exactly one node's pool": the request succeeds,  *)
(*                        exactly one node's pool then holds the           *)
(*                        subscriber, it is the node named in the answer,  *)
(*                        the address lies in that node's pool, and every  *)
(*                        entry node gets the answer of the same node      *)
(*                                                                         *)
(* Unconstrained (the property is silent): the empty peer set; what the    *)
(* effective owner is after a peer is marked healthy again (only the next  *)
(* marking is judged, against what was observed); whether the effective    *)
(* owner is itself healthy; the relation of serving node and owner.        *)
(***************************************************************************)
EXTENDS Integers, FiniteSets, Sequences, TLC

AsSet(s) == {s[i] : i \in 1..Len(s)}
Idx(v)   == 1..Len(v)

(***************************************************************************)
(* Answer encoding (pure positional packing done by the harness, decoded    *)
(* here; it exists only because loading the observations dominates the     *)
(* run time).  Node numbers are 0..8 (0 = a string that is no node of the   *)
(* universe).  For subscriber s of an observation e:                        *)
(*   e.obs[s] = owner + 9*effective owner + 81*isLocal + 162*len(ranked)    *)
(*   e.rk[s]  = sum over i of ranked[i] * 9^(i-1)                           *)
(* e.rk = <<>> when the ranked lists were not asked for in this event.      *)
(***************************************************************************)
Own(c)    == c % 9
HOwn(c)   == (c \div 9) % 9
Loc(c)    == ((c \div 81) % 2) = 1
RLen(c)   == c \div 162
RAt(r, i) == (r \div (9 ^ (i - 1))) % 9
RSet(r, n) == {RAt(r, i) : i \in 1..n}

NoPrev == [valid |-> FALSE, unhealthy |-> {}, ho |-> <<>>]

\* ghost state:
\*   own    : function  peer set (set of node numbers) -> owner vector, bound by first observation
\*   prev   : the previous observation of effective owners on the live node under observation
\*            (a "cfg" event replaces the live node and is itself its first observation)
\*   served : subscriber -> node that served it (0 = not yet served)
G0(cfg) == [own |-> <<>>, prev |-> NoPrev, served |-> [s \in 1..cfg.nsubs |-> 0]]

\* e = [op, view, x, healthy, peers, unhealthy, obs, rk]  (op in cfg/add/remove/health)
ObsClauses(cfg, g, e) ==
  LET P == AsSet(e.peers)
      H == AsSet(e.unhealthy)
      S == Idx(e.obs)
      R == Len(e.rk) > 0
  IN
       (IF \/ (P \in DOMAIN g.own /\ \E s \in S : Own(e.obs[s]) # g.own[P][s])
           \/ \E s \in S : Loc(e.obs[s]) # (Own(e.obs[s]) = e.view)
          THEN {"Agreement"} ELSE {})
  \cup (IF R /\ P # {} /\ \E s \in S : RLen(e.obs[s]) = 0 \/ RAt(e.rk[s], 1) # Own(e.obs[s])
          THEN {"RankedStartsWithOwner"} ELSE {})
  \cup (IF R /\ \E s \in S : RLen(e.obs[s]) # Cardinality(P) \/ RSet(e.rk[s], RLen(e.obs[s])) # P
          THEN {"RankedIsPermutation"} ELSE {})
  \cup (IF \/ \E x \in 1..cfg.n :
               LET Q == IF x \in P THEN P \ {x} ELSE P \cup {x} IN
               /\ Q \in DOMAIN g.own
               /\ IF x \in P
                  THEN \E s \in S : Own(e.obs[s]) # x /\ g.own[Q][s] # Own(e.obs[s])   \* Q = P - {x}
                  ELSE \E s \in S : g.own[Q][s] # x /\ Own(e.obs[s]) # g.own[Q][s]   \* Q = P + {x}
           \/ (P # {} /\ H = {} /\ \E s \in S : HOwn(e.obs[s]) # Own(e.obs[s]))
           \/ (e.op = "health" /\ ~e.healthy /\ g.prev.valid
                 /\ \E s \in S : g.prev.ho[s] # e.x /\ HOwn(e.obs[s]) # g.prev.ho[s])
          THEN {"MinimalDisruption"} ELSE {})

\* e = [op = "serve", entry, subs, ok, node, ippool, holders]
ServeClauses(g, e) ==
  IF \E i \in Idx(e.subs) :
        \/ ~e.ok[i]
        \/ AsSet(e.holders[i]) # {e.node[i]}
        \/ e.ippool[i] # e.node[i]
        \/ (g.served[e.subs[i]] # 0 /\ g.served[e.subs[i]] # e.node[i])
  THEN {"ServedByOne"} ELSE {}

\* e = [op = "servecut", ...as serve]: the connection that carries the request to another node is cut after
\* the request was delivered (the statement is silent about whether such a request succeeds). Whatever the
\* entry node answers, the subscriber is in at most one node's pool afterwards; an answer that claims success
\* names that node; and a subscriber already served stays where it was served.
CutClauses(g, e) ==
  IF \E i \in Idx(e.subs) :
        \/ Cardinality(AsSet(e.holders[i])) > 1
        \/ (e.ok[i] /\ (AsSet(e.holders[i]) # {e.node[i]} \/ e.ippool[i] # e.node[i]))
        \/ (g.served[e.subs[i]] # 0 /\ ~(AsSet(e.holders[i]) \subseteq {g.served[e.subs[i]]}))
  THEN {"ServedByOne"} ELSE {}

EdgeClauses(cfg, g, e) ==
  CASE e.op \in {"cfg", "add", "remove", "health"} -> ObsClauses(cfg, g, e)
    [] e.op = "serve" -> ServeClauses(g, e)
    [] e.op = "servecut" -> CutClauses(g, e)
    [] e.op = "release" ->   \* a release entering at any node reaches the one pool that holds the subscriber
         IF \E i \in Idx(e.subs) : AsSet(e.holders[i]) # {} THEN {"ServedByOne"} ELSE {}
    [] OTHER -> {}

Step(cfg, g, e, obs) ==
  CASE e.op \in {"cfg", "add", "remove", "health"} ->
         LET P == AsSet(e.peers) IN
         [g EXCEPT !.own  = IF P = {} \/ P \in DOMAIN g.own THEN g.own ELSE (P :> [s \in Idx(e.obs) |-> Own(e.obs[s])]) @@ g.own,
                   !.prev = [valid |-> TRUE, unhealthy |-> AsSet(e.unhealthy), ho |-> [s \in Idx(e.obs) |-> HOwn(e.obs[s])]]]
    [] e.op = "serve" ->
         [g EXCEPT !.served = [s \in DOMAIN g.served |->
                                 IF g.served[s] = 0 /\ \E i \in Idx(e.subs) : e.subs[i] = s
                                 THEN e.node[CHOOSE i \in Idx(e.subs) : e.subs[i] = s]
                                 ELSE g.served[s]]]
    [] e.op = "servecut" ->   \* whoever holds the subscriber now is where it is served from now on
         [g EXCEPT !.served = [s \in DOMAIN g.served |->
                                 IF g.served[s] = 0 /\ \E i \in Idx(e.subs) : e.subs[i] = s /\ AsSet(e.holders[i]) # {}
                                 THEN LET i == CHOOSE i \in Idx(e.subs) : e.subs[i] = s /\ AsSet(e.holders[i]) # {}
                                      IN CHOOSE x \in AsSet(e.holders[i]) : TRUE
                                 ELSE g.served[s]]]
    [] e.op = "release" ->
         [g EXCEPT !.served = [s \in DOMAIN g.served |-> IF \E i \in Idx(e.subs) : e.subs[i] = s THEN 0 ELSE g.served[s]]]
    [] OTHER -> g

NodeClauses(cfg, g, n, lastop) == {}

\* ---- what the property ultimately says about the ghost (used by RendezvousDesign) ----
\* one owner per peer set is built into `own` being a function; minimal disruption over
\* every pair of observed sets that differ by one peer:
PairwiseMinimal(g, s) ==
  \A P, Q \in DOMAIN g.own : \A x \in Q \ P : Q = P \cup {x} /\ g.own[Q][s] # x => g.own[P][s] = g.own[Q][s]
=============================================================================
