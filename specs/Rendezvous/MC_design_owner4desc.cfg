SPECIFICATION Spec
CONSTANTS N = 4  Mode = "owner-desc"
INVARIANTS Agreement OwnerIsMember Pairwise MultiStep RankingExists
VIEW View
CHECK_DEADLOCK FALSE
