------------------------------ MODULE RendezvousImpl ------------------------------
(***************************************************************************)
(* U3: TLC walks the observation chains recorded from REAL pool.PeerPool    *)
(* instances (bundle.json, written by harness/rendezvous) and judges every  *)
(* answer against the Rendezvous contract.  One system = one universe of    *)
(* node names x one block of subscriber ids; its edges are observation      *)
(* events (a node freshly configured with a peer list in some order, a peer *)
(* added / removed / marked (un)healthy on the live node, a batch of        *)
(* allocation requests entering at one node of a 3-node loopback cluster).  *)
(* The ghost g remembers the owner vector first observed for every peer     *)
(* set, the previous effective-owner vector of the live node and which node *)
(* served each subscriber.                                                  *)
(*                                                                         *)
(* Monitor style (as PoolImpl): a violated clause is recorded in viol, the  *)
(* violating state is printed as one JSON line and not explored further.    *)
(***************************************************************************)
EXTENDS Rendezvous, Json, SequencesExt

CONSTANT Watch        \* set of clause names this run is about

Bundle == JsonDeserialize("bundle.json")
Systems == Bundle.systems

VARIABLES sys, node, g, viol, path, lastop

vars == <<sys, node, g, viol, path, lastop>>

Cfg(i)   == Systems[i].cfg
NodeOf(i, n) == Systems[i].nodes[n]
EdgesOf(i, n) == Systems[i].edges[n]

Init == /\ sys \in 1..Len(Systems)
        /\ node = Systems[sys].init
        /\ g = G0(Cfg(sys))
        /\ lastop = "init"
        /\ viol = NodeClauses(Cfg(sys), g, NodeOf(sys, node), "init") \cap Watch
        /\ path = <<>>

Next == /\ viol = {}
        /\ \E k \in 1..Len(EdgesOf(sys, node)) :
             LET ed == EdgesOf(sys, node)[k]
                 e  == ed.ev
                 g2 == Step(Cfg(sys), g, e, NodeOf(sys, ed.to))
             IN /\ node' = ed.to
                /\ g' = g2
                /\ lastop' = e.op
                /\ viol' = (EdgeClauses(Cfg(sys), g, e) \cup NodeClauses(Cfg(sys), g2, NodeOf(sys, ed.to), e.op)) \cap Watch
                /\ path' = Append(path, ed.id)
                /\ UNCHANGED sys

Spec == Init /\ [][Next]_vars

\* always TRUE; prints one line per distinct violating state
Report == viol = {} \/ PrintT(<<"VIOLATION", ToJson([system |-> Systems[sys].name, clauses |-> viol, path |-> path])>>)

View == <<sys, node, g, viol>>
=============================================================================
