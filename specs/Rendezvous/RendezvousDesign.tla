-------------------------- MODULE RendezvousDesign --------------------------
(***************************************************************************)
(* U1 for C17: exhaustive checks of the Rendezvous contract itself (one     *)
(* subscriber: every clause is "exists a subscriber such that", so          *)
(* subscribers are independent).                                           *)
(*                                                                         *)
(* Mode "contract" (N = 3)  Next = ANY answer the contract accepts (no      *)
(*   clause violated): any peer set, asked at any member, any owner, any    *)
(*   is-local flag, any ranked list, in any order.  TLC checks that         *)
(*   whatever such a system answers,                                        *)
(*     - two answers for one peer set never differ (Agreement),             *)
(*     - the owner is a member of the peer set (OwnerIsMember),             *)
(*     - removing ANY SET of peers changes the owner only if a removed      *)
(*       peer owned the subscriber (MultiStep; needs the sets in between    *)
(*       to have been observed - the harness observes every subset),        *)
(*     - once every subset has been observed there is ONE ranking of the    *)
(*       nodes such that every answer is "first of the ranking inside the   *)
(*       peer set" (RankingExists) - the design-level reading of C17.       *)
(* Mode "owner-asc" / "owner-desc" (N = 4)  the same for four nodes; only   *)
(*   the fields the ghost depends on (peer set, owner) are free, the others *)
(*   are fixed to an accepted choice, and peer sets are first observed in   *)
(*   a fixed order (by size, ascending / descending; the clauses relate     *)
(*   pairs of observations symmetrically, so the reachable complete ghosts  *)
(*   do not depend on the order), then re-observed in any order.            *)
(* Mode "health" (N = 3)  one live node, peers fixed, any marking /         *)
(*   unmarking history, any accepted effective-owner answers: while only    *)
(*   markings happened since nothing was unhealthy, the effective owner     *)
(*   differs from the owner only if the owner is among the marked peers.    *)
(* Mode "hrw" (N = 4)  the intended design (highest-random-weight: one      *)
(*   ranking r per subscriber, owner = first of r inside the peer set,      *)
(*   effective owner = first of r inside the peer set that is healthy in    *)
(*   the view, self always healthy) is ACCEPTED by the contract: for every  *)
(*   ranking r of 4 nodes, every viewing node, peer set and health vector,  *)
(*   every next event (fresh configuration, add, remove, mark, unmark)      *)
(*   violates no clause against the ghost in which EVERY peer set is        *)
(*   already bound (the clauses only ever quantify existentially over the   *)
(*   bound sets, so fewer bound sets can only violate less).  The contract  *)
(*   raises no alarm on a correct implementation.                           *)
(***************************************************************************)
EXTENDS Rendezvous, SequencesExt

CONSTANTS N, Mode

Nodes == 1..N
Cfg == [nsubs |-> 1, n |-> N]
PeerSets == (SUBSET Nodes) \ {{}}

\* a set of nodes as a sequence (ascending)
NodeSeq(S) == SelectSeq([i \in 1..N |-> i], LAMBDA x : x \in S)

\* all orderings (sequences without repetition) of a set
Orderings(S) == {f \in [1..Cardinality(S) -> S] : \A i, j \in 1..Cardinality(S) : i # j => f[i] # f[j]}
RestrictTo(r, P) == SelectSeq(r, LAMBDA x : x \in P)
FirstIn(r, P) == RestrictTo(r, P)[1]

\* the harness' packing (see Rendezvous.tla)
RECURSIVE EncR(_, _)
EncR(rk, i) == IF i > Len(rk) THEN 0 ELSE rk[i] * (9 ^ (i - 1)) + EncR(rk, i + 1)
Enc(o, ho, loc, n) == o + 9 * ho + 81 * (IF loc THEN 1 ELSE 0) + 162 * n

Obs(op, v, x, healthy, Q, U, o, ho, loc, rk) ==
  [op |-> op, view |-> v, x |-> x, healthy |-> healthy, peers |-> NodeSeq(Q), unhealthy |-> NodeSeq(U),
   obs |-> <<Enc(o, ho, loc, Len(rk))>>, rk |-> <<EncR(rk, 1)>>]
\* health events do not carry ranked lists
ObsH(v, x, healthy, Q, U, o, ho, loc) ==
  [op |-> "health", view |-> v, x |-> x, healthy |-> healthy, peers |-> NodeSeq(Q), unhealthy |-> NodeSeq(U),
   obs |-> <<Enc(o, ho, loc, 0)>>, rk |-> <<>>]

VARIABLES g, hist, r, view, P, H, pure

vars == <<g, hist, r, view, P, H, pure>>

Seqs == UNION {Orderings(S) : S \in SUBSET Nodes}

\* ---- Mode "contract": any accepted answer ------------------------------------------------
\* An answer is accepted iff the Agreement clause accepts (peers, owner, view, is-local), the two
\* ranked clauses accept (peers, owner, ranked) and MinimalDisruption accepts (peers, owner); the
\* next ghost depends on (peers, owner) only.  So instead of the full product it is enough (and
\* exact) to let (view, is-local) range freely beside one ranked list that the ranked clauses
\* accept whenever they accept any (owner first, then the rest), and the ranked list range
\* freely beside the truthful (view, is-local).
CanonRk(Q, o) == IF o \in Q THEN <<o>> \o NodeSeq(Q \ {o}) ELSE NodeSeq(Q)
ContractEvents ==
       {Obs("cfg", v, 0, TRUE, Q, {}, o, o, loc, CanonRk(Q, o)) : v \in Nodes, Q \in PeerSets, o \in 0..N, loc \in BOOLEAN}
  \cup {LET v == CHOOSE y \in Q : TRUE IN Obs("cfg", v, 0, TRUE, Q, {}, o, o, o = v, rk) : Q \in PeerSets, o \in 0..N, rk \in Seqs}

ContractNext ==
  \E e \in ContractEvents :
     /\ e.view \in AsSet(e.peers)
     /\ EdgeClauses(Cfg, g, e) = {}
     /\ g' = Step(Cfg, g, e, <<>>)
     /\ hist' = hist \cup {<<AsSet(e.peers), Own(e.obs[1])>>}
     /\ UNCHANGED <<r, view, P, H, pure>>

\* ---- Mode "owner-asc" / "owner-desc" ------------------------------------------------------
OwnerEvents ==
  {LET v  == CHOOSE y \in Q : TRUE
       IN Obs("cfg", v, 0, TRUE, Q, {}, o, o, o = v, CanonRk(Q, o)) : Q \in PeerSets, o \in 0..N}

\* peer sets are first observed by size (ascending / descending), any order within one size
InOrder(Q) ==
  \A R \in PeerSets \ DOMAIN g.own :
     IF Mode = "owner-desc" THEN Cardinality(R) <= Cardinality(Q) ELSE Cardinality(R) >= Cardinality(Q)

OwnerNext ==
  \E e \in OwnerEvents :
     /\ DOMAIN g.own # PeerSets => (AsSet(e.peers) \notin DOMAIN g.own /\ InOrder(AsSet(e.peers)))
     /\ EdgeClauses(Cfg, g, e) = {}
     /\ g' = Step(Cfg, g, e, <<>>)
     /\ hist' = hist \cup {<<AsSet(e.peers), Own(e.obs[1])>>}
     /\ UNCHANGED <<r, view, P, H, pure>>

\* ---- Mode "health": one live node (view 1, all N peers), any accepted effective owner ------
HealthCfgEvents == {Obs("cfg", 1, 0, TRUE, Nodes, {}, o, o, o = 1, <<o>> \o NodeSeq(Nodes \ {o})) : o \in Nodes}

HealthNext ==
  \/ /\ ~g.prev.valid       \* the node is configured: first observation, nothing unhealthy
     /\ \E e \in HealthCfgEvents :
          /\ EdgeClauses(Cfg, g, e) = {}
          /\ g' = Step(Cfg, g, e, <<>>)
          /\ pure' = TRUE /\ H' = {}
          /\ UNCHANGED <<hist, r, view, P>>
  \/ /\ g.prev.valid
     /\ \E x \in Nodes, healthy \in BOOLEAN, ho \in 0..N :
          LET H2 == IF healthy THEN H \ {x} ELSE H \cup {x}
              o  == g.own[Nodes][1]
              e  == ObsH(1, x, healthy, Nodes, H2, o, ho, o = 1) IN
          /\ EdgeClauses(Cfg, g, e) = {}
          /\ g' = Step(Cfg, g, e, <<>>)
          /\ H' = H2
          /\ pure' = IF H2 = {} THEN TRUE ELSE IF healthy THEN FALSE ELSE pure
          /\ UNCHANGED <<hist, r, view, P>>

\* ---- Mode "hrw": the intended design ------------------------------------------------------
HrwOwner(Q) == IF Q = {} THEN 0 ELSE FirstIn(r, Q)
HrwHealthy(v, Q, U) ==
  LET ok == SelectSeq(RestrictTo(r, Q), LAMBDA y : y = v \/ y \notin U) IN IF Len(ok) > 0 THEN ok[1] ELSE v
HrwObs(op, v, x, healthy, Q, U) ==
  IF op = "health" THEN ObsH(v, x, healthy, Q, U, HrwOwner(Q), HrwHealthy(v, Q, U), HrwOwner(Q) = v)
  ELSE Obs(op, v, x, healthy, Q, U, HrwOwner(Q), HrwHealthy(v, Q, U), HrwOwner(Q) = v, RestrictTo(r, Q))

HrwFullGhost(v, Q, U) ==
  [own    |-> [S \in PeerSets |-> <<HrwOwner(S)>>],
   prev   |-> [valid |-> TRUE, unhealthy |-> U, ho |-> <<HrwHealthy(v, Q, U)>>],
   served |-> <<0>>]

\* a fresh configuration is judged against own only (never against prev): checked once per ranking
HrwCfgEvents == {HrwObs("cfg", v, 0, TRUE, Q \cup {v}, {}) : v \in Nodes, Q \in SUBSET Nodes}
\* events on the live node (view, P, H)
HrwLiveEvents ==
       {HrwObs("add", view, x, TRUE, P \cup {x}, H) : x \in Nodes}
  \cup {HrwObs("remove", view, x, TRUE, P \ {x}, H) : x \in Nodes}
  \cup {HrwObs("health", view, x, FALSE, P, H \cup {x}) : x \in Nodes}
  \cup {HrwObs("health", view, x, TRUE, P, H \ {x}) : x \in Nodes}

\* one step from each ranking to every (viewing node, peer set, health vector); the invariant
\* HrwAccepted judges every possible next event from each of these states
HrwNext ==
  /\ view = 0
  /\ \E v \in Nodes, Q \in SUBSET Nodes, U \in SUBSET Nodes :
        /\ view' = v /\ P' = Q /\ H' = U
        /\ g' = [g EXCEPT !.prev = [valid |-> TRUE, unhealthy |-> U, ho |-> <<HrwHealthy(v, Q, U)>>]]
  /\ UNCHANGED <<hist, r, pure>>

Init == /\ hist = {} /\ pure = TRUE
        /\ IF Mode = "hrw"
           THEN /\ r \in Orderings(Nodes)
                /\ view = 0 /\ P = {} /\ H = {}
                /\ g = HrwFullGhost(1, {}, {})
           ELSE /\ r = <<>> /\ view = 0 /\ P = {} /\ H = {}
                /\ g = G0(Cfg)

Next == CASE Mode = "contract" -> ContractNext
          [] Mode \in {"owner-asc", "owner-desc"} -> OwnerNext
          [] Mode = "health"   -> HealthNext
          [] Mode = "hrw"      -> HrwNext

Spec == Init /\ [][Next]_vars

\* ---- what is checked ----------------------------------------------------------------------
Bound == DOMAIN g.own
OwnerOf(Q) == g.own[Q][1]

Agreement == \A a, b \in hist : a[1] = b[1] => a[2] = b[2]
OwnerIsMember == \A Q \in Bound : OwnerOf(Q) \in Q
Pairwise == PairwiseMinimal(g, 1)
MultiStep ==
  \A Q1, Q2 \in Bound :
     (Q1 \subseteq Q2 /\ (\A R \in PeerSets : Q1 \subseteq R /\ R \subseteq Q2 => R \in Bound) /\ OwnerOf(Q2) \in Q1)
        => OwnerOf(Q1) = OwnerOf(Q2)
RankingExists ==
  Bound = PeerSets => \E rr \in Orderings(Nodes) : \A Q \in PeerSets : OwnerOf(Q) = FirstIn(rr, Q)

HealthLaw ==
  (Mode = "health" /\ g.prev.valid /\ pure) =>
     (g.prev.ho[1] # OwnerOf(Nodes) => OwnerOf(Nodes) \in H)

\* the intended design never violates a clause, whatever is asked next
HrwAccepted == Mode = "hrw" => \A e \in (IF view = 0 THEN HrwCfgEvents ELSE HrwLiveEvents) : EdgeClauses(Cfg, g, e) = {}

View == <<g, hist, r, view, P, H, pure>>
=============================================================================
