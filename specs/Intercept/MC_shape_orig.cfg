SPECIFICATION Spec
CONSTANTS Fixed = FALSE  MaxLen = 4
INVARIANTS Report
VIEW View
CHECK_DEADLOCK FALSE
