-------------------------- MODULE InterceptDesign --------------------------
(***************************************************************************)
(* U1: the contract (Intercept.tla) is itself model-checked.  The contract  *)
(* judges one observed step at a time with a small relative-time ghost (per *)
(* warrant the time left until its validity period begins / ends,           *)
(* saturating once passed; the phase of the expiry checker; the records     *)
(* waiting per interface).  Here an arbitrary environment produces the      *)
(* steps and the guarantees are stated directly over a history kept in      *)
(* absolute terms.                                                          *)
(*                                                                         *)
(* Mode "tab" (AddWarrant / RemoveWarrant / UpdateWarrantStatus / time, the *)
(* checker, MatchSession, the indexes, ActiveWarrants): the environment     *)
(* produces EVERY step - any error answer and, one facet at a time, any     *)
(* observation (any status table, any MatchSession answer, a wrong index, a *)
(* wrong gauge), accepted or not by the contract.  The history is           *)
(*   W[w]   <<>> or the warrant stored under id w: the absolute instants    *)
(*          from / until between which it is valid, its status              *)
(*   now    absolute time; the checker runs whenever now is a multiple of   *)
(*          the tick                                                        *)
(* and the direct statement reads: a returned warrant is stored, ACTIVE and *)
(* from <= now <= until and hits the session; a stored ACTIVE warrant with  *)
(* from <= now <= until that hits is returned; after a run of the checker   *)
(* at time t a warrant that was ACTIVE with until < t is EXPIRED, one that  *)
(* was PENDING with from <= t is ACTIVE (or EXPIRED if until < t); nothing  *)
(* else moves a status ...  Invariant Agree: the contract flags a step iff  *)
(* the direct statement is broken by it (neither weaker nor stronger), for  *)
(* as long as no earlier step was flagged.                                  *)
(*                                                                         *)
(* Mode "dlv" (sessions, records, held exporter, removal): the environment  *)
(* is ANY implementation the contract accepts - every step whose answer     *)
(* (counters, drop warnings, the exporter calls per interface drawn from    *)
(* all short sequences over the records in flight and a foreign one) raises *)
(* no clause.  Every record produced carries a serial number in the         *)
(* history (the contract sees descriptions only), and the invariants are    *)
(* the guarantees themselves: no description is handed over more often than *)
(* it was accepted (exactly once at most, nothing invented); never for a    *)
(* warrant that is not stored; never a CC record for an IRI-only warrant;   *)
(* only to the exporter of the warrant's method; and whenever no exporter   *)
(* is held nothing accepted is left waiting (all delivered or discarded     *)
(* for a removed warrant), in the order accepted.                           *)
(***************************************************************************)
EXTENDS Intercept

CONSTANTS Mode, MaxSteps

T(a, b, c, d) == [sub |-> a, mac |-> b, ip4 |-> c, ip6 |-> d]
CfgT == [impl |-> "design", nw |-> 2, ns |-> 0, buf |-> 1, exp |-> <<1>>, tg |-> <<T(1, 0, 0, 0), T(1, 1, 0, 0)>>, ty |-> <<"IRI", "IRI">>, me |-> <<1, 1>>,
         probes |-> <<T(1, 0, 0, 0), T(2, 1, 0, 0)>>, tick |-> 2, strict |-> FALSE, readd |-> FALSE, restart |-> FALSE]
CfgD == [impl |-> "design", nw |-> 2, ns |-> 1, buf |-> 1, exp |-> <<1>>, tg |-> <<T(1, 0, 0, 0), T(1, 0, 0, 0)>>, ty |-> <<"IRI+CC", "IRI">>, me |-> <<1, 2>>,
         probes |-> <<T(1, 0, 0, 0)>>, tick |-> 0, strict |-> FALSE, readd |-> FALSE, restart |-> FALSE]
Cfg == IF Mode = "tab" THEN CfgT ELSE CfgD

VARIABLES g, steps, flagged, last,
          now, W,           \* mode tab: absolute history
          acc, del, idle    \* mode dlv: descriptions accepted / handed over so far (bags as functions), "nothing may be waiting"
vars == <<g, steps, flagged, last, now, W, acc, del, idle>>

B(op, w) == [op |-> op, w |-> w, s |-> 0, a |-> 0, b |-> 0, bad |-> "", st |-> "", m |-> 0, on |-> FALSE, evt |-> "", len |-> 0,
             ok |-> TRUE, skip |-> FALSE, di |-> 0, dc |-> 0, dri |-> 0, drc |-> 0, dli |-> <<>>, dlc |-> <<>>, db |-> 0, de |-> 0, dt |-> 0]

Statuses == {"PENDING", "ACTIVE", "SUSPENDED", "EXPIRED"}
Wins == {<<0, 1>>, <<1, 2>>, <<-2, -1>>, <<3, 1>>}

TabEdges ==
       {[B("add", w) EXCEPT !.a = wn[1], !.b = wn[2], !.ok = ok] : w \in 1..2, wn \in Wins, ok \in BOOLEAN}
  \cup {[B("rm", w) EXCEPT !.ok = ok] : w \in 1..2, ok \in BOOLEAN}
  \cup {[B("st", w) EXCEPT !.st = st, !.ok = ok] : w \in 1..2, st \in {"SUSPENDED", "ACTIVE"}, ok \in BOOLEAN}
  \cup {[B("adv", 0) EXCEPT !.dt = 1]}

\* ---- the direct statement, mode tab --------------------------------------------------------------------
Stored(w)   == W[w] # <<>>
ValidAt(x, t) == x.from <= t /\ t <= x.until

\* the table per the documentation, before the checker
DTable(e, t) ==
  IF e.op = "add" /\ e.ok /\ e.a <= e.b + 1          \* a stored id: refused or replaced, the answer tells
       THEN [W EXCEPT ![e.w] = <<[from |-> t + e.a, until |-> t + e.b, st |-> IF e.a >= 1 THEN "PENDING" ELSE IF e.b <= -1 THEN "EXPIRED" ELSE "ACTIVE"]>>]
  ELSE IF e.op = "rm" /\ Stored(e.w) THEN [W EXCEPT ![e.w] = <<>>]
  ELSE IF e.op = "st" /\ Stored(e.w) THEN [W EXCEPT ![e.w] = <<[W[e.w][1] EXCEPT !.st = e.st]>>]
  ELSE W

Runs(e, t) == e.dt > 0 /\ t % Cfg.tick = 0
DAllow(e, t, x) ==
  IF Runs(e, t) /\ x.st = "ACTIVE" /\ x.until < t THEN {"EXPIRED"}
  ELSE IF Runs(e, t) /\ x.st = "PENDING" /\ x.from <= t THEN (IF x.until < t THEN {"ACTIVE", "EXPIRED"} ELSE {"ACTIVE"})
  ELSE {x.st}

DEdge(e) ==
  IF e.op = "add" THEN (IF e.a > e.b + 1 THEN (IF e.ok THEN {"Rejects"} ELSE {}) ELSE IF ~Stored(e.w) /\ ~e.ok THEN {"AddStatus"} ELSE {})
  ELSE IF e.op = "rm" THEN (IF Stored(e.w) /\ ~e.ok THEN {"RemoveEffective"} ELSE IF ~Stored(e.w) /\ e.ok THEN {"Rejects"} ELSE {})
  ELSE IF e.op = "st" THEN (IF Stored(e.w) /\ ~e.ok THEN {"StatusSet"} ELSE IF ~Stored(e.w) /\ e.ok THEN {"Rejects"} ELSE {})
  ELSE {}

\* the statuses after the step: the observed one where it is allowed
DAfter(e, t, obs) ==
  LET W1 == DTable(e, t) IN
  [w \in 1..2 |-> IF W1[w] = <<>> THEN <<>>
                  ELSE LET al == DAllow(e, t, W1[w][1]) IN
                       <<[W1[w][1] EXCEPT !.st = IF obs.tab[w].on /\ obs.tab[w].st \in al THEN obs.tab[w].st ELSE CHOOSE v \in al : TRUE]>>]

HitD(w, p) == Hit(Cfg.tg[w], Cfg.probes[p])
ExpD(W2, t, p) == {w \in 1..2 : W2[w] # <<>> /\ W2[w][1].st = "ACTIVE" /\ ValidAt(W2[w][1], t) /\ HitD(w, p)}
IdxD(W2) == {[k |-> "sub", key |-> Cfg.tg[w].sub, w |-> w, live |-> TRUE] : w \in {v \in 1..2 : W2[v] # <<>> /\ Cfg.tg[v].sub # 0}}
       \cup {[k |-> "mac", key |-> Cfg.tg[w].mac, w |-> w, live |-> TRUE] : w \in {v \in 1..2 : W2[v] # <<>> /\ Cfg.tg[v].mac # 0}}

DNode(e, t, obs) ==
  LET W1 == DTable(e, t)
      W2 == DAfter(e, t, obs)
      name(w, st) == IF st THEN (CASE e.op = "add" -> "AddStatus" [] e.op = "st" -> "StatusSet"
                                   [] e.op = "adv" /\ DAllow(e, t, W1[w][1]) # {W1[w][1].st} -> "ExpiryMarked" [] OTHER -> "StatusStable")
                     ELSE (CASE e.op = "add" -> "AddStatus" [] e.op = "rm" -> "RemoveEffective" [] OTHER -> "StatusStable")
  IN   UNION {IF obs.tab[w].on # (W1[w] # <<>>) THEN {name(w, FALSE)}
              ELSE IF W1[w] # <<>> /\ obs.tab[w].st \notin DAllow(e, t, W1[w][1]) THEN {name(w, TRUE)} ELSE {} : w \in 1..2}
  \cup (IF Range(obs.idx) # IdxD(W2) \/ Len(obs.idx) # Cardinality(Range(obs.idx)) THEN {"IndexExact"} ELSE {})
  \cup UNION {LET r == obs.match[p] IN
                (IF \E i \in 1..Len(r) : ~r[i].live \/ r[i].w \notin ExpD(W2, t, p) \/ \E j \in 1..Len(r) : j # i /\ r[j].w = r[i].w THEN {"MatchSound"} ELSE {})
           \cup (IF ExpD(W2, t, p) \ {r[i].w : i \in 1..Len(r)} # {} THEN {"MatchComplete"} ELSE {}) : p \in 1..2}
  \cup (IF obs.aw \notin {Cardinality({w \in 1..2 : W2[w] # <<>>}), Cardinality({w \in 1..2 : W2[w] # <<>> /\ W2[w][1].st = "ACTIVE"})} \/ obs.ai # 0
          THEN {"StatsTrue"} ELSE {})

\* ---- observations: the one the documentation predicts, and every variation of one facet ---------------------------------
SeqOf(S) == LET RECURSIVE F(_) F(X) == IF X = {} THEN <<>> ELSE LET m == CHOOSE x \in X : \A y \in X : x <= y IN <<m>> \o F(X \ {m}) IN F(S)
Ent == {[w |-> w, live |-> l] : w \in 1..2, l \in BOOLEAN}
Answers == {<<>>} \cup {<<x>> : x \in Ent} \cup {<<x, y>> : x \in Ent, y \in Ent}
TabRows == {[on |-> FALSE, st |-> ""]} \cup {[on |-> TRUE, st |-> st] : st \in Statuses}

Plain(e, t) ==
  LET W1 == DTable(e, t)
      W2 == [w \in 1..2 |-> IF W1[w] = <<>> THEN <<>> ELSE <<[W1[w][1] EXCEPT !.st = CHOOSE v \in DAllow(e, t, W1[w][1]) : TRUE]>>]
      ix == IdxD(W2)
  IN [tab |-> [w \in 1..2 |-> IF W2[w] = <<>> THEN [on |-> FALSE, st |-> ""] ELSE [on |-> TRUE, st |-> W2[w][1].st]],
      idx |-> LET RECURSIVE F(_) F(X) == IF X = {} THEN <<>> ELSE LET m == CHOOSE x \in X : TRUE IN <<m>> \o F(X \ {m}) IN F(ix),
      match |-> [p \in 1..2 |-> LET sq == SeqOf(ExpD(W2, t, p)) IN [i \in 1..Len(sq) |-> [w |-> sq[i], live |-> TRUE]]],
      ses |-> <<>>, aw |-> Cardinality({w \in 1..2 : W2[w] # <<>>}), ai |-> 0]

Variations(o) ==
       {o}
  \cup {[o EXCEPT !.tab = <<r1, r2>>] : r1 \in TabRows, r2 \in TabRows}
  \cup {[o EXCEPT !.match[p] = a] : p \in 1..2, a \in Answers}
  \cup {[o EXCEPT !.idx = SubSeq(o.idx, 2, Len(o.idx))], [o EXCEPT !.idx = o.idx \o <<[k |-> "sub", key |-> 1, w |-> 1, live |-> FALSE]>>],
        [o EXCEPT !.idx = o.idx \o <<[k |-> "mac", key |-> 1, w |-> 0, live |-> FALSE]>>]}
  \cup {[o EXCEPT !.aw = n] : n \in 0..3}

NextTab ==
  \E e \in TabEdges :
    LET t == now + e.dt IN
    \E obs \in Variations(Plain(e, t)) :
       LET g2 == Step(Cfg, g, e, obs)
           cl == EdgeClauses(Cfg, g, e) \cup NodeClauses(Cfg, g2, obs, e.op)
           d  == DEdge(e) \cup DNode(e, t, obs)
       IN /\ last' = [contract |-> cl, direct |-> d]
          /\ flagged' = (cl # {})
          /\ g' = g2
          /\ now' = t
          /\ W' = DAfter(e, t, obs)
          /\ UNCHANGED <<acc, del, idle>>

\* ---- mode dlv: any implementation the contract accepts ----------------------------------------------------------------
Foreign == [m |-> 1, w |-> 2, ev |-> "", s |-> 1, len |-> 100, rt |-> "CC"]     \* a CC record for the IRI-only warrant
Flight(gg, p) == {Out(Cfg, x) : x \in Range(gg.qi) \cup Range(gg.qc) \cup Range(p)} \cup {Foreign}
Short(S) == {<<>>} \cup {<<x>> : x \in S} \cup {<<x, y>> : x \in S, y \in S}

DlvCalls ==
       {[B("add", w) EXCEPT !.b = 1000] : w \in {v \in 1..2 : ~g.w[v].on}}
  \cup {B("rm", w) : w \in {v \in 1..2 : g.w[v].on}}
  \cup {[B("start", w) EXCEPT !.s = 1] : w \in {v \in 1..2 : g.w[v].on /\ g.ses[1] = 0}}
  \cup {[B("stop", 0) EXCEPT !.s = 1]}
  \cup {[B("iri", 0) EXCEPT !.s = 1, !.evt = "AUTH_SUCCESS"], [B("cc", 0) EXCEPT !.s = 1, !.len = 100]}
  \cup {[B("hold", 0) EXCEPT !.m = 1], [B("rel", 0) EXCEPT !.m = 1]}

Bump(f, sq) == LET RECURSIVE F(_, _) F(h, i) == IF i > Len(sq) THEN h ELSE F([x \in DOMAIN h \cup {sq[i]} |-> (IF x \in DOMAIN h THEN h[x] ELSE 0) + (IF x = sq[i] THEN 1 ELSE 0)], i + 1) IN F(f, 1)

NextDlv ==
  \E c \in DlvCalls :
    LET skip == c.op \in {"iri", "cc"} /\ g.ses[1] = 0
        c1   == [c EXCEPT !.skip = skip]
        sm0  == Sim(Cfg, g, c1)
    IN \E di \in 0..1, dc \in 0..1, dri \in 0..1, drc \in 0..1 :
       \E li \in Short(Flight(g, sm0.pi \o sm0.pc)), lc \in Short(Flight(g, sm0.pi \o sm0.pc)) :
         LET e   == [c1 EXCEPT !.di = di, !.dc = dc, !.dri = dri, !.drc = drc, !.dli = li, !.dlc = lc,
                               !.db = Sim(Cfg, g, [c1 EXCEPT !.di = di, !.dc = dc, !.dri = dri, !.drc = drc]).bytes]
             sm  == Sim(Cfg, g, e)
             obs == [tab |-> [w \in 1..2 |-> [on |-> sm.g.w[w].on, st |-> sm.g.w[w].st]], ses |-> sm.g.ses]
             g2  == Step(Cfg, g, e, obs)
             cl  == EdgeClauses(Cfg, g, e)
         IN /\ cl = {}                               \* an answer the contract accepts
            /\ g' = g2
            /\ acc' = Bump(acc, [i \in 1..(Len(sm.qi1) - Len(g.qi)) |-> Out(Cfg, sm.qi1[Len(sm.qi1)])] \o [i \in 1..(Len(sm.qc1) - Len(g.qc)) |-> Out(Cfg, sm.qc1[Len(sm.qc1)])])
            /\ del' = Bump(del, li \o lc)
            /\ last' = [contract |-> {}, direct |-> {}, li |-> li, lc |-> lc, w1 |-> [w \in 1..2 |-> sm.w1[w].on]]
            /\ idle' = (g2.hold = {})
            /\ flagged' = FALSE
            /\ UNCHANGED <<now, W>>

Next == /\ ~flagged /\ steps < MaxSteps /\ steps' = steps + 1
        /\ IF Mode = "tab" THEN NextTab ELSE NextDlv

Init == /\ g = G0(Cfg) /\ steps = 0 /\ flagged = FALSE /\ last = [contract |-> {}, direct |-> {}]
        /\ now = 0 /\ W = [w \in 1..2 |-> <<>>] /\ acc = <<>> /\ del = <<>> /\ idle = TRUE

Spec == Init /\ [][Next]_vars

\* mode tab
Agree == last.contract = last.direct
GhostTracks == flagged \/ Mode # "tab" \/
  \A w \in 1..2 : /\ g.w[w].on = (W[w] # <<>>)
                  /\ W[w] # <<>> => /\ g.w[w].st = W[w][1].st
                                    /\ g.w[w].rf = Max2(W[w][1].from - now, 0)
                                    /\ g.w[w].ru = Max2(W[w][1].until - now, -1)
                                    /\ ActiveNow(g.w[w]) = (W[w][1].st = "ACTIVE" /\ ValidAt(W[w][1], now))

\* mode dlv: the guarantees
AtMostOnce   == \A x \in DOMAIN del : x \in DOMAIN acc /\ del[x] <= acc[x]
OnlyStored   == Mode # "dlv" \/ steps = 0 \/ \A i \in 1..Len(last.li \o last.lc) : last.w1[(last.li \o last.lc)[i].w]
OnlyWarranted == \A x \in DOMAIN del : ~(x.rt = "CC" /\ Cfg.ty[x.w] = "IRI")
RightExporter == \A x \in DOMAIN del : x.m = Cfg.me[x.w]
NothingLeft  == Mode # "dlv" \/ ~idle \/ (g.qi = <<>> /\ g.qc = <<>> /\ g.hi = <<>> /\ g.hc = <<>>)

\* absolute time only grows: the view keeps it relative to the instants of the warrants and to the tick
View == <<g, steps, flagged, last, [w \in 1..2 |-> IF W[w] = <<>> THEN <<>> ELSE <<W[w][1].from - now, W[w][1].until - now, W[w][1].st>>], now % 2, acc, del, idle>>
=============================================================================
