SPECIFICATION Spec
CONSTANT Watch = {"MatchSound", "MatchComplete", "IndexExact", "Rejects", "AddStatus", "RemoveEffective", "StatusSet", "ExpiryMarked", "StatusStable", "SessionTable", "CcOnlyIfWarranted", "ActiveOnly", "DropOnlyFull", "DeliverOnce", "DeliverAll", "DeliverOrder", "DeliverRoute", "NoDeliverRemoved", "StatsTrue"}
INVARIANTS Report
VIEW View
CHECK_DEADLOCK FALSE
