----------------------------- MODULE Intercept -----------------------------
(***************************************************************************)
(* Contract of pkg/intercept: the lawful-intercept Manager (manager.go,     *)
(* types.go): warrants, the target indexes behind MatchSession, intercept   *)
(* sessions, IRI/CC records and their delivery to the exporter registered   *)
(* for the warrant's delivery method, the expiry checker, the statistics.   *)
(* Extra family X08: none of the 20 listed properties; the sentences below  *)
(* were formulated from the package's own comments (quoted), weakest        *)
(* reading.                                                                 *)
(*                                                                         *)
(* The contract talks about what a user of the Manager sees: the errors of  *)
(* AddWarrant / RemoveWarrant / UpdateWarrantStatus, GetWarrant (stored or  *)
(* not, status), the answers of MatchSession for a fixed set of sessions    *)
(* asked after every step, GetSession, the calls the registered exporters   *)
(* receive (per handover interface, in order), the "buffer full, record     *)
(* dropped" warnings, the statistics; and, read by reflection, the entries  *)
(* of the three "indexes for efficient lookup".                             *)
(*                                                                         *)
(* S1 "MatchSession checks if a session should be intercepted" /            *)
(*    "isWarrantActive checks if a warrant is currently active" (status     *)
(*    ACTIVE, now after ValidFrom and before ValidUntil) / "Target          *)
(*    identification (one or more must be set)":                            *)
(*    MatchSound      every warrant MatchSession returns is stored (the     *)
(*                    object GetWarrant returns for its id), has status     *)
(*                    ACTIVE, is inside its validity period at that instant *)
(*                    and has a target identifier (subscriber id, MAC,      *)
(*                    IPv4, IPv6) equal to the session's; none twice.       *)
(*                    Never a pending, suspended, expired, revoked or       *)
(*                    removed warrant, never one for another target         *)
(*    MatchComplete   every stored warrant that is ACTIVE, inside its       *)
(*                    validity period and has such an identifier equal to   *)
(*                    the session's is returned                             *)
(* S2 "Indexes for efficient lookup" / "indexWarrant adds a warrant to the  *)
(*    lookup indexes" / "unindexWarrant removes a warrant from the lookup   *)
(*    indexes":                                                             *)
(*    IndexExact      after every operation the index entries are exactly   *)
(*                    the stored warrants under their subscriber id / MAC / *)
(*                    IPv4 targets: no entry for a warrant that is not      *)
(*                    stored (or for an object that is not the stored one), *)
(*                    none missing, none twice, no empty list left behind;  *)
(*                    a second warrant on a target survives removal of the  *)
(*                    first                                                 *)
(* S3 "AddWarrant adds a new lawful intercept warrant" ("Validate warrant", *)
(*    "Check if warrant is currently valid") / "RemoveWarrant removes a     *)
(*    warrant" / "UpdateWarrantStatus updates the status of a warrant" /    *)
(*    "warrant not found" / "checkWarrantExpiry periodically checks for     *)
(*    expired warrants" (every minute) / "expireWarrants marks expired      *)
(*    warrants":                                                            *)
(*    Rejects         a warrant without LIID, type, ValidFrom, ValidUntil   *)
(*                    or target, or with ValidUntil before ValidFrom, is    *)
(*                    refused with an error; RemoveWarrant and              *)
(*                    UpdateWarrantStatus of an id that is not stored       *)
(*                    return an error; a refused call changes nothing       *)
(*    AddStatus       a valid warrant is stored: PENDING before ValidFrom,  *)
(*                    EXPIRED after ValidUntil, ACTIVE otherwise            *)
(*    RemoveEffective RemoveWarrant of a stored id succeeds and the warrant *)
(*                    is no longer stored                                   *)
(*    StatusSet       UpdateWarrantStatus of a stored id succeeds and the   *)
(*                    warrant has the given status                          *)
(*    ExpiryMarked    when the checker has run, no warrant is ACTIVE after  *)
(*                    its ValidUntil and none PENDING after its ValidFrom   *)
(*                    (ACTIVE -> EXPIRED; PENDING -> ACTIVE, or EXPIRED if  *)
(*                    ValidUntil has passed as well)                        *)
(*    StatusStable    nothing else changes a status or the set of stored    *)
(*                    warrants: a SUSPENDED, REVOKED or EXPIRED warrant is  *)
(*                    never touched by the checker (an expired warrant      *)
(*                    changes status once), no operation on one warrant     *)
(*                    changes another                                       *)
(* S4 "StartInterceptSession creates a new intercept session" ("Record      *)
(*    session start IRI") / "StopInterceptSession ends an intercept         *)
(*    session" ("Record session end IRI") / "GetSession retrieves an active *)
(*    intercept session" / RecordCC: "IRI-only warrant, skip CC":           *)
(*    SessionTable    after Start the session is retrievable with the       *)
(*                    warrant it was started for, after Stop it is not;     *)
(*                    nothing else adds or removes a session                *)
(*    CcOnlyIfWarranted  no CC record is produced for a warrant of type IRI *)
(*    ActiveOnly      (beyond the package's comments - ETSI TS 102 232-1 /  *)
(*                    the legal basis of interception: separate clause,     *)
(*                    judged only in systems with cfg.strict) no IRI/CC     *)
(*                    record of a running session is accepted for delivery  *)
(*                    once its warrant is not active any more (suspended,   *)
(*                    revoked, expired, outside its validity period or      *)
(*                    removed); the SESSION_END record of Stop is exempt.   *)
(*                    An implementation may refuse such a record outright   *)
(*                    (no counter moves): the contract accepts both         *)
(* S5 "Queue for delivery" / "IRI (CC) delivery buffer full, record         *)
(*    dropped" (DeliveryBufferSize) / "deliverRecord delivers a record via  *)
(*    the appropriate exporter" ("Get warrant to find delivery method",     *)
(*    "Cannot deliver record - warrant not found", "No exporter for         *)
(*    delivery method") / "HI2 delivers Intercept Related Information",     *)
(*    "HI3 delivers Content of Communication":                              *)
(*    DropOnlyFull    a record is dropped (with the warning) only while     *)
(*                    DeliveryBufferSize records wait in that queue         *)
(*    DeliverOnce     the exporters receive no record that was not          *)
(*                    produced and accepted, and none twice                 *)
(*    DeliverAll      once the delivery goroutines are idle every accepted  *)
(*                    record whose warrant is stored and whose method has   *)
(*                    an exporter has been handed over, except those behind *)
(*                    a record an exporter has not yet returned from; that  *)
(*                    covers exactly one SESSION_START per Start, one       *)
(*                    SESSION_END per Stop of an existing session whose     *)
(*                    warrant is stored, one record per RecordIRI/RecordCC  *)
(*    DeliverOrder    per handover interface, in the order accepted         *)
(*    DeliverRoute    only to the exporter registered for the delivery      *)
(*                    method of the record's warrant, IRI records through   *)
(*                    DeliverIRI, CC records through DeliverCC              *)
(*    NoDeliverRemoved  no record is handed over for a warrant that is not  *)
(*                    stored at that moment                                 *)
(* S6 "Stats returns manager statistics" (ActiveWarrants,                   *)
(*    ActiveInterceptions, TotalIRIRecords, TotalCCRecords,                 *)
(*    TotalBytesDelivered, DeliveryErrors):                                 *)
(*    StatsTrue       ActiveInterceptions = number of sessions GetSession   *)
(*                    finds; ActiveWarrants = number of stored warrants or  *)
(*                    of stored warrants with status ACTIVE (either         *)
(*                    reading); TotalIRIRecords / TotalCCRecords move by    *)
(*                    the records produced in the call; TotalBytesDelivered *)
(*                    by the payload of every record whose exporter call    *)
(*                    returned without error, DeliveryErrors by one per     *)
(*                    call that returned an error                           *)
(*                                                                         *)
(* A call that panics is reported by the driver (clause Panic).             *)
(* Unconstrained: the instants ValidFrom / ValidUntil themselves, which of  *)
(* two warrants matching one session comes first, what AddWarrant does with *)
(* an id that is stored already (error or replacement - whatever it does,   *)
(* the clauses above apply afterwards), whether StartInterceptSession with  *)
(* an existing session id replaces the session, whether a record is         *)
(* accepted while DeliveryBufferSize records wait, retries, per-warrant and *)
(* per-session counters, sessions of warrants that expire or are removed    *)
(* (the package ends nothing by itself), Stop / Start of the Manager.       *)
(* Environment: time advances only between calls, in whole units of         *)
(* cfg.unit seconds, never onto a boundary of a validity period; the        *)
(* checker ticks every cfg.tick units; exporters return at once unless      *)
(* held, and fail only while set to fail.                                   *)
(***************************************************************************)
EXTENDS Integers, FiniteSets, Sequences, TLC

Range(s)   == {s[i] : i \in 1..Len(s)}
Max2(a, b) == IF a > b THEN a ELSE b
Count(x, s) == Cardinality({i \in 1..Len(s) : s[i] = x})

\* cfg = [impl, nw, ns, buf, exp (methods with an exporter), tg (slot -> [sub, mac, ip4, ip6], 0 = not set), ty (slot -> type),
\*        me (slot -> method), probes (sessions asked about), tick (units between two runs of the checker, 0 = time stands still),
\*        strict, readd, restart, ...]
\* ghost
\*   w[i]   warrant slot i: on (stored), st (status), allow (the statuses the last step may have left it in), due (the last step was
\*          a run of the checker that had to change it), rf (units until the validity period begins, 0 = begun), ru (units until
\*          it ends, -1 = ended)
\*   ses[k] the warrant slot session k runs for (0 = no such session)
\*   qi, qc the records accepted and still waiting in the IRI / CC queue, oldest first; hi, hc the record an exporter has
\*          not yet returned from (<<>> or one item)
\*   hold, fail   exporters that are held / set to fail;  ph  time since the checker last ran
NoW == [on |-> FALSE, st |-> "", allow |-> {""}, due |-> FALSE, rf |-> 0, ru |-> 0]
G0(cfg) == [w |-> [i \in 1..cfg.nw |-> NoW], ses |-> [k \in 1..cfg.ns |-> 0], qi |-> <<>>, qc |-> <<>>, hi |-> <<>>, hc |-> <<>>,
            hold |-> {}, fail |-> {}, ph |-> 0]

InPeriod(x)  == x.rf = 0 /\ x.ru >= 0
ActiveNow(x) == x.on /\ x.st = "ACTIVE" /\ InPeriod(x)

\* ---- time passes first; if the checker runs, what it may do ------------------------------------
Aged(cfg, g, dt) ==
  LET ph2  == IF cfg.tick > 0 THEN (g.ph + dt) % cfg.tick ELSE 0
      runs == cfg.tick > 0 /\ dt > 0 /\ ph2 = 0
      age(x) == [x EXCEPT !.rf = Max2(@ - dt, 0), !.ru = Max2(@ - dt, -1)]
      chk(x) == IF ~x.on \/ ~runs THEN [x EXCEPT !.allow = {x.st}, !.due = FALSE]
                ELSE IF x.st = "ACTIVE" /\ x.ru < 0 THEN [x EXCEPT !.allow = {"EXPIRED"}, !.due = TRUE]
                ELSE IF x.st = "PENDING" /\ x.rf = 0 THEN [x EXCEPT !.allow = IF x.ru < 0 THEN {"ACTIVE", "EXPIRED"} ELSE {"ACTIVE"}, !.due = TRUE]
                ELSE [x EXCEPT !.allow = {x.st}, !.due = FALSE]
  IN [g EXCEPT !.w = [i \in DOMAIN g.w |-> chk(age(g.w[i]))], !.ph = ph2]

\* ---- S3: the warrant a valid AddWarrant stores ---------------------------------------------------
WindowOk(e) == e.a <= e.b + 1
InitialStatus(e) == IF e.a >= 1 THEN "PENDING" ELSE IF e.b <= -1 THEN "EXPIRED" ELSE "ACTIVE"
NewW(e) == [on |-> TRUE, st |-> InitialStatus(e), allow |-> {InitialStatus(e)}, due |-> FALSE, rf |-> Max2(e.a, 0), ru |-> Max2(e.b, -1)]

Acts(e) == ~e.skip

TableClauses(cfg, g, e) ==
  IF ~Acts(e) THEN {}
  ELSE IF e.op = "add" THEN
       IF e.bad # "" \/ ~WindowOk(e) THEN (IF e.ok THEN {"Rejects"} ELSE {})
       ELSE IF ~g.w[e.w].on /\ ~e.ok THEN {"AddStatus"} ELSE {}
  ELSE IF e.op = "rm" THEN (IF g.w[e.w].on /\ ~e.ok THEN {"RemoveEffective"} ELSE IF ~g.w[e.w].on /\ e.ok THEN {"Rejects"} ELSE {})
  ELSE IF e.op = "st" THEN (IF g.w[e.w].on /\ ~e.ok THEN {"StatusSet"} ELSE IF ~g.w[e.w].on /\ e.ok THEN {"Rejects"} ELSE {})
  ELSE {}

Table(cfg, g, e) ==
  IF ~Acts(e) THEN g.w
  ELSE IF e.op = "add" /\ e.ok /\ e.bad = "" /\ WindowOk(e) THEN [g.w EXCEPT ![e.w] = NewW(e)]
  ELSE IF e.op = "rm" /\ g.w[e.w].on THEN [g.w EXCEPT ![e.w] = NoW]
  ELSE IF e.op = "st" /\ g.w[e.w].on THEN [g.w EXCEPT ![e.w].st = e.st, ![e.w].allow = {e.st}]
  ELSE g.w

\* ---- S4: sessions and the records a call produces ------------------------------------------------
Sessions(cfg, g, e) ==
  IF ~Acts(e) THEN g.ses
  ELSE IF e.op = "start" THEN [g.ses EXCEPT ![e.s] = e.w]
  ELSE IF e.op = "stop" THEN [g.ses EXCEPT ![e.s] = 0]
  ELSE g.ses

Item(w, ev, s, len, rt) == [w |-> w, ev |-> ev, s |-> s, len |-> len, rt |-> rt]

\* the warrant slot the call's record belongs to
OfWarrant(g, e) == IF e.op = "start" THEN e.w ELSE IF e.op \in {"stop", "iri", "cc"} THEN g.ses[e.s] ELSE 0

\* w1: the warrant table after the call's own effect.  A record reported for a warrant that is not active any more may be
\* refused altogether (the counters then tell: di / dc = 0); otherwise every call produces its record
ProducedI(g, w1, e) ==
  LET sw == OfWarrant(g, e) IN
  IF ~Acts(e) \/ sw = 0 THEN <<>>
  ELSE IF e.op = "start" THEN <<Item(sw, "SESSION_START", e.s, 0, "IRI")>>
  ELSE IF e.op = "stop" /\ w1[sw].on THEN <<Item(sw, "SESSION_END", e.s, 0, "IRI")>>
  ELSE IF e.op = "iri" /\ ~(e.di = 0 /\ ~ActiveNow(g.w[sw])) THEN <<Item(sw, e.evt, e.s, 0, "IRI")>>
  ELSE <<>>

ProducedC(cfg, g, e) ==
  LET sw == OfWarrant(g, e) IN
  IF Acts(e) /\ e.op = "cc" /\ sw # 0 /\ cfg.ty[sw] # "IRI" /\ ~(e.dc = 0 /\ ~ActiveNow(g.w[sw])) THEN <<Item(sw, "", e.s, e.len, "CC")>> ELSE <<>>

\* ---- S5: what the idle delivery goroutine of one interface does with its queue ---------------------
Deliverable(cfg, w1, it) == w1[it.w].on /\ cfg.me[it.w] \in Range(cfg.exp)
Out(cfg, it) == [m |-> cfg.me[it.w], w |-> it.w, ev |-> it.ev, s |-> it.s, len |-> it.len, rt |-> it.rt]

\* returns [q, h, out]: h = the item an exporter is still busy with
RECURSIVE Drain(_, _, _, _, _)
Drain(cfg, w1, hold, q, h) ==
  IF h # <<>> \/ q = <<>> THEN [q |-> q, h |-> h, out |-> <<>>]
  ELSE LET it == Head(q) IN
       IF ~Deliverable(cfg, w1, it) THEN Drain(cfg, w1, hold, Tail(q), <<>>)
       ELSE IF cfg.me[it.w] \in hold THEN [q |-> Tail(q), h |-> <<Out(cfg, it)>>, out |-> <<Out(cfg, it)>>]
       ELSE LET r == Drain(cfg, w1, hold, Tail(q), <<>>) IN [r EXCEPT !.out = <<Out(cfg, it)>> \o @]

\* the calls that returned during the step: the one that was held and is released, and every new one except a call still held
Returned(h0, h1, r) ==
  (IF h0 # <<>> /\ h1 = <<>> THEN h0 ELSE <<>>) \o (IF r.h # <<>> THEN SubSeq(r.out, 1, Len(r.out) - 1) ELSE r.out)

SumLen(s, fail, want) ==
  LET RECURSIVE F(_) F(i) == IF i > Len(s) THEN 0 ELSE (IF (s[i].m \in fail) = want THEN (IF want THEN 1 ELSE s[i].len) ELSE 0) + F(i + 1) IN F(1)

DeliveryClauses(cfg, w1, pend, obs, exp, iface) ==
  IF obs = exp THEN {}
  ELSE LET known(i)  == obs[i].w \in 1..cfg.nw
           removed   == \E i \in 1..Len(obs) : ~known(i) \/ ~w1[obs[i].w].on
           misrouted == \E i \in 1..Len(obs) : known(i) /\ (obs[i].m # cfg.me[obs[i].w] \/ obs[i].rt # iface)
           pendOut   == [i \in 1..Len(pend) |-> Out(cfg, pend[i])]
           norm(x)   == [x EXCEPT !.m = cfg.me[x.w], !.rt = iface]
           obsN      == [j \in 1..Len(obs) |-> IF known(j) THEN norm(obs[j]) ELSE obs[j]]
           alien(i)  == known(i) /\ Count(obsN[i], obsN) > Count(obsN[i], pendOut)
           unwarranted == \E i \in 1..Len(obs) : alien(i) /\ obs[i].rt = "CC" /\ cfg.ty[obs[i].w] = "IRI"
           extra     == \E i \in 1..Len(obs) : alien(i) /\ ~(obs[i].rt = "CC" /\ cfg.ty[obs[i].w] = "IRI")
           missing   == \E i \in 1..Len(exp) : Count(exp[i], obs) < Count(exp[i], exp)
           cl == (IF removed THEN {"NoDeliverRemoved"} ELSE {}) \cup (IF misrouted THEN {"DeliverRoute"} ELSE {})
                 \cup (IF unwarranted THEN {"CcOnlyIfWarranted"} ELSE {}) \cup (IF extra THEN {"DeliverOnce"} ELSE {})
                 \cup (IF missing THEN {"DeliverAll"} ELSE {})
       IN IF cl = {} THEN {"DeliverOrder"} ELSE cl

\* ---- one step, simulated on the ghost ---------------------------------------------------------------
Sim(cfg, g0, e) ==
  LET g    == Aged(cfg, g0, e.dt)
      w1   == Table(cfg, g, e)
      pi   == ProducedI(g, w1, e)
      pc   == ProducedC(cfg, g, e)
      qi1  == IF pi # <<>> /\ e.dri = 0 THEN Append(g.qi, pi[1]) ELSE g.qi
      qc1  == IF pc # <<>> /\ e.drc = 0 THEN Append(g.qc, pc[1]) ELSE g.qc
      hold1 == IF e.op = "hold" THEN g.hold \cup {e.m} ELSE IF e.op = "rel" THEN g.hold \ {e.m} ELSE g.hold
      fail1 == IF e.op = "fail" THEN (IF e.on THEN g.fail \cup {e.m} ELSE g.fail \ {e.m}) ELSE g.fail
      hi1  == IF g.hi # <<>> /\ g.hi[1].m \notin hold1 THEN <<>> ELSE g.hi
      hc1  == IF g.hc # <<>> /\ g.hc[1].m \notin hold1 THEN <<>> ELSE g.hc
      ri   == Drain(cfg, w1, hold1, qi1, hi1)
      rc   == Drain(cfg, w1, hold1, qc1, hc1)
      ret  == Returned(g.hi, hi1, ri) \o Returned(g.hc, hc1, rc)
  IN [g |-> [g EXCEPT !.w = w1, !.ses = Sessions(cfg, g, e), !.qi = ri.q, !.qc = rc.q, !.hi = ri.h, !.hc = rc.h, !.hold = hold1, !.fail = fail1],
      aged |-> g, w1 |-> w1, pi |-> pi, pc |-> pc, qi1 |-> qi1, qc1 |-> qc1, expi |-> ri.out, expc |-> rc.out,
      bytes |-> SumLen(ret, fail1, FALSE), errs |-> SumLen(ret, fail1, TRUE)]

EdgeClauses(cfg, g0, e) ==
  LET s  == Sim(cfg, g0, e)
      sw == OfWarrant(s.aged, e)
  IN   TableClauses(cfg, s.aged, e)
  \cup (IF e.dri > 0 /\ Len(s.aged.qi) < cfg.buf THEN {"DropOnlyFull"} ELSE {})
  \cup (IF e.drc > 0 /\ Len(s.aged.qc) < cfg.buf THEN {"DropOnlyFull"} ELSE {})
  \cup DeliveryClauses(cfg, s.w1, s.qi1, e.dli, s.expi, "IRI")
  \cup DeliveryClauses(cfg, s.w1, s.qc1, e.dlc, s.expc, "CC")
  \cup (IF e.dc > 0 /\ s.pc = <<>> /\ Acts(e) /\ e.op = "cc" /\ sw # 0 /\ cfg.ty[sw] = "IRI" THEN {"CcOnlyIfWarranted"} ELSE {})
  \cup (IF \/ e.di # Len(s.pi) \/ (e.dc # Len(s.pc) /\ ~(Acts(e) /\ e.op = "cc" /\ sw # 0 /\ cfg.ty[sw] = "IRI"))
           \/ e.db # s.bytes \/ e.de # s.errs THEN {"StatsTrue"} ELSE {})
  \cup (IF /\ cfg.strict /\ Acts(e) /\ e.op \in {"iri", "cc"} /\ sw # 0
           /\ ((s.pi # <<>> /\ e.dri = 0) \/ (s.pc # <<>> /\ e.drc = 0))
           /\ ~ActiveNow(s.aged.w[sw]) THEN {"ActiveOnly"} ELSE {})

\* the ghost follows the implementation where the contract leaves a choice (which status the checker gave a warrant whose
\* whole period has passed, whether Start replaced an existing session)
Step(cfg, g0, e, obs) ==
  LET g2 == Sim(cfg, g0, e).g
      adopt(i) == LET x == g2.w[i] IN
                  IF ~x.on THEN x
                  ELSE IF obs.tab[i].on /\ obs.tab[i].st \in x.allow THEN [x EXCEPT !.st = obs.tab[i].st]
                  ELSE [x EXCEPT !.st = CHOOSE v \in x.allow : TRUE]
      ses2 == IF Acts(e) /\ e.op = "start" /\ cfg.restart /\ g0.ses[e.s] # 0 /\ obs.ses[e.s] = g0.ses[e.s] THEN g0.ses ELSE g2.ses
  IN [g2 EXCEPT !.w = [i \in DOMAIN g2.w |-> adopt(i)], !.ses = ses2]

\* ---- observations: n = [tab, idx, match, ses, aw, ai] ---------------------------------------------------
Hit(t, p) == \/ (t.sub # 0 /\ t.sub = p.sub) \/ (t.mac # 0 /\ t.mac = p.mac)
             \/ (t.ip4 # 0 /\ t.ip4 = p.ip4) \/ (t.ip6 # 0 /\ t.ip6 = p.ip6)

Expected(cfg, g, p) == {i \in 1..cfg.nw : ActiveNow(g.w[i]) /\ Hit(cfg.tg[i], cfg.probes[p])}

IdxOf(cfg, g, kind) ==
  {[k |-> kind, key |-> (CASE kind = "sub" -> cfg.tg[i].sub [] kind = "mac" -> cfg.tg[i].mac [] kind = "ip4" -> cfg.tg[i].ip4 [] OTHER -> cfg.tg[i].ip6),
    w |-> i, live |-> TRUE] :
      i \in {j \in 1..cfg.nw : g.w[j].on /\ (CASE kind = "sub" -> cfg.tg[j].sub [] kind = "mac" -> cfg.tg[j].mac [] kind = "ip4" -> cfg.tg[j].ip4 [] OTHER -> cfg.tg[j].ip6) # 0}}

TabClause(lastop, x, o) ==
  IF o.on # x.on THEN {CASE lastop = "add" -> "AddStatus" [] lastop = "rm" -> "RemoveEffective" [] OTHER -> "StatusStable"}
  ELSE IF x.on /\ o.st \notin x.allow THEN
       {CASE lastop = "add" -> "AddStatus" [] lastop = "st" -> "StatusSet" [] lastop = "adv" /\ x.due -> "ExpiryMarked" [] OTHER -> "StatusStable"}
  ELSE {}

NodeClauses(cfg, g, n, lastop) ==
  LET stored == {i \in 1..cfg.nw : g.w[i].on}
      idx3   == {x \in Range(n.idx) : x.k # "ip6"}
      idx6   == {x \in Range(n.idx) : x.k = "ip6"}
      want3  == IdxOf(cfg, g, "sub") \cup IdxOf(cfg, g, "mac") \cup IdxOf(cfg, g, "ip4")
  IN   UNION {TabClause(lastop, g.w[i], n.tab[i]) : i \in 1..cfg.nw}
  \cup (IF idx3 # want3 \/ idx6 \notin {{}, IdxOf(cfg, g, "ip6")} \/ Len(n.idx) # Cardinality(Range(n.idx)) THEN {"IndexExact"} ELSE {})
  \cup UNION {LET ret == n.match[p] IN
                (IF \E i \in 1..Len(ret) : ~ret[i].live \/ ret[i].w \notin Expected(cfg, g, p) \/ \E j \in 1..Len(ret) : j # i /\ ret[j].w = ret[i].w
                   THEN {"MatchSound"} ELSE {})
           \cup (IF Expected(cfg, g, p) \ {ret[i].w : i \in 1..Len(ret)} # {} THEN {"MatchComplete"} ELSE {}) : p \in 1..Len(cfg.probes)}
  \cup (IF n.ses # g.ses THEN {"SessionTable"} ELSE {})
  \cup (IF n.ai # Cardinality({k \in 1..cfg.ns : n.ses[k] # 0})
           \/ n.aw \notin {Cardinality(stored), Cardinality({i \in stored : g.w[i].st = "ACTIVE"})} THEN {"StatsTrue"} ELSE {})

\* clauses whose violation does not end a walk
Soft == {}
=============================================================================
