SPECIFICATION Spec
CONSTANTS Mode = "tab"  MaxSteps = 3
INVARIANTS Agree GhostTracks
VIEW View
CHECK_DEADLOCK FALSE
