SPECIFICATION Spec
CONSTANTS Fixed = TRUE  MaxLen = 6
INVARIANTS Clean GhostTracks
VIEW View
CHECK_DEADLOCK FALSE
