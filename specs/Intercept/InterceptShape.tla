--------------------------- MODULE InterceptShape ---------------------------
(***************************************************************************)
(* Implementation-shaped design spec of pkg/intercept/manager.go: one       *)
(* action per harness step, built from one operator per function / critical *)
(* section of the code.                                                     *)
(*                                                                         *)
(*   Index / Unindex   indexWarrant, unindexWarrant + removeFromSlice (the   *)
(*                     FIRST entry of the slice whose warrant has the id)    *)
(*   Match             MatchSession: bySubscriberID, byMAC, byIPv4 in that   *)
(*                     order, isWarrantActive, the `seen` map (by id)        *)
(*   Add / Remove / SetStatus   AddWarrant (validateWarrant, initial status, *)
(*                     m.warrants[id] = warrant, indexWarrant,               *)
(*                     ActiveWarrants++), RemoveWarrant, UpdateWarrantStatus *)
(*   Expire            expireWarrants, run by the ticker every minute        *)
(*   RecIRI / RecCC    RecordIRI / RecordCC: counters, non-blocking send     *)
(*   Start / Stop      StartInterceptSession / StopInterceptSession          *)
(*   the delivery goroutines (deliverIRI / deliverCC -> deliverRecord) run   *)
(*   until they block: the contract's own Drain operator is reused for that  *)
(*   with the model's warrant table (GetWarrant at delivery, exporter of the *)
(*   method, a held exporter keeps the goroutine)                            *)
(*                                                                         *)
(* Warrants are objects on a heap (the code stores and indexes *Warrant):    *)
(* the table maps an id to an object, the indexes hold objects, a caller     *)
(* holds the object MatchSession gave it.  Time in units of 30 s; an object  *)
(* carries the time left until its period begins / ends.                     *)
(*                                                                         *)
(* Fixed = FALSE is the design as found.  Fixed = TRUE is a proposed repair: *)
(* a fourth index byIPv6; AddWarrant of a stored id unindexes the old object *)
(* first and does not count it twice, removeFromSlice compares objects;      *)
(* StartInterceptSession does not count a replaced session twice; RecordIRI  *)
(* (other than SESSION_END) and RecordCC refuse a warrant whose id is not    *)
(* stored or whose stored object is not active.  The spec carries the        *)
(* contract's ghost (Intercept.tla) and judges each of its own steps with    *)
(* EdgeClauses /                                                             *)
(* NodeClauses exactly as InterceptImpl does with the steps of the real      *)
(* code.  Every violating state is printed as <<"DESIGN-CEX", json([clauses, *)
(* events])>> with events in the harness' alphabet; lib/fam_intercept        *)
(* replays the shortest history per clause set on the real Manager.          *)
(***************************************************************************)
EXTENDS Intercept, Json

CONSTANTS Fixed, MaxLen

T(a, b, c, d) == [sub |-> a, mac |-> b, ip4 |-> c, ip6 |-> d]
Cfg == [impl |-> "shape", nw |-> 2, ns |-> 1, buf |-> 1, exp |-> <<1>>, tg |-> <<T(1, 0, 0, 0), T(1, 0, 0, 1)>>, ty |-> <<"IRI+CC", "IRI">>, me |-> <<1, 1>>,
        probes |-> <<T(1, 0, 0, 0), T(0, 0, 0, 1)>>, wins |-> << <<0, 1>> >>, statuses |-> <<"REVOKED">>, evts |-> <<"AUTH_SUCCESS">>, lens |-> <<100>>,
        hold |-> <<1>>, fail |-> <<>>, time |-> TRUE, tick |-> 2, bad |-> FALSE, readd |-> TRUE, restart |-> TRUE, strict |-> TRUE, unit |-> 30, nsubs |-> 0]

Kinds == IF Fixed THEN <<"sub", "mac", "ip4", "ip6">> ELSE <<"sub", "mac", "ip4">>
KeyOf(t, kind) == CASE kind = "sub" -> t.sub [] kind = "mac" -> t.mac [] kind = "ip4" -> t.ip4 [] OTHER -> t.ip6

VARIABLES s, g, hist, bad
vars == <<s, g, hist, bad>>

\* objs: the heap of warrant objects [w (id), st, rf, ru]; tab: id -> object (0 = not stored); idx: kind -> the entries [key, o] of that
\* index, per key in slice order; ses: session id -> 0 or the warrant id of the stored InterceptSession; ref: what the caller holds for
\* the session (the warrant object); aw, ai: the two gauges; qi, qc, hi, hc, hold, fail as in the contract's ghost; ph: ticker phase
S0 == [objs |-> <<>>, tab |-> [i \in 1..Cfg.nw |-> 0], idx |-> [k \in {"sub", "mac", "ip4", "ip6"} |-> <<>>], ses |-> [k \in 1..Cfg.ns |-> 0],
       ref |-> [k \in 1..Cfg.ns |-> 0], aw |-> 0, ai |-> 0, qi |-> <<>>, qc |-> <<>>, hi |-> <<>>, hc |-> <<>>, hold |-> {}, fail |-> {}, ph |-> 0]

IsActive(o) == o.st = "ACTIVE" /\ o.rf = 0 /\ o.ru >= 0            \* isWarrantActive

\* ---- indexWarrant / unindexWarrant / removeFromSlice -----------------------------------------------
Index(x, o) ==
  [x EXCEPT !.idx = [k \in DOMAIN x.idx |->
      IF k \in Range(Kinds) /\ KeyOf(Cfg.tg[x.objs[o].w], k) # 0 THEN Append(x.idx[k], [key |-> KeyOf(Cfg.tg[x.objs[o].w], k), o |-> o]) ELSE x.idx[k]]]

FirstPos(sq, P(_)) == IF \E i \in 1..Len(sq) : P(sq[i]) THEN CHOOSE i \in 1..Len(sq) : P(sq[i]) /\ \A j \in 1..(i - 1) : ~P(sq[j]) ELSE 0
RemoveAt(sq, i) == IF i = 0 THEN sq ELSE SubSeq(sq, 1, i - 1) \o SubSeq(sq, i + 1, Len(sq))

Unindex(x, o) ==
  [x EXCEPT !.idx = [k \in DOMAIN x.idx |->
      LET key == KeyOf(Cfg.tg[x.objs[o].w], k)
          hit(en) == en.key = key /\ (IF Fixed THEN en.o = o ELSE x.objs[en.o].w = x.objs[o].w)
      IN IF k \in Range(Kinds) /\ key # 0 THEN RemoveAt(x.idx[k], FirstPos(x.idx[k], hit)) ELSE x.idx[k]]]

\* ---- MatchSession: the objects returned, in order -----------------------------------------------------
RECURSIVE Scan(_, _, _, _)
Scan(x, ens, key, acc) ==
  IF ens = <<>> THEN acc
  ELSE LET en == Head(ens) IN
       IF en.key = key /\ IsActive(x.objs[en.o]) /\ ~\E i \in 1..Len(acc) : x.objs[acc[i]].w = x.objs[en.o].w
       THEN Scan(x, Tail(ens), key, Append(acc, en.o)) ELSE Scan(x, Tail(ens), key, acc)

RECURSIVE MatchK(_, _, _, _)
MatchK(x, p, i, acc) ==
  IF i > Len(Kinds) THEN acc
  ELSE MatchK(x, p, i + 1, IF KeyOf(p, Kinds[i]) # 0 THEN Scan(x, x.idx[Kinds[i]], KeyOf(p, Kinds[i]), acc) ELSE acc)
Match(x, p) == MatchK(x, p, 1, <<>>)

\* ---- the harness' projection -----------------------------------------------------------------------------
NodeOfS(x) ==
  [tab   |-> [i \in 1..Cfg.nw |-> IF x.tab[i] = 0 THEN [on |-> FALSE, st |-> ""] ELSE [on |-> TRUE, st |-> x.objs[x.tab[i]].st]],
   idx   |-> LET ent(k) == [i \in 1..Len(x.idx[k]) |-> [k |-> k, key |-> x.idx[k][i].key, w |-> x.objs[x.idx[k][i].o].w,
                                                       live |-> x.tab[x.objs[x.idx[k][i].o].w] = x.idx[k][i].o]]
             IN ent("sub") \o ent("mac") \o ent("ip4") \o ent("ip6"),
   match |-> [p \in 1..Len(Cfg.probes) |-> LET r == Match(x, Cfg.probes[p]) IN [i \in 1..Len(r) |-> [w |-> x.objs[r[i]].w, live |-> x.tab[x.objs[r[i]].w] = r[i]]]],
   ses   |-> x.ses, aw |-> x.aw, ai |-> x.ai]

HEv(op, w, sn, a, b, st, m, evt, ln) == [op |-> op, w |-> w, s |-> sn, a |-> a, b |-> b, bad |-> "", st |-> st, m |-> m, on |-> FALSE, evt |-> evt, len |-> ln]
Base(h) == [op |-> h.op, w |-> h.w, s |-> h.s, a |-> h.a, b |-> h.b, bad |-> h.bad, st |-> h.st, m |-> h.m, on |-> h.on, evt |-> h.evt, len |-> h.len,
            ok |-> TRUE, skip |-> FALSE, di |-> 0, dc |-> 0, dri |-> 0, drc |-> 0, dli |-> <<>>, dlc |-> <<>>, db |-> 0, de |-> 0, dt |-> 0]

\* the delivery goroutines run until they block; x0 = the state before the call (its in-hand records)
Deliver(x0, x) ==
  LET w1  == [i \in 1..Cfg.nw |-> [on |-> x.tab[i] # 0]]
      hi1 == IF x.hi # <<>> /\ x.hi[1].m \notin x.hold THEN <<>> ELSE x.hi
      hc1 == IF x.hc # <<>> /\ x.hc[1].m \notin x.hold THEN <<>> ELSE x.hc
      ri  == Drain(Cfg, w1, x.hold, x.qi, hi1)
      rc  == Drain(Cfg, w1, x.hold, x.qc, hc1)
      ret == Returned(x0.hi, hi1, ri) \o Returned(x0.hc, hc1, rc)
  IN [x |-> [x EXCEPT !.qi = ri.q, !.qc = rc.q, !.hi = ri.h, !.hc = rc.h], dli |-> ri.out, dlc |-> rc.out,
      db |-> SumLen(ret, x.fail, FALSE), de |-> SumLen(ret, x.fail, TRUE)]

Take(h, e0, x1) ==
  LET d  == Deliver(s, x1)
      e  == [e0 EXCEPT !.dli = d.dli, !.dlc = d.dlc, !.db = d.db, !.de = d.de]
      n  == NodeOfS(d.x)
      g2 == Step(Cfg, g, e, n)
  IN /\ s' = d.x
     /\ g' = g2
     /\ hist' = Append(hist, h)
     /\ bad' = EdgeClauses(Cfg, g, e) \cup NodeClauses(Cfg, g2, n, h.op)

\* ---- AddWarrant / RemoveWarrant / UpdateWarrantStatus ---------------------------------------------------------
Add(w, a, b) ==
  LET h == HEv("add", w, 0, a, b, "", 0, "", 0) IN
  IF a > b + 1 THEN Take(h, [Base(h) EXCEPT !.ok = FALSE], s)                                  \* validateWarrant
  ELSE LET st  == IF a >= 1 THEN "PENDING" ELSE IF b <= -1 THEN "EXPIRED" ELSE "ACTIVE"        \* "Check if warrant is currently valid"
           x0  == IF Fixed /\ s.tab[w] # 0 THEN [Unindex(s, s.tab[w]) EXCEPT !.aw = @ - 1] ELSE s
           o   == Len(x0.objs) + 1
           x1  == [x0 EXCEPT !.objs = Append(@, [w |-> w, st |-> st, rf |-> Max2(a, 0), ru |-> Max2(b, -1)]), !.tab[w] = o, !.aw = @ + 1]
       IN Take(h, Base(h), Index(x1, o))

Remove(w) ==
  LET h == HEv("rm", w, 0, 0, 0, "", 0, "", 0) IN
  IF s.tab[w] = 0 THEN Take(h, [Base(h) EXCEPT !.ok = FALSE], s)
  ELSE Take(h, Base(h), [Unindex(s, s.tab[w]) EXCEPT !.tab[w] = 0, !.aw = @ - 1])

SetStatus(w, st) ==
  LET h == HEv("st", w, 0, 0, 0, st, 0, "", 0) IN
  IF s.tab[w] = 0 THEN Take(h, [Base(h) EXCEPT !.ok = FALSE], s)
  ELSE Take(h, Base(h), [s EXCEPT !.objs[s.tab[w]].st = st])

\* ---- time: Sleep one unit; the ticker runs expireWarrants every second unit ---------------------------------------
Expire(x) ==
  [x EXCEPT !.objs = [o \in 1..Len(x.objs) |->
      IF x.tab[x.objs[o].w] # o THEN x.objs[o]                                                  \* "for _, warrant := range m.warrants"
      ELSE IF x.objs[o].st = "ACTIVE" /\ x.objs[o].ru < 0 THEN [x.objs[o] EXCEPT !.st = "EXPIRED"]
      ELSE IF x.objs[o].st = "PENDING" /\ x.objs[o].rf = 0 THEN [x.objs[o] EXCEPT !.st = "ACTIVE"]
      ELSE x.objs[o]]]

Adv ==
  LET h  == HEv("adv", 0, 0, 0, 0, "", 0, "", 0)
      x1 == [s EXCEPT !.objs = [o \in 1..Len(s.objs) |-> [s.objs[o] EXCEPT !.rf = Max2(@ - 1, 0), !.ru = Max2(@ - 1, -1)]], !.ph = (@ + 1) % Cfg.tick]
  IN Take(h, [Base(h) EXCEPT !.dt = 1], IF x1.ph = 0 THEN Expire(x1) ELSE x1)

\* ---- RecordIRI / RecordCC: returns [x, d (counter), dr (dropped)] ---------------------------------------------------
Refused(x, o, evt) == Fixed /\ evt # "SESSION_END" /\ (x.tab[x.objs[o].w] = 0 \/ ~IsActive(x.objs[x.tab[x.objs[o].w]]))

RecIRI(x, o, evt, sn) ==
  IF Refused(x, o, evt) THEN [x |-> x, d |-> 0, dr |-> 0]
  ELSE IF Len(x.qi) < Cfg.buf THEN [x |-> [x EXCEPT !.qi = Append(@, Item(x.objs[o].w, evt, sn, 0, "IRI"))], d |-> 1, dr |-> 0]
  ELSE [x |-> x, d |-> 1, dr |-> 1]                                                           \* "IRI delivery buffer full, record dropped"

RecCC(x, o, sn, ln) ==
  IF Cfg.ty[x.objs[o].w] = "IRI" \/ Refused(x, o, "") THEN [x |-> x, d |-> 0, dr |-> 0]        \* "IRI-only warrant, skip CC"
  ELSE IF Len(x.qc) < Cfg.buf THEN [x |-> [x EXCEPT !.qc = Append(@, Item(x.objs[o].w, "", sn, ln, "CC"))], d |-> 1, dr |-> 0]
  ELSE [x |-> x, d |-> 1, dr |-> 1]

\* the channel a parked delivery goroutine reads from has room again only after it took a record: the goroutines are idle or
\* parked between two harness steps, so the queue the call sees is the one the last step left

\* ---- StartInterceptSession / StopInterceptSession ------------------------------------------------------------------
Start(sn, w) ==
  LET h  == HEv("start", w, sn, 0, 0, "", 0, "", 0)
      r  == Match(s, Cfg.tg[w])
      os == {r[i] : i \in {j \in 1..Len(r) : s.objs[r[j]].w = w}}
  IN IF os = {} THEN Take(h, [Base(h) EXCEPT !.skip = TRUE], s)                                \* the caller starts what MatchSession names
     ELSE LET o  == CHOOSE v \in os : TRUE
              x1 == [s EXCEPT !.ses[sn] = w, !.ref[sn] = o, !.ai = IF Fixed /\ s.ses[sn] # 0 THEN @ ELSE @ + 1]
              rr == RecIRI(x1, o, "SESSION_START", sn)
          IN Take(h, [Base(h) EXCEPT !.di = rr.d, !.dri = rr.dr], rr.x)

Stop(sn) ==
  LET h == HEv("stop", 0, sn, 0, 0, "", 0, "", 0) IN
  IF s.ses[sn] = 0 THEN Take(h, Base(h), s)
  ELSE LET w  == s.ses[sn]
           x1 == [s EXCEPT !.ses[sn] = 0, !.ref[sn] = 0, !.ai = @ - 1]
       IN IF x1.tab[w] = 0 THEN Take(h, Base(h), x1)                                          \* "Warrant not found for session end"
          ELSE LET rr == RecIRI(x1, x1.tab[w], "SESSION_END", sn) IN Take(h, [Base(h) EXCEPT !.di = rr.d, !.dri = rr.dr], rr.x)

Iri(sn, evt) ==
  LET h == HEv("iri", 0, sn, 0, 0, "", 0, evt, 0) IN
  IF s.ses[sn] = 0 \/ s.ref[sn] = 0 THEN Take(h, [Base(h) EXCEPT !.skip = TRUE], s)
  ELSE LET rr == RecIRI(s, s.ref[sn], evt, sn) IN Take(h, [Base(h) EXCEPT !.di = rr.d, !.dri = rr.dr], rr.x)

Cc(sn, ln) ==
  LET h == HEv("cc", 0, sn, 0, 0, "", 0, "", ln) IN
  IF s.ses[sn] = 0 \/ s.ref[sn] = 0 THEN Take(h, [Base(h) EXCEPT !.skip = TRUE], s)
  ELSE LET rr == RecCC(s, s.ref[sn], sn, ln) IN Take(h, [Base(h) EXCEPT !.dc = rr.d, !.drc = rr.dr], rr.x)

Hold(m) == LET h == HEv("hold", 0, 0, 0, 0, "", m, "", 0) IN Take(h, Base(h), [s EXCEPT !.hold = @ \cup {m}])
Rel(m)  == LET h == HEv("rel", 0, 0, 0, 0, "", m, "", 0) IN Take(h, Base(h), [s EXCEPT !.hold = @ \ {m}])

Init == s = S0 /\ g = G0(Cfg) /\ hist = <<>> /\ bad = {}

Next == /\ bad = {}
        /\ Len(hist) < MaxLen
        /\ \/ \E w \in 1..Cfg.nw : \/ \E i \in 1..Len(Cfg.wins) : Add(w, Cfg.wins[i][1], Cfg.wins[i][2])
                                   \/ Remove(w)
                                   \/ \E i \in 1..Len(Cfg.statuses) : SetStatus(w, Cfg.statuses[i])
                                   \/ \E sn \in 1..Cfg.ns : Start(sn, w)
           \/ \E sn \in 1..Cfg.ns : \/ Stop(sn)
                                    \/ \E i \in 1..Len(Cfg.evts) : Iri(sn, Cfg.evts[i])
                                    \/ \E i \in 1..Len(Cfg.lens) : Cc(sn, Cfg.lens[i])
           \/ \E i \in 1..Len(Cfg.hold) : Hold(Cfg.hold[i]) \/ Rel(Cfg.hold[i])
           \/ Adv

Spec == Init /\ [][Next]_vars

Report == bad = {} \/ PrintT(<<"DESIGN-CEX", ToJson([clauses |-> bad, events |-> hist])>>)
Clean  == bad = {}
\* the model and the contract's ghost agree on what is stored, on the sessions and on what waits for delivery
GhostTracks == bad # {} \/ (/\ \A i \in 1..Cfg.nw : g.w[i].on = (s.tab[i] # 0) /\ (g.w[i].on => g.w[i].st = s.objs[s.tab[i]].st)
                            /\ g.ses = s.ses /\ g.qi = s.qi /\ g.qc = s.qc /\ g.hi = s.hi /\ g.hc = s.hc)

View == <<s, g, bad>>
=============================================================================
