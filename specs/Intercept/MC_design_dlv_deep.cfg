SPECIFICATION Spec
CONSTANTS Mode = "dlv"  MaxSteps = 6
INVARIANTS AtMostOnce OnlyStored OnlyWarranted RightExporter NothingLeft
VIEW View
CHECK_DEADLOCK FALSE
