SPECIFICATION Spec
CONSTANTS Mode = "dlv"  MaxSteps = 4
INVARIANTS AtMostOnce OnlyStored OnlyWarranted RightExporter NothingLeft
VIEW View
CHECK_DEADLOCK FALSE
