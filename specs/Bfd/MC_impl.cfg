SPECIFICATION Spec
CONSTANT Watch = {"Mirror", "OnlyPollsChange", "UpOnce", "DownOnce", "CacheFollowsConfig", "FrrTold", "RemovedStaysRemoved", "PollCadence", "DetectTime", "HcNoEarlyFlip", "HcFlipAtThreshold", "HcCallback"}
INVARIANTS Report GhostTracks
VIEW View
CHECK_DEADLOCK FALSE
