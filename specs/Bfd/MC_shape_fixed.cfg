SPECIFICATION Spec
CONSTANTS NP = 2  Fixed = TRUE  MaxLen = 7
INVARIANTS Clean
VIEW View
CHECK_DEADLOCK FALSE
