SPECIFICATION Spec
CONSTANTS NP = 2  Fixed = TRUE  MaxLen = 9
INVARIANTS Clean
VIEW View
CHECK_DEADLOCK FALSE
