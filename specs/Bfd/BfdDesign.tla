----------------------------- MODULE BfdDesign -----------------------------
(***************************************************************************)
(* U1: the contract (Bfd.tla) is itself model-checked.  The contract judges *)
(* one observed step at a time with a small ghost (saturating counters,     *)
(* the sets tch/gone).  Here an arbitrary environment produces EVERY        *)
(* possible step (any answer, accepted by the contract or not) and the      *)
(* contract's verdict is compared, step by step, with the guarantee stated  *)
(* directly over the whole history.                                         *)
(*                                                                         *)
(* Mode = "hc"  (HealthChecker, one target)                                  *)
(*   direct statement: with h = the ping results since the target was        *)
(*   (re-)added, A = the instants at which a 2nd consecutive success was     *)
(*   seen, B = the instants at which a 3rd consecutive failure was seen:     *)
(*   the target is up iff A is not empty and its latest element is later     *)
(*   than every element of B.                                               *)
(*   AgreeHc   : the contract flags a check iff the answer differs from the  *)
(*               direct statement (as long as nothing was flagged before).   *)
(*   AgreeHcCb : HcCallback is flagged iff the step's callbacks are not       *)
(*               "one, naming the new state, if the state changed, else none" *)
(*   CbCountHc : as long as nothing was flagged, #callbacks = #changes of    *)
(*               the reported state.                                         *)
(*                                                                         *)
(* Mode = "removed"  (BFDManager, NP peers, presence in the cache only)      *)
(*   direct statement over absolute step numbers: a cached peer p is         *)
(*   illegitimate iff RemovePeer(p) succeeded at some step r, and since then *)
(*   neither AddPeer(p) succeeded nor did an answered status poll whose      *)
(*   FETCH happened after r report p.                                        *)
(*   AgreeRm   : "RemovedStaysRemoved" (in the step of the removal itself:   *)
(*               "CacheFollowsConfig") is flagged iff some cached peer is    *)
(*               illegitimate in that sense.                                 *)
(***************************************************************************)
EXTENDS Bfd

CONSTANTS Mode, MaxT, NP

None == -1

VARIABLES g, now, hist, upNow, ncb, nchg, flagged, last,      \* hc
          lastRm, lastAdd, lastRep, fetchT, heldD, present     \* removed

vars == <<g, now, hist, upNow, ncb, nchg, flagged, last, lastRm, lastAdd, lastRep, fetchT, heldD, present>>

(***************************************************************************)
(* Mode "hc"                                                                *)
(***************************************************************************)
HCfg == [impl |-> "design", kind |-> "hc", ntargets |-> 1, failth |-> 3, okth |-> 2, nsubs |-> 0]

DirectUp(h) ==
  LET n == Len(h)
      A == {i \in 2..n : h[i - 1] = "ok" /\ h[i] = "ok"}
      B == {i \in 3..n : h[i - 2] = "fail" /\ h[i - 1] = "fail" /\ h[i] = "fail"}
  IN A # {} /\ (B = {} \/ SetMax(A) > SetMax(B))

HcCbs == {<<>>, <<[t |-> 1, up |-> TRUE]>>, <<[t |-> 1, up |-> FALSE]>>,
          <<[t |-> 1, up |-> TRUE], [t |-> 1, up |-> TRUE]>>, <<[t |-> 1, up |-> TRUE], [t |-> 1, up |-> FALSE]>>}

HcEdges == {[op |-> "check", t |-> 0, r |-> "", res |-> <<r>>, cbs |-> c, up |-> <<u>>] : r \in {"ok", "fail"}, c \in HcCbs, u \in {"up", "down"}}
      \cup {[op |-> "addt", t |-> 1, r |-> "", res |-> <<"skip">>, cbs |-> c, up |-> <<u>>] : c \in HcCbs, u \in {"up", "down"}}

HcInit == /\ g = [t |-> <<[st |-> "down", f |-> 0, s |-> 0]>>]     \* a target that has just been added
          /\ now = 0 /\ hist = <<>> /\ upNow = "down" /\ ncb = 0 /\ nchg = 0 /\ flagged = FALSE
          /\ last = [contract |-> FALSE, direct |-> FALSE, cbc |-> FALSE, cbd |-> FALSE]
          /\ lastRm = <<>> /\ lastAdd = <<>> /\ lastRep = <<>> /\ fetchT = None /\ heldD = FALSE /\ present = <<>>

HcNext ==
  /\ now < MaxT /\ ~flagged
  /\ \E e \in HcEdges :
       LET cl == EdgeClauses(HCfg, g, e)
           h2 == IF e.op = "addt" THEN <<>> ELSE Append(hist, e.res[1])
           want == IF DirectUp(h2) THEN "up" ELSE "down"
           cbok == /\ Len(e.cbs) = (IF e.op = "check" /\ e.up[1] # upNow THEN 1 ELSE 0)
                   /\ \A i \in 1..Len(e.cbs) : e.cbs[i].up = (e.up[1] = "up")
       IN /\ last' = [contract |-> cl \cap {"HcNoEarlyFlip", "HcFlipAtThreshold"} # {}, direct |-> e.up[1] # want,
                      cbc |-> "HcCallback" \in cl, cbd |-> ~cbok]
          /\ flagged' = (cl # {})
          /\ g' = Step(HCfg, g, e, <<>>)
          /\ hist' = h2
          /\ upNow' = e.up[1]
          /\ ncb' = ncb + Len(e.cbs)
          /\ nchg' = nchg + (IF e.op = "check" /\ e.up[1] # upNow THEN 1 ELSE 0)
          /\ now' = now + 1
          /\ UNCHANGED <<lastRm, lastAdd, lastRep, fetchT, heldD, present>>

AgreeHc   == Mode = "hc" => last.contract = last.direct
AgreeHcCb == Mode = "hc" => last.cbc = last.cbd
CbCountHc == Mode = "hc" /\ ~flagged => ncb = nchg
GhostHc   == Mode = "hc" => g.t[1].st = upNow

(***************************************************************************)
(* Mode "removed"                                                           *)
(***************************************************************************)
BCfg == [impl |-> "design", kind |-> "bfd", npeers |-> NP, interval |-> 5000, drx |-> 100, dtx |-> 150, dmult |-> 3,
         prestarted |-> TRUE, nsubs |-> 0]
PP == 1..NP
Here == [st |-> "Down", rx |-> 100, tx |-> 150, mult |-> 3, det |-> 300]

Caches == [PP -> {NoPeer, Here}]
Snaps  == [PP -> {"absent", "down"}]

BEdge(op, p, ok, dt, fetches, polls, cache, held) ==
  [op |-> op, p |-> p, s |-> "", v |-> 0, rx |-> 0, tx |-> 0, mult |-> 0, q |-> 0, which |-> "", on |-> FALSE,
   acc |-> TRUE, ok |-> ok, dt |-> dt, fetches |-> fetches, polls |-> polls, cbs |-> <<>>, told |-> <<>>, dup |-> 0, ddown |-> 0,
   cache |-> cache, held |-> held, run |-> "running"]

\* every step the environment can take in the current situation, with every possible resulting cache
BEdges ==
       {BEdge(op, p, ok, 0, 0, <<>>, c, heldD) : op \in {"add", "remove"}, p \in PP, ok \in BOOLEAN, c \in Caches}
  \cup (IF heldD
          THEN {BEdge("poll_end", 0, TRUE, 2500, 0, <<[ok |-> ok, snap |-> sn, stale |-> TRUE]>>, c, FALSE) : ok \in BOOLEAN, sn \in Snaps, c \in Caches}
          ELSE {BEdge("poll_begin", 0, TRUE, 2500, 1, <<>>, c, TRUE) : c \in Caches}
               \cup {BEdge("adv", 0, TRUE, 5000, 1, <<[ok |-> ok, snap |-> sn, stale |-> FALSE]>>, c, FALSE) : ok \in BOOLEAN, sn \in Snaps, c \in Caches})

RmInit == /\ g = G0(BCfg)
          /\ now = 0 /\ hist = <<>> /\ upNow = "" /\ ncb = 0 /\ nchg = 0 /\ flagged = FALSE
          /\ last = [contract |-> FALSE, direct |-> FALSE]
          /\ lastRm = [p \in PP |-> None] /\ lastAdd = [p \in PP |-> None] /\ lastRep = [p \in PP |-> None]
          /\ fetchT = None /\ heldD = FALSE /\ present = [p \in PP |-> FALSE]

RmNext ==
  /\ now < MaxT
  /\ \E e \in BEdges :
       LET t == now + 1                                             \* the absolute number of this step
           rm2  == [p \in PP |-> IF e.op = "remove" /\ e.p = p /\ e.ok THEN t ELSE lastRm[p]]
           add2 == [p \in PP |-> IF e.op = "add" /\ e.p = p /\ e.ok THEN t ELSE lastAdd[p]]
           \* the fetch instant of the poll completed in this step (None: no poll completed)
           ft   == IF e.op = "poll_end" THEN fetchT ELSE IF e.op = "adv" THEN t ELSE None
           rep2 == [p \in PP |-> IF ft # None /\ e.polls[1].ok /\ e.polls[1].snap[p] # "absent" /\ ft > lastRep[p] THEN ft ELSE lastRep[p]]
           illegit(p) == /\ e.cache[p].st # "none"
                         /\ rm2[p] # None
                         /\ add2[p] < rm2[p]
                         /\ rep2[p] < rm2[p]
           cl == EdgeClauses(BCfg, g, e)
           \* in the very step of the removal the same fact is clause CacheFollowsConfig
           atRm == e.op = "remove" /\ e.ok /\ e.cache[e.p].st # "none" /\ "CacheFollowsConfig" \in cl
       IN /\ last' = [contract |-> "RemovedStaysRemoved" \in cl \/ atRm, direct |-> \E p \in PP : illegit(p)]
          /\ g' = Step(BCfg, g, e, <<>>)
          /\ lastRm' = rm2 /\ lastAdd' = add2 /\ lastRep' = rep2
          /\ fetchT' = IF e.op = "poll_begin" THEN t ELSE IF e.op = "poll_end" THEN None ELSE fetchT
          /\ heldD' = e.held
          /\ present' = [p \in PP |-> e.cache[p].st # "none"]
          /\ now' = t
          /\ UNCHANGED <<hist, upNow, ncb, nchg, flagged>>

AgreeRm == Mode = "removed" => last.contract = last.direct

Init == IF Mode = "hc" THEN HcInit ELSE RmInit
Next == IF Mode = "hc" THEN HcNext ELSE RmNext
Spec == Init /\ [][Next]_vars

\* absolute step numbers are only compared with each other; MaxT keeps the model finite
View == vars
=============================================================================
