SPECIFICATION Spec
CONSTANTS Mode = "removed"  MaxT = 8  NP = 1
INVARIANTS AgreeRm
VIEW View
CHECK_DEADLOCK FALSE
