-------------------------------- MODULE Bfd --------------------------------
(***************************************************************************)
(* Contract of pkg/routing/bfd.go (BFDManager) and pkg/routing/health.go    *)
(* (HealthChecker) - extra family X03, not one of the 20 listed properties. *)
(*                                                                         *)
(* What the component is.  BFDManager does NOT run the RFC 5880 automaton:   *)
(* the sessions (AdminDown/Down/Init/Up, three-way handshake, detection      *)
(* timer, discriminators) live inside FRR's bfdd.  The manager configures    *)
(* peers through `vtysh -c`, polls "show bfd peers json" every               *)
(* MonitorInterval, mirrors the reported session state into its cache and    *)
(* fires OnPeerUp / OnPeerDown for the changes it sees.  So the contract     *)
(* talks about an outside observer of the manager and of FRR: what FRR was   *)
(* told and what it answered, the API results, the cache (GetPeer), the      *)
(* callbacks.  The RFC state table, "Up only after a three-way handshake",   *)
(* "Down within the detection time" and "unique discriminators" are promises *)
(* of bfdd, not of this code; they are recorded as out of scope (the only    *)
(* trace of the detection time is BFDPeer.DetectionTime(), which - unlike    *)
(* RFC 5880 6.8.4 - multiplies the LOCAL receive interval by the LOCAL       *)
(* multiplier, as its comment and DefaultBFDConfig's comment say).           *)
(*                                                                         *)
(* clause               guarantee (source in the code / documentation)       *)
(* -------------------  --------------------------------------------------  *)
(* Mirror               after a status poll that FRR answered, every peer    *)
(*                      FRR reported is in the cache with the reported        *)
(*                      session state, parsed as ParseBFDState documents      *)
(*                      (unknown words = Down)  ["refreshPeers updates the   *)
(*                      local peer cache from FRR", "New peer discovered"]   *)
(* OnlyPollsChange      a cached peer changes only through AddPeer /         *)
(*                      RemovePeer of that peer or through an answered poll   *)
(*                      that reports it; a failed poll changes nothing        *)
(* UpOnce / DownOnce    OnPeerUp ("callback for BFD peer establishment") is   *)
(*                      invoked exactly once, with the peer's address, for    *)
(*                      every observed change of a cached peer to Up, and     *)
(*                      never otherwise; OnPeerDown ("callback for BFD peer   *)
(*                      failure") exactly once for every observed change      *)
(*                      from Up to another state, never otherwise; the        *)
(*                      UpCount/DownCount statistics count the same events    *)
(* CacheFollowsConfig   AddPeer/AddPeerWithOptions that returns nil leaves    *)
(*                      the peer cached as Down with exactly the requested    *)
(*                      (or default) intervals and multiplier; RemovePeer     *)
(*                      that returns nil leaves it uncached; a call that      *)
(*                      returns an error leaves the cache as it was           *)
(* FrrTold              a successful AddPeer has told FRR exactly `peer <ip>` *)
(*                      with the requested receive-interval, transmit-        *)
(*                      interval and detect-multiplier, a successful          *)
(*                      RemovePeer exactly `no peer <ip>`; nothing else ever  *)
(*                      reconfigures FRR                                      *)
(* RemovedStaysRemoved  "RemovePeer removes a BFD peer": once RemovePeer      *)
(*                      returned nil the peer is not in the cache again       *)
(*                      until AddPeer succeeds for it or FRR reports it in a  *)
(*                      status fetched AFTER the removal                      *)
(* PollCadence          "MonitorInterval is how often to poll": between a     *)
(*                      successful Start and Stop exactly one status fetch    *)
(*                      per MonitorInterval; none before Start succeeded,     *)
(*                      none after Stop returned                              *)
(* DetectTime           DetectionTime() = MinRxInterval x DetectMultiplier    *)
(*                      of the cached peer ("detection time = 100ms * 3")     *)
(* HcNoEarlyFlip        HealthChecker: a target is never marked down before   *)
(*                      its 3rd consecutive failed check and never marked up  *)
(*                      before its 2nd consecutive successful check; a new    *)
(*                      target starts down  ("Hysteresis: 3 failures -> down, *)
(*                      2 successes -> up", "Start as unknown/down")          *)
(* HcFlipAtThreshold    ... and it IS marked down at the 3rd consecutive      *)
(*                      failure and up at the 2nd consecutive success         *)
(* HcCallback           OnStateChange is invoked exactly once per state       *)
(*                      change, with the target's name and its new state,     *)
(*                      and never without a change                            *)
(*                                                                         *)
(* Weakest readings.  Everything is judged relative to the CACHE's own        *)
(* previous state (a flap that FRR went through between two polls is not      *)
(* seen and not demanded).  For the peer an AddPeer/RemovePeer step is about  *)
(* callbacks are unconstrained; for a peer seen for the first time in state   *)
(* Up the up-callback is optional.  A poll whose status was fetched before    *)
(* an AddPeer/RemovePeer of p completed (`stale`, p in g.tch) says nothing    *)
(* about p except RemovedStaysRemoved.  What happens to peers FRR no longer   *)
(* reports, and to the intervals of peers FRR reports, is unconstrained.      *)
(* Callback ORDER is not part of the contract: each callback is started as    *)
(* its own goroutine (`go m.onPeerUp(addr)`) and the code promises nothing.   *)
(***************************************************************************)
EXTENDS Integers, FiniteSets, Sequences, TLC

Min2(a, b) == IF a < b THEN a ELSE b
SetMax(S) == CHOOSE x \in S : \A y \in S : y <= x

(***************************************************************************)
(* BFDManager                                                               *)
(* cfg = [kind = "bfd", npeers, interval (ms), drx, dtx, dmult, prestarted]  *)
(* ghost g = [cache, run, since, held, tch, gone]                            *)
(*   cache  the cache as last observed: <<[st, rx, tx, mult, det]>>, st=none  *)
(*   run    "fresh" | "running" | "stopped"                                  *)
(*   since  ms since the monitor loop's last tick (or since Start)            *)
(*   held   FRR is keeping back the answer to a status fetch                  *)
(*   tch    peers AddPeer/RemovePeer completed for since that fetch           *)
(*   gone   peers removed and neither re-added nor re-reported since          *)
(* edge e = [op, p, s, v, rx, tx, mult, q, which, on,   (the event)           *)
(*           acc, ok, dt, fetches, polls, cbs, told, dup, ddown, cache,       *)
(*           held, run]                                                       *)
(*   polls  status polls COMPLETED in the step: <<[ok, snap, stale]>>         *)
(*          ok = FRR answered; snap[p] = status word or "absent"              *)
(*   cbs    callbacks of the step <<[kind ("up"|"down"), p]>>                 *)
(*   told   configuration commands FRR received <<[kind, p, rx, tx, mult,     *)
(*          acc, multihop]>>                                                  *)
(***************************************************************************)
Peers(cfg) == 1..cfg.npeers
NoPeer == [st |-> "none", rx |-> 0, tx |-> 0, mult |-> 0, det |-> 0]

\* ParseBFDState as documented by its table: case-insensitive up / init / admindown / "admin down", anything else Down
Parse(s) == IF s \in {"up", "Up", "UP"} THEN "Up"
            ELSE IF s \in {"init", "Init", "INIT"} THEN "Init"
            ELSE IF s \in {"admindown", "AdminDown", "admin down", "Admin Down"} THEN "AdminDown"
            ELSE "Down"

BG0(cfg) == [cache |-> [p \in Peers(cfg) |-> NoPeer],
             run   |-> IF cfg.prestarted THEN "running" ELSE "fresh",
             since |-> IF cfg.prestarted THEN cfg.interval \div 2 ELSE 0,
             held  |-> FALSE, tch |-> {}, gone |-> {}]

OkPolls(e)   == {i \in 1..Len(e.polls) : e.polls[i].ok}
LastOk(e)    == e.polls[SetMax(OkPolls(e))]
CfgStep(e)   == e.op \in {"add", "remove"}
Touched(e)   == IF CfgStep(e) THEN {e.p} ELSE {}
NCb(e, k, q) == Cardinality({i \in 1..Len(e.cbs) : e.cbs[i].kind = k /\ e.cbs[i].p = q})

\* a poll of this step legitimately speaks about peer q
Speaks(g, pl, q) == pl.ok /\ pl.snap[q] # "absent" /\ (~pl.stale \/ q \notin g.tch)
Reported(g, e, q) == \E i \in 1..Len(e.polls) : Speaks(g, e.polls[i], q)
\* an answered poll of this step names q at all (fresh or stale)
Mentions(e, q) == \E i \in 1..Len(e.polls) : e.polls[i].ok /\ e.polls[i].snap[q] # "absent"

Req(cfg, e) == IF e.v = 0 THEN [rx |-> cfg.drx, tx |-> cfg.dtx, mult |-> cfg.dmult]
                          ELSE [rx |-> e.rx, tx |-> e.tx, mult |-> e.mult]

StartsNow(g, e) == e.op = "start" /\ e.acc /\ g.run = "fresh"

BfdEdge(cfg, g, e) ==
  LET P == Peers(cfg) IN
       \* Mirror: the last answered poll of the step
       (IF OkPolls(e) # {} /\ \E q \in P : Speaks(g, LastOk(e), q) /\ e.cache[q].st # Parse(LastOk(e).snap[q])
          THEN {"Mirror"} ELSE {})
  \cup (IF \E q \in P \ Touched(e) : ~Mentions(e, q) /\ e.cache[q] # g.cache[q] THEN {"OnlyPollsChange"} ELSE {})
       \* callbacks, relative to the cache before and after the step
  \cup (IF \/ \E q \in P \ Touched(e) :
                LET old == g.cache[q].st
                    new == e.cache[q].st
                    n   == NCb(e, "up", q)
                IN IF new = "Up" /\ old \notin {"Up", "none"} THEN n # 1
                   ELSE IF new = "Up" /\ old = "none" THEN n > 1
                   ELSE n # 0
           \/ NCb(e, "up", 0) # 0
           \/ (~CfgStep(e) /\ e.dup # Cardinality({i \in 1..Len(e.cbs) : e.cbs[i].kind = "up"}))
          THEN {"UpOnce"} ELSE {})
  \cup (IF \/ \E q \in P \ Touched(e) :
                LET old == g.cache[q].st
                    new == e.cache[q].st
                    n   == NCb(e, "down", q)
                IN IF old = "Up" /\ new # "Up" THEN n # 1 ELSE n # 0
           \/ NCb(e, "down", 0) # 0
           \/ (~CfgStep(e) /\ e.ddown # Cardinality({i \in 1..Len(e.cbs) : e.cbs[i].kind = "down"}))
          THEN {"DownOnce"} ELSE {})
       \* configuration
  \cup (IF \/ e.op = "add" /\ e.ok /\ e.cache[e.p] # [st |-> "Down", rx |-> Req(cfg, e).rx, tx |-> Req(cfg, e).tx, mult |-> Req(cfg, e).mult, det |-> e.cache[e.p].det]
           \/ e.op = "remove" /\ e.ok /\ e.cache[e.p].st # "none"
           \/ CfgStep(e) /\ ~e.ok /\ e.cache[e.p] # g.cache[e.p]
          THEN {"CacheFollowsConfig"} ELSE {})
  \cup (IF \/ e.op = "add" /\ e.ok /\ e.told # <<[kind |-> "peer", p |-> e.p, rx |-> Req(cfg, e).rx, tx |-> Req(cfg, e).tx, mult |-> Req(cfg, e).mult, acc |-> TRUE, multihop |-> FALSE]>>
           \/ e.op = "remove" /\ e.ok /\ (Len(e.told) # 1 \/ e.told[1].kind # "nopeer" \/ e.told[1].p # e.p \/ ~e.told[1].acc)
           \/ ~CfgStep(e) /\ e.told # <<>>
           \/ CfgStep(e) /\ ~e.ok /\ \E i \in 1..Len(e.told) : e.told[i].acc
          THEN {"FrrTold"} ELSE {})
  \cup (IF \E q \in g.gone : /\ e.cache[q].st # "none"
                             /\ ~(e.op = "add" /\ e.p = q /\ e.ok)
                             /\ ~Reported(g, e, q)
          THEN {"RemovedStaysRemoved"} ELSE {})
       \* cadence (the step that starts the manager contains the initial refresh and is exempt)
  \cup (IF ~StartsNow(g, e) /\ e.fetches # (IF g.run = "running" THEN (g.since + e.dt) \div cfg.interval ELSE 0)
          THEN {"PollCadence"} ELSE {})

BfdStep(cfg, g, e) ==
  LET run2 == IF StartsNow(g, e) /\ e.ok THEN "running"
              ELSE IF e.op = "stop" /\ e.acc /\ g.run = "running" THEN "stopped" ELSE g.run
      okadd == IF e.op = "add" /\ e.ok THEN {e.p} ELSE {}
      okrm  == IF e.op = "remove" /\ e.ok THEN {e.p} ELSE {}
  IN [cache |-> e.cache,
      run   |-> run2,
      since |-> IF run2 # "running" THEN 0
                ELSE IF g.run # "running" THEN e.dt
                ELSE (g.since + e.dt) % cfg.interval,
      held  |-> e.held,
      tch   |-> IF e.held THEN (IF g.held THEN g.tch ELSE {}) \cup okadd \cup okrm ELSE {},
      gone  |-> ((g.gone \cup okrm) \ okadd) \ {q \in Peers(cfg) : Reported(g, e, q)}]

BfdNode(cfg, g, n) ==
  IF \E q \in Peers(cfg) : n.cache[q].st # "none" /\ n.cache[q].det # n.cache[q].rx * n.cache[q].mult
    THEN {"DetectTime"} ELSE {}

(***************************************************************************)
(* HealthChecker                                                            *)
(* cfg = [kind = "hc", ntargets, failth = 3, okth = 2]                       *)
(* ghost g = [t |-> <<[st ("none"|"up"|"down"), f, s]>>]  f, s = consecutive  *)
(*           failures / successes, saturated at the thresholds               *)
(* edge e = [op ("check"|"addt"|"rmt"), t, r, res, cbs, up]                  *)
(*   res[t]  "ok" | "fail" (the answer the target's single ping got),         *)
(*           "skip" (not pinged), "many" (pinged more than once)              *)
(*   cbs     <<[t, up]>>   up[t] = "none" | "up" | "down" after the step      *)
(***************************************************************************)
Targets(cfg) == 1..cfg.ntargets
HG0(cfg) == [t |-> [x \in Targets(cfg) |-> [st |-> "none", f |-> 0, s |-> 0]]]

\* what the hysteresis rule says target x is after this check
HcExpect(cfg, g, e, x) ==
  LET o == g.t[x] IN
  IF e.res[x] = "fail" THEN (IF o.f + 1 >= cfg.failth THEN "down" ELSE o.st)
  ELSE IF e.res[x] = "ok" THEN (IF o.s + 1 >= cfg.okth THEN "up" ELSE o.st)
  ELSE o.st

HcNCb(e, x) == Cardinality({i \in 1..Len(e.cbs) : e.cbs[i].t = x})

HcEdge(cfg, g, e) ==
  LET T == Targets(cfg)
      Present == {x \in T : g.t[x].st # "none"}
      want(x) == IF e.op = "check" /\ x \in Present THEN HcExpect(cfg, g, e, x)
                 ELSE IF e.op = "addt" /\ x = e.t THEN "down"
                 ELSE IF e.op = "rmt" /\ x = e.t THEN "none"
                 ELSE g.t[x].st
      \* a (re-)added or removed target: no change is announced; its old state is not compared
      silent(x) == e.op \in {"addt", "rmt"} /\ x = e.t
  IN   (IF \E x \in T : e.up[x] # want(x) /\ (silent(x) \/ e.up[x] # g.t[x].st) THEN {"HcNoEarlyFlip"} ELSE {})
  \cup (IF \/ \E x \in T : e.up[x] # want(x) /\ ~silent(x) /\ e.up[x] = g.t[x].st
           \/ e.op = "check" /\ \E x \in Present : e.res[x] \notin {"ok", "fail"}
          THEN {"HcFlipAtThreshold"} ELSE {})
  \cup (IF \/ \E x \in T : HcNCb(e, x) # (IF ~silent(x) /\ e.up[x] # g.t[x].st THEN 1 ELSE 0)
           \/ \E i \in 1..Len(e.cbs) : e.cbs[i].t \notin T \/ e.cbs[i].up # (e.up[e.cbs[i].t] = "up")
          THEN {"HcCallback"} ELSE {})

HcStep(cfg, g, e) ==
  [t |-> [x \in Targets(cfg) |->
      IF e.op = "addt" /\ x = e.t THEN [st |-> e.up[x], f |-> 0, s |-> 0]
      ELSE IF e.up[x] = "none" THEN [st |-> "none", f |-> 0, s |-> 0]
      ELSE IF e.op = "check" /\ g.t[x].st # "none"
        THEN [st |-> e.up[x],
              f  |-> IF e.res[x] = "fail" THEN Min2(g.t[x].f + 1, cfg.failth) ELSE IF e.res[x] = "ok" THEN 0 ELSE g.t[x].f,
              s  |-> IF e.res[x] = "ok" THEN Min2(g.t[x].s + 1, cfg.okth) ELSE IF e.res[x] = "fail" THEN 0 ELSE g.t[x].s]
      ELSE [g.t[x] EXCEPT !.st = e.up[x]]]]

(***************************************************************************)
(* the family's contract                                                    *)
(***************************************************************************)
G0(cfg) == IF cfg.kind = "bfd" THEN BG0(cfg) ELSE HG0(cfg)
EdgeClauses(cfg, g, e) == IF cfg.kind = "bfd" THEN BfdEdge(cfg, g, e) ELSE HcEdge(cfg, g, e)
Step(cfg, g, e, obs) == IF cfg.kind = "bfd" THEN BfdStep(cfg, g, e) ELSE HcStep(cfg, g, e)
NodeClauses(cfg, g, n, lastop) == IF cfg.kind = "bfd" THEN BfdNode(cfg, g, n) ELSE {}
=============================================================================
