SPECIFICATION Spec
CONSTANTS Mode = "hc"  MaxT = 11  NP = 1
INVARIANTS AgreeHc AgreeHcCb CbCountHc GhostHc
VIEW View
CHECK_DEADLOCK FALSE
