SPECIFICATION Spec
CONSTANTS Mode = "removed"  MaxT = 4  NP = 2
INVARIANTS AgreeRm
VIEW View
CHECK_DEADLOCK FALSE
