------------------------------ MODULE BfdShape ------------------------------
(***************************************************************************)
(* Implementation-shaped design spec of pkg/routing/bfd.go: one action per  *)
(* critical section / goroutine step of the real code, FRR as environment.  *)
(*                                                                         *)
(*   Frr(p, s)    bfdd: the session with p changes state, or the operator    *)
(*                (un)configures p in FRR directly                           *)
(*   Add(p)       AddPeerWithOptions: under m.mu - vtysh `peer p ...`,       *)
(*                then m.peers[p] = fresh record in state Down               *)
(*   Remove(p)    RemovePeer: under m.mu - vtysh `no peer p`, delete(m.peers)*)
(*   PollBegin    monitorLoop tick -> refreshPeers, first half:              *)
(*                GetPeerStatus() runs vtysh WITHOUT holding m.mu            *)
(*   PollEnd      refreshPeers, second half, under m.mu: every reported      *)
(*                peer is updated (callbacks as goroutines) or - "New peer   *)
(*                discovered" - inserted                                     *)
(*   Adv          a whole poll with nothing in between (one MonitorInterval) *)
(*                                                                         *)
(* Fixed = FALSE is the code as found.  Fixed = TRUE is the proposed repair: *)
(* the manager keeps the set of addresses RemovePeer removed since the       *)
(* current (or last) status fetch began (s.rms: emptied when refreshPeers    *)
(* starts to fetch, RemovePeer adds, AddPeer deletes) and the locked half    *)
(* does not insert an unknown peer that is in the set (it is picked up by    *)
(* the next poll if FRR still reports it).                                   *)
(*                                                                         *)
(* The spec carries the contract's ghost (Bfd.tla) and judges each of its    *)
(* own steps with EdgeClauses/NodeClauses, exactly as BfdImpl does with the  *)
(* steps of the real code.  Every violating state is printed as              *)
(*   <<"DESIGN-CEX", json([clauses, events])>>                               *)
(* where events is the history in the harness' alphabet; lib/fam_bfd.py      *)
(* replays the shortest history per clause set on the real manager.          *)
(***************************************************************************)
EXTENDS Bfd, Json

CONSTANTS NP, Fixed, MaxLen

ASSUME NP \in 1..2

Cfg == [impl |-> "shape", kind |-> "bfd", npeers |-> NP, interval |-> 5000, drx |-> 100, dtx |-> 150, dmult |-> 3,
        prestarted |-> TRUE, nsubs |-> 0]
P == 1..NP
Absent == [st |-> "absent", rx |-> 0, tx |-> 0, mult |-> 0]

VARIABLES s, g, hist, bad
vars == <<s, g, hist, bad>>

\* s = [frr, cache, held, snap, rms]
S0 == [frr |-> [p \in P |-> Absent], cache |-> [p \in P |-> NoPeer], held |-> FALSE,
       snap |-> [p \in P |-> Absent], rms |-> {}]

Rec(st, rx, tx, mult) == [st |-> st, rx |-> rx, tx |-> tx, mult |-> mult, det |-> rx * mult]

\* the harness' events carry the same fields for every op
HEv(op, p, st, q) == [op |-> op, p |-> p, s |-> st, v |-> 0, rx |-> 0, tx |-> 0, mult |-> 0, q |-> q, which |-> "", on |-> FALSE]

Edge(hev, dt, fetches, polls, cbs, told, x) ==
  [op |-> hev.op, p |-> hev.p, s |-> hev.s, v |-> 0, rx |-> 0, tx |-> 0, mult |-> 0, q |-> hev.q, which |-> "", on |-> FALSE,
   acc |-> TRUE, ok |-> TRUE, dt |-> dt, fetches |-> fetches, polls |-> polls, cbs |-> cbs, told |-> told,
   dup |-> Cardinality({i \in 1..Len(cbs) : cbs[i].kind = "up"}), ddown |-> Cardinality({i \in 1..Len(cbs) : cbs[i].kind = "down"}),
   cache |-> x.cache, held |-> x.held, run |-> "running"]

Take(hev, e, x) ==
  LET g2 == Step(Cfg, g, e, <<>>) IN
  /\ s' = x
  /\ g' = g2
  /\ hist' = Append(hist, hev)
  /\ bad' = EdgeClauses(Cfg, g, e) \cup NodeClauses(Cfg, g2, [cache |-> x.cache], hev.op)

\* ---- refreshPeers, second half (under the lock) ---------------------------------------------
Adopt(x, p) == ~Fixed \/ p \notin x.rms
Applied(x, snp) ==
  [p \in P |-> IF snp[p].st = "absent" THEN x.cache[p]
               ELSE IF x.cache[p].st # "none" THEN [x.cache[p] EXCEPT !.st = Parse(snp[p].st)]
               ELSE IF Adopt(x, p) THEN Rec(Parse(snp[p].st), snp[p].rx, snp[p].tx, snp[p].mult)
               ELSE x.cache[p]]
CbOf(x, snp, p) ==
  LET old == x.cache[p].st
      new == Applied(x, snp)[p].st
  IN IF snp[p].st = "absent" \/ old = "none" \/ old = new THEN <<>>
     ELSE IF new = "Up" THEN <<[kind |-> "up", p |-> p]>>
     ELSE IF old = "Up" THEN <<[kind |-> "down", p |-> p]>>
     ELSE <<>>
CbsOf(x, snp) == CbOf(x, snp, 1) \o (IF NP >= 2 THEN CbOf(x, snp, 2) ELSE <<>>)
SnapWords(snp) == [p \in P |-> snp[p].st]

\* ---- the step relation, in the harness' alphabet -------------------------------------------
Frr(p, st) ==
  LET hev == HEv("frr", p, st, 0)
      ent == IF st = "absent" THEN Absent
             ELSE IF s.frr[p].st = "absent" THEN [st |-> st, rx |-> 300, tx |-> 200, mult |-> 4]
             ELSE [s.frr[p] EXCEPT !.st = st]
      x   == [s EXCEPT !.frr[p] = ent]
  IN /\ ent # s.frr[p]
     /\ Take(hev, Edge(hev, 0, 0, <<>>, <<>>, <<>>, x), x)

Add(p) ==
  LET hev == HEv("add", p, "", 0)
      ent == [st |-> IF s.frr[p].st = "absent" THEN "down" ELSE s.frr[p].st, rx |-> Cfg.drx, tx |-> Cfg.dtx, mult |-> Cfg.dmult]
      x   == [s EXCEPT !.frr[p] = ent, !.cache[p] = Rec("Down", Cfg.drx, Cfg.dtx, Cfg.dmult), !.rms = s.rms \ {p}]
      told == <<[kind |-> "peer", p |-> p, rx |-> Cfg.drx, tx |-> Cfg.dtx, mult |-> Cfg.dmult, acc |-> TRUE, multihop |-> FALSE]>>
  IN Take(hev, Edge(hev, 0, 0, <<>>, <<>>, told, x), x)

Remove(p) ==
  LET hev == HEv("remove", p, "", 0)
      x   == [s EXCEPT !.frr[p] = Absent, !.cache[p] = NoPeer, !.rms = s.rms \cup {p}]
      told == <<[kind |-> "nopeer", p |-> p, rx |-> 0, tx |-> 0, mult |-> 0, acc |-> TRUE, multihop |-> FALSE]>>
  IN Take(hev, Edge(hev, 0, 0, <<>>, <<>>, told, x), x)

PollBegin ==
  LET hev == HEv("poll_begin", 0, "", 0)
      x   == [s EXCEPT !.held = TRUE, !.snap = s.frr, !.rms = {}]
  IN /\ ~s.held
     /\ Take(hev, Edge(hev, 2500, 1, <<>>, <<>>, <<>>, x), x)

PollEnd ==
  LET hev == HEv("poll_end", 0, "", 0)
      x   == [s EXCEPT !.held = FALSE, !.cache = Applied(s, s.snap), !.snap = [p \in P |-> Absent]]
      pl  == <<[ok |-> TRUE, snap |-> SnapWords(s.snap), stale |-> TRUE]>>
  IN /\ s.held
     /\ Take(hev, Edge(hev, 2500, 0, pl, CbsOf(s, s.snap), <<>>, x), x)

Adv ==
  LET hev == HEv("adv", 0, "", 1)
      y   == [s EXCEPT !.rms = {}]
      x   == [y EXCEPT !.cache = Applied(y, s.frr)]
      pl  == <<[ok |-> TRUE, snap |-> SnapWords(s.frr), stale |-> FALSE]>>
  IN /\ ~s.held
     /\ Take(hev, Edge(hev, 5000, 1, pl, CbsOf(y, s.frr), <<>>, x), x)

Init == s = S0 /\ g = G0(Cfg) /\ hist = <<>> /\ bad = {}

Next == /\ bad = {}
        /\ Len(hist) < MaxLen
        /\ \/ \E p \in P, st \in {"absent", "down", "up"} : Frr(p, st)
           \/ \E p \in P : Add(p) \/ Remove(p)
           \/ PollBegin \/ PollEnd \/ Adv

Spec == Init /\ [][Next]_vars

Report == bad = {} \/ PrintT(<<"DESIGN-CEX", ToJson([clauses |-> bad, events |-> hist])>>)
Clean  == bad = {}

View == <<s, g, bad>>
=============================================================================
