SPECIFICATION Spec
CONSTANTS NP = 1  Fixed = FALSE  MaxLen = 6
INVARIANTS Report
VIEW View
CHECK_DEADLOCK FALSE
