SPECIFICATION Spec
CONSTANT Watch = {"UniqueId", "StoredOnce", "ExportedOnceInOrder", "Filtered", "DropCounted", "ClosedOnStop", "MostSpecific", "RetentionStamped", "TypeRetentionApplied", "OnlyExpired", "ExpiredRemoved", "ExpiredCount", "HoldMatch", "HoldExact", "HoldsListed", "HoldRemove", "HoldCleanup", "HoldProtects", "QuerySound", "QueryPage", "QueryOrder", "IndexAgree", "DeleteEffective", "Retained", "CountTrue", "LoggerStatsTrue", "ExportedCounted"}
INVARIANTS Report
VIEW View
CHECK_DEADLOCK FALSE
