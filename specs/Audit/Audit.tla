------------------------------- MODULE Audit -------------------------------
(***************************************************************************)
(* Contract of pkg/audit: the in-memory event store (storage.go), the       *)
(* retention manager with its legal holds (retention.go) and the logger     *)
(* that ties them together (logger.go).  Extra family X10: none of the 20   *)
(* listed properties; the sentences below were formulated from the          *)
(* package's own comments (quoted), weakest reading.                        *)
(*                                                                         *)
(* The contract talks about what an outside observer sees: what Query /     *)
(* GetBySubscriber / GetBySession / GetByType / Count / Stats return, what  *)
(* DeleteExpired / RemoveLegalHold / CleanupExpiredHolds / IsUnderLegalHold *)
(* / GetRetentionForEvent answer, which events are in the logger's storage  *)
(* after a call, what each exporter was handed and in which order, and the  *)
(* differences of the logger's statistics counters.  One unit of time is    *)
(* one day.                                                                 *)
(*                                                                         *)
(* S1 "LogEvent logs a single audit event" / prepareEvent: "if event.ID ==  *)
(*    \"\" ... uuid.New()" / Storage.Store "persists an event" /            *)
(*    Exporter.Export "sends an event to the external system" /             *)
(*    "FlushInterval is how often to flush buffered events" / Stop: "Final  *)
(*    flush" / "BufferSize is the event buffer size for async processing",  *)
(*    "Audit event dropped - buffer full", EventsDropped / "MinSeverity is  *)
(*    the minimum severity to log", "EnabledCategories lists which          *)
(*    categories to log (empty = all)":                                     *)
(*    UniqueId           an event handed over without an id gets an id no   *)
(*                       earlier event of this logger got                   *)
(*    StoredOnce         an accepted event (passes the filters, not counted *)
(*                       as dropped) is in the storage exactly once - with  *)
(*                       SyncWrites when LogEvent returns, otherwise at the *)
(*                       latest after the next flush tick or Stop; nothing  *)
(*                       else ever enters the storage                       *)
(*    ExportedOnceInOrder each exporter is handed the accepted events, each *)
(*                       exactly once, in the order of acceptance (same     *)
(*                       deadlines); nothing else                           *)
(*    Filtered           an event below MinSeverity or of a category that   *)
(*                       is not enabled is neither stored nor exported      *)
(*    DropCounted        an event that passes the filters is lost only if   *)
(*                       the buffer already holds BufferSize events, and    *)
(*                       then EventsDropped counts it (and only then)       *)
(*    ClosedOnStop       "Close exporters": Stop closes every exporter      *)
(*                       once; nothing else closes one                      *)
(* S2 prepareEvent: "Set retention" (RetentionDays, ExpiresAt = Timestamp + *)
(*    days) / "RetentionByCategory allows different retention per event     *)
(*    category" / "DefaultRetentionDays is the default retention period" /  *)
(*    RetentionManager: "Per-event-type retention (overrides category)",    *)
(*    GetRetentionForEvent: "Check event type override first", "Fall back   *)
(*    to category":                                                         *)
(*    MostSpecific       GetRetentionForEvent answers the event type's      *)
(*                       retention if one is set, else its category's, else *)
(*                       the default; GetRetention the category's, else the *)
(*                       default; GetPolicySummary lists exactly what is    *)
(*                       configured                                         *)
(*    RetentionStamped   a stored event carries Timestamp = the day it was  *)
(*                       logged, RetentionDays = its category's retention   *)
(*                       (else the default) and ExpiresAt = Timestamp +     *)
(*                       RetentionDays days                                 *)
(*    TypeRetentionApplied  ... and the event type's retention, where the   *)
(*                       logger's retention manager has one.  The logger    *)
(*                       has no way to configure one (separate clause, see  *)
(*                       proposals/audit.json)                              *)
(* S3 "DeleteExpired removes events past their retention" / retentionLoop   *)
(*    "periodically cleans up expired events", "Run daily":                 *)
(*    OnlyExpired        DeleteExpired / the daily clean-up never removes   *)
(*                       an event whose ExpiresAt is not in the past (or    *)
(*                       that has none)                                     *)
(*    ExpiredRemoved     after DeleteExpired / a daily clean-up no event    *)
(*                       whose ExpiresAt is in the past is left (unless a   *)
(*                       legal hold protects it)                            *)
(*    ExpiredCount       DeleteExpired returns the number of events in the  *)
(*                       store whose ExpiresAt was in the past              *)
(* S4 "Legal hold - events matching these criteria are never deleted" /     *)
(*    "LegalHold represents a legal hold that prevents deletion" /          *)
(*    "Matching criteria (all that are set must match)" / IsUnderLegalHold: *)
(*    "Check if hold is expired" / "GetLegalHolds returns all active legal  *)
(*    holds" / "RemoveLegalHold removes a legal hold by ID" /               *)
(*    "CleanupExpiredHolds removes expired legal holds":                    *)
(*    HoldMatch          IsUnderLegalHold answers true for an event that a  *)
(*                       registered hold, not expired, matches in every     *)
(*                       criterion it sets                                  *)
(*    HoldExact          ... and false otherwise: a hold stops protecting   *)
(*                       when it expires or is removed, and never protects  *)
(*                       an event it does not match                         *)
(*    HoldsListed        GetLegalHolds = the registered holds that have not *)
(*                       expired                                            *)
(*    HoldRemove         RemoveLegalHold answers true iff a hold with that  *)
(*                       id is registered                                   *)
(*    HoldCleanup        CleanupExpiredHolds returns the number of          *)
(*                       registered holds that have expired                 *)
(*    HoldProtects       the logger's daily clean-up never removes an event *)
(*                       that is under an active legal hold of the logger's *)
(*                       retention manager                                  *)
(* S5 "Query retrieves events matching criteria" / "Sort by timestamp       *)
(*    (descending by default)" / "Apply offset and limit":                  *)
(*    QuerySound         every event returned is stored and matches every   *)
(*                       filter that is set; none is returned twice         *)
(*    QueryPage          the number returned is min(limit (0: no limit),    *)
(*                       max(0, matching - offset))                         *)
(*    QueryOrder         the timestamps returned are those at positions     *)
(*                       offset+1.. of the matching events sorted by        *)
(*                       timestamp, descending unless Ascending (which of   *)
(*                       several events with one timestamp is open)         *)
(* S6 "GetBySubscriber returns all events for a subscriber" (GetBySession,  *)
(*    GetByType alike) / "Delete removes events by ID" / "Store persists    *)
(*    an event":                                                            *)
(*    IndexAgree         GetBySubscriber / GetBySession / GetByType return  *)
(*                       exactly the stored events (full scan) with that    *)
(*                       attribute, each once                               *)
(*                       ("restore" = Store of an id that is already        *)
(*                       stored - the store is a map keyed by id, the       *)
(*                       logger keeps an id the caller set: afterwards      *)
(*                       there is still exactly one event with that id;     *)
(*                       only in the systems named store-dup, see           *)
(*                       proposals/audit.json)                              *)
(*    DeleteEffective    after Delete none of the ids is stored             *)
(*    Retained           no call loses an event it was not asked to remove  *)
(* S7 "Count returns the number of stored events" / "Stats returns storage  *)
(*    statistics" / LoggerStats (EventsLogged, EventsExported,              *)
(*    EventsDropped, EventsExpired, StorageErrors, ExportErrors):           *)
(*    CountTrue          Count and Stats.TotalEvents = the number of stored *)
(*                       events; Subscribers / Sessions / EventTypes are    *)
(*                       never less than the distinct values among them     *)
(*    LoggerStatsTrue    EventsLogged moves by the number of events that    *)
(*                       entered the storage, EventsExpired by the number   *)
(*                       the clean-up removed, ExportErrors by the number   *)
(*                       of exporter calls that failed, StorageErrors not   *)
(*                       at all (the memory store never fails)              *)
(*    ExportedCounted    EventsExported grows when, and only when, an       *)
(*                       exporter took events without error (by at most the *)
(*                       number of events taken, summed over exporters)     *)
(*                                                                         *)
(* A call that panics is reported by the driver (clause Panic).             *)
(* Unconstrained: the instant ExpiresAt = now (the harness never produces   *)
(* it, except for the logger's own SYSTEM_START event, where either answer  *)
(* is accepted), whether a flush happens before it is due, order of events  *)
(* with equal timestamps, OrderBy (ignored by the code), LogEvent after     *)
(* Stop, Stop without Start, retention of zero days, exporters that block.  *)
(***************************************************************************)
EXTENDS Integers, FiniteSets, Sequences, TLC

Range(s)   == {s[i] : i \in 1..Len(s)}
Max2(a, b) == IF a > b THEN a ELSE b
Min2(a, b) == IF a < b THEN a ELSE b
NoDup(s)   == Cardinality(Range(s)) = Len(s)
PrefixOf(s, t) == Len(s) <= Len(t) /\ \A i \in 1..Len(s) : s[i] = t[i]
Drop(s, n) == IF n >= Len(s) THEN <<>> ELSE SubSeq(s, n + 1, Len(s))

\* ---- configuration -------------------------------------------------------------------------------
\* cfg.kind = "store": slots[i] = [ty, cat, sev, sub, sess, ip, mac, isp, ts, hasexp, exp] (days relative to T0),
\*                     queries[j] = [has0, t0, has1, t1 (half days, odd), types, cats, sub, sess, ip, mac, isp, minsev, limit, offset, asc]
\* cfg.kind = "ret":   defret, catret (-1: not configured), tcat (type -> category), holds[h] = [subs, sess, types, ips, macs, has0, t0, has1, t1, life], slots
\* cfg.kind = "log":   sync, buf, minsev, enabled, defret, catret, tmpl[t] = [ty, cat, sev, sub, sess], tstart, tstop, nx, maxlog, maxday, holds, ntype

\* ---- ghost ---------------------------------------------------------------------------------------
\* store: tab = slots stored, day (capped at cfg.maxday: afterwards nothing depends on it)
\* ret:   cat / typ = configured retention (-1 none), holds[h] = -2 not registered | -1 registered, never expires | k >= 0 days left (0: expired)
\* log:   n = numbers handed out (one per LogEvent call: log, Start, Stop), ev[k] = [t, st, left, d, r, rc, eq]
\*          st: "none" (filtered, dropped or not yet logged) | "pend" | "stored" | "gone"
\*          left: the event is past its expiry at the clean-up of the next day change iff left <= 0
\*          d: day logged, r: retention the documentation gives it, rc: the same without event-type retention, eq: expiry falls on a clean-up instant
\*        pend = accepted events not yet in the storage, in order; px[x] = accepted events exporter x has not been handed yet
NoEv == [t |-> 0, st |-> "none", left |-> 0, d |-> 0, r |-> 0, rc |-> 0, eq |-> FALSE]
MaxN(cfg) == cfg.maxlog + 2

G0(cfg) ==
  CASE cfg.kind = "store" -> [tab |-> {}, day |-> 0]
    [] cfg.kind = "ret" -> [cat |-> [c \in 1..cfg.ncat |-> cfg.catret[c]], typ |-> [t \in 1..cfg.ntype |-> -1],
                            holds |-> [h \in 1..Len(cfg.holds) |-> -2]]
    [] OTHER -> [n |-> 0, started |-> FALSE, stopped |-> FALSE, ev |-> [k \in 1..MaxN(cfg) |-> NoEv], pend |-> <<>>,
                 px |-> [x \in 1..cfg.nx |-> <<>>], typ |-> [t \in 1..cfg.ntype |-> -1], holds |-> [h \in 1..Len(cfg.holds) |-> -2], day |-> 0]

\* ---- S5: queries ---------------------------------------------------------------------------------
Matches(s, q) ==
  /\ (q.has0 => 2 * s.ts >= q.t0)
  /\ (q.has1 => 2 * s.ts <= q.t1)
  /\ (q.types # <<>> => s.ty \in Range(q.types))
  /\ (q.cats # <<>> => s.cat \in Range(q.cats))
  /\ (q.sub # 0 => s.sub = q.sub)
  /\ (q.sess # 0 => s.sess = q.sess)
  /\ (q.ip # 0 => s.ip = q.ip)
  /\ (q.mac # 0 => s.mac = q.mac)
  /\ (q.isp # 0 => s.isp = q.isp)
  /\ s.sev >= q.minsev

QueryClauses(cfg, g, e) ==
  LET q     == cfg.queries[e.j]
      M     == {i \in g.tab : Matches(cfg.slots[i], q)}
      off   == Max2(q.offset, 0)
      avail == Max2(Cardinality(M) - off, 0)
      want  == IF q.limit > 0 THEN Min2(q.limit, avail) ELSE avail
      Ts(i) == cfg.slots[i].ts
      \* position p (1-based) of the matching events sorted by timestamp may carry timestamp v
      AscOk(p, v)  == Cardinality({m \in M : Ts(m) < v}) < p /\ p <= Cardinality({m \in M : Ts(m) <= v})
      DescOk(p, v) == Cardinality({m \in M : Ts(m) > v}) < p /\ p <= Cardinality({m \in M : Ts(m) >= v})
      sound == NoDup(e.res) /\ \A k \in 1..Len(e.res) : e.res[k] \in M
  IN   (IF e.err \/ ~sound THEN {"QuerySound"} ELSE {})
  \cup (IF Len(e.res) # want THEN {"QueryPage"} ELSE {})
  \cup (IF sound /\ \E k \in 1..Len(e.res) : ~(IF q.asc THEN AscOk(off + k, Ts(e.res[k])) ELSE DescOk(off + k, Ts(e.res[k])))
          THEN {"QueryOrder"} ELSE {})

\* ---- S3: expiry (store) --------------------------------------------------------------------------
\* the harness acts at noon, expiries are at midnight: ExpiresAt is in the past iff exp <= day
PastExpiry(cfg, i, day) == cfg.slots[i].hasexp /\ cfg.slots[i].exp <= day

StoreEdgeClauses(cfg, g, e) ==
  CASE e.op = "q" -> QueryClauses(cfg, g, e)
    [] e.op = "delx" -> IF e.err \/ e.n # Cardinality({i \in g.tab : PastExpiry(cfg, i, g.day)}) THEN {"ExpiredCount"} ELSE {}
    [] e.op \in {"store", "restore", "batch", "del"} -> IF e.op \in {"store", "restore"} /\ e.skip THEN {} ELSE IF e.err THEN {"StoredOnce"} ELSE {}
    [] OTHER -> {}

StoreStep(cfg, g, e) ==
  CASE e.op = "store" -> IF e.skip THEN g ELSE [g EXCEPT !.tab = @ \cup {e.i}]
    [] e.op = "batch" -> [g EXCEPT !.tab = @ \cup Range(e.done)]
    [] e.op = "del" -> [g EXCEPT !.tab = @ \ Range(e.is)]
    [] e.op = "delx" -> [g EXCEPT !.tab = {i \in @ : ~PastExpiry(cfg, i, g.day)}]
    [] e.op = "adv" -> [g EXCEPT !.day = Min2(@ + 1, cfg.maxday)]
    [] OTHER -> g

\* n = [scan, tscan, count, total, nsub, nsess, ntype, bysub, bysess, bytype]
StoreNodeClauses(cfg, g, n, lastop) ==
  LET S       == Range(n.scan)
      extra   == S \ g.tab
      missing == g.tab \ S
      Attr(f(_), v) == {i \in S : i # 0 /\ f(cfg.slots[i]) = v}
      IdxOk(idx, f(_), v) == Range(idx) = Attr(f, v) /\ NoDup(idx)
      Sub(s) == s.sub   Sess(s) == s.sess   Ty(s) == s.ty
      Vals(f(_)) == {f(cfg.slots[i]) : i \in S \ {0}} \ {0}
  IN   (IF extra # {} THEN {CASE lastop = "del" -> "DeleteEffective" [] lastop = "delx" -> "ExpiredRemoved" [] OTHER -> "StoredOnce"} ELSE {})
  \cup (IF missing # {} THEN {CASE lastop = "delx" -> "OnlyExpired" [] lastop \in {"store", "batch"} -> "StoredOnce" [] OTHER -> "Retained"} ELSE {})
  \cup (IF ~NoDup(n.scan) \/ n.tscan # n.scan THEN {"StoredOnce"} ELSE {})
  \cup (IF \/ \E s \in 1..cfg.nsub : ~IdxOk(n.bysub[s], Sub, s)
           \/ \E s \in 1..cfg.nsess : ~IdxOk(n.bysess[s], Sess, s)
           \/ \E t \in 1..cfg.nty : ~IdxOk(n.bytype[t], Ty, t) THEN {"IndexAgree"} ELSE {})
  \cup (IF \/ n.count # Cardinality(S) \/ n.total # Cardinality(S)
           \/ n.nsub < Cardinality(Vals(Sub)) \/ n.nsess < Cardinality(Vals(Sess)) \/ n.ntype < Cardinality(Vals(Ty))
        THEN {"CountTrue"} ELSE {})

\* ---- S2, S4: retention manager -------------------------------------------------------------------
HoldMatches(hd, s) ==
  /\ (hd.has0 => 2 * s.ts >= hd.t0)
  /\ (hd.has1 => 2 * s.ts <= hd.t1)
  /\ (hd.subs # <<>> => s.sub \in Range(hd.subs))
  /\ (hd.sess # <<>> => s.sess \in Range(hd.sess))
  /\ (hd.types # <<>> => s.ty \in Range(hd.types))
  /\ (hd.ips # <<>> => s.ip \in Range(hd.ips))
  /\ (hd.macs # <<>> => s.mac \in Range(hd.macs))

Registered(g, h) == g.holds[h] # -2
Active(g, h)     == g.holds[h] = -1 \/ g.holds[h] > 0
Want(cfg, cat, typ, t) ==
  IF typ[t] # -1 THEN typ[t] ELSE IF cat[cfg.tcat[t]] # -1 THEN cat[cfg.tcat[t]] ELSE cfg.defret

RetEdgeClauses(cfg, g, e) ==
  CASE e.op = "ret" -> IF e.r # Want(cfg, g.cat, g.typ, e.t) THEN {"MostSpecific"} ELSE {}
    [] e.op = "retc" -> IF e.r # (IF g.cat[e.c] # -1 THEN g.cat[e.c] ELSE cfg.defret) THEN {"MostSpecific"} ELSE {}
    [] e.op = "unhold" -> IF e.ok # Registered(g, e.h) THEN {"HoldRemove"} ELSE {}
    [] e.op = "cleanup" -> IF e.n # Cardinality({h \in DOMAIN g.holds : g.holds[h] = 0}) THEN {"HoldCleanup"} ELSE {}
    [] e.op = "held" -> LET must == \E h \in DOMAIN g.holds : Active(g, h) /\ HoldMatches(cfg.holds[h], cfg.slots[e.i])
                        IN IF must /\ ~e.r THEN {"HoldMatch"} ELSE IF ~must /\ e.r THEN {"HoldExact"} ELSE {}
    [] OTHER -> {}

AgeHolds(holds) == [h \in DOMAIN holds |-> IF holds[h] > 0 THEN holds[h] - 1 ELSE holds[h]]

RetStep(cfg, g, e) ==
  CASE e.op = "setcat" -> [g EXCEPT !.cat[e.c] = e.d]
    [] e.op = "settype" -> [g EXCEPT !.typ[e.t] = e.d]
    [] e.op = "hold" -> IF e.skip THEN g ELSE [g EXCEPT !.holds[e.h] = IF cfg.holds[e.h].life = 0 THEN -1 ELSE cfg.holds[e.h].life]
    [] e.op = "unhold" -> [g EXCEPT !.holds[e.h] = -2]
    [] e.op = "cleanup" -> [g EXCEPT !.holds = [h \in DOMAIN @ |-> IF @[h] = 0 THEN -2 ELSE @[h]]]
    [] e.op = "adv" -> [g EXCEPT !.holds = AgeHolds(@)]
    [] OTHER -> g

\* n = [active, pdef, pcat, ptyp]
RetNodeClauses(cfg, g, n, lastop) ==
       (IF Range(n.active) # {h \in DOMAIN g.holds : Active(g, h)} \/ ~NoDup(n.active) THEN {"HoldsListed"} ELSE {})
  \cup (IF n.pdef # cfg.defret \/ (\E c \in 1..cfg.ncat : n.pcat[c] # g.cat[c]) \/ (\E t \in 1..cfg.ntype : n.ptyp[t] # g.typ[t]) THEN {"MostSpecific"} ELSE {})

\* ---- S1 - S4, S7: the logger ---------------------------------------------------------------------
Accept(cfg, t) == cfg.tmpl[t].sev >= cfg.minsev /\ (cfg.enabled = <<>> \/ cfg.tmpl[t].cat \in Range(cfg.enabled))

Logs(e)      == e.op \in {"log", "start", "stop"} /\ ~e.skip
TmplOf(cfg, e) == IF e.op = "start" THEN cfg.tstart ELSE IF e.op = "stop" THEN cfg.tstop ELSE e.t
\* the buffer is full: before Start nothing takes events out of it (afterwards the harness lets the logger's goroutine empty it after every call)
Full(cfg, g) == ~cfg.sync /\ ~g.started /\ Len(g.pend) >= cfg.buf
Added(cfg, g, e) == IF Logs(e) /\ g.n < MaxN(cfg) /\ Accept(cfg, TmplOf(cfg, e)) /\ ~Full(cfg, g) THEN <<g.n + 1>> ELSE <<>>
Ticks(g, e)  == e.op = "adv" /\ ~e.skip /\ g.started /\ ~g.stopped
\* everything accepted so far must be in the storage and with every exporter when the step is over
MustFlush(cfg, g, e) == cfg.sync \/ (e.op = "stop" /\ ~e.skip) \/ Ticks(g, e)

\* a hold that is active at the clean-up of the coming day change (it expires six hours before the harness' slot of its last day)
ActiveAtTick(g, h) == g.holds[h] = -1 \/ g.holds[h] > 1
HeldAtTick(cfg, g, k) == \E h \in DOMAIN g.holds : ActiveAtTick(g, h) /\ cfg.tmpl[g.ev[k].t].sub \in Range(cfg.holds[h].subs)
StoredNow(g) == {k \in DOMAIN g.ev : g.ev[k].st = "stored"}

KnownNum(cfg, g, e, k) == k \in 1..MaxN(cfg) /\ (k <= g.n \/ (Logs(e) /\ k = g.n + 1))
\* the event with number k was refused by the filters
Refused(cfg, g, e, k) == KnownNum(cfg, g, e, k) /\ LET t == IF k <= g.n THEN g.ev[k].t ELSE TmplOf(cfg, e) IN t # 0 /\ ~Accept(cfg, t)

LogEdgeClauses(cfg, g, e) ==
  IF e.skip THEN {} ELSE
  LET add   == Added(cfg, g, e)
      PS    == g.pend \o add
      PX(x) == g.px[x] \o add
      must  == MustFlush(cfg, g, e)
      alien == (Range(e.sd) \ Range(PS)) \cup UNION {Range(e.xd[x]) \ Range(PX(x)) : x \in 1..cfg.nx}
      \* Start runs a first clean-up one minute later (same day: an event is past its expiry then iff left < 0)
      th    == IF e.op = "start" THEN -1 ELSE 0
      R     == {k \in StoredNow(g) : g.ev[k].left <= th}
      May   == {k \in StoredNow(g) : g.ev[k].left <= th \/ (g.ev[k].eq /\ g.ev[k].left = th + 1)}
      P     == {k \in May : HeldAtTick(cfg, g, k)}
      G     == Range(e.gone)
  IN   (IF e.op = "log" /\ e.n # g.n + 1 THEN {"UniqueId"} ELSE {})
  \cup (IF \E k \in alien : Refused(cfg, g, e, k) THEN {"Filtered"} ELSE {})
  \cup (IF (\E k \in Range(e.sd) \ Range(PS) : ~Refused(cfg, g, e, k))
           \/ ~NoDup(e.sd) \/ (must /\ Range(PS) \ Range(e.sd) # {}) THEN {"StoredOnce"} ELSE {})
  \cup (IF \E x \in 1..cfg.nx : ((\E k \in Range(e.xd[x]) \ Range(PX(x)) : ~Refused(cfg, g, e, k))
                                 \/ (Range(e.xd[x]) \subseteq Range(PX(x)) /\ ~PrefixOf(e.xd[x], PX(x)))
                                 \/ (must /\ Len(e.xd[x]) < Len(PX(x)))) THEN {"ExportedOnceInOrder"} ELSE {})
  \cup (IF e.dd # (IF Logs(e) /\ Accept(cfg, TmplOf(cfg, e)) /\ Full(cfg, g) THEN 1 ELSE 0) THEN {"DropCounted"} ELSE {})
  \cup (IF \E x \in 1..cfg.nx : e.xc[x] # (IF e.op = "stop" THEN 1 ELSE 0) THEN {"ClosedOnStop"} ELSE {})
  \cup (IF Ticks(g, e) \/ e.op = "start" THEN
             (IF G \ May # {} THEN {"OnlyExpired"} ELSE {})
        \cup (IF G \cap P # {} THEN {"HoldProtects"} ELSE {})
        \cup (IF (R \ P) \ G # {} THEN {"ExpiredRemoved"} ELSE {})
        ELSE IF G # {} THEN {"Retained"} ELSE {})
  \cup (IF e.dl # Len(e.sd) \/ e.de # Len(e.gone) \/ e.dse # 0 \/ e.dxe # e.xf THEN {"LoggerStatsTrue"} ELSE {})
  \cup (IF (e.xok = 0 /\ e.dx # 0) \/ (e.xok > 0 /\ (e.dx <= 0 \/ e.dx > e.xok)) THEN {"ExportedCounted"} ELSE {})

LogStep(cfg, g, e) ==
  IF e.skip THEN g ELSE
  LET add  == Added(cfg, g, e)
      k    == g.n + 1
      t    == TmplOf(cfg, e)
      r    == Want(cfg, [c \in 1..cfg.ncat |-> cfg.catret[c]], g.typ, cfg.tmpl[t].ty)
      rc   == Want(cfg, [c \in 1..cfg.ncat |-> cfg.catret[c]], [y \in 1..cfg.ntype |-> -1], cfg.tmpl[t].ty)
      \* before Start the harness acts 20 minutes before the instant of the later daily clean-ups, afterwards 20 minutes after it;
      \* Start itself logs at that very instant
      newev == [t |-> t, st |-> IF add = <<>> THEN "none" ELSE "pend", left |-> IF e.op = "log" /\ ~g.started THEN r - 1 ELSE r,
                d |-> g.day, r |-> r, rc |-> rc, eq |-> e.op = "start"]
      ev1  == IF Logs(e) /\ k <= MaxN(cfg) THEN [g.ev EXCEPT ![k] = newev] ELSE g.ev
      PS   == g.pend \o add
      ev2  == [j \in DOMAIN ev1 |-> IF j \in Range(e.sd) THEN [ev1[j] EXCEPT !.st = "stored"]
                                     ELSE IF j \in Range(e.gone) THEN [ev1[j] EXCEPT !.st = "gone"] ELSE ev1[j]]
      aged == e.op = "adv"
      ev3  == [j \in DOMAIN ev2 |-> IF aged /\ ev2[j].st \in {"pend", "stored"} THEN [ev2[j] EXCEPT !.left = Max2(@ - 1, -1)] ELSE ev2[j]]
  IN [g EXCEPT !.n = IF Logs(e) THEN Min2(k, MaxN(cfg)) ELSE @,
               !.started = @ \/ e.op = "start",
               !.stopped = @ \/ e.op = "stop",
               !.ev = ev3,
               !.pend = SelectSeq(PS, LAMBDA j : j \notin Range(e.sd)),
               !.px = [x \in 1..cfg.nx |-> IF PrefixOf(e.xd[x], g.px[x] \o add) THEN Drop(g.px[x] \o add, Len(e.xd[x])) ELSE <<>>],
               !.typ = IF e.op = "settype" THEN [@ EXCEPT ![e.t] = e.d] ELSE @,
               !.holds = IF e.op = "hold" THEN [@ EXCEPT ![e.h] = IF cfg.holds[e.h].life = 0 THEN -1 ELSE cfg.holds[e.h].life]
                         ELSE IF aged THEN AgeHolds(@) ELSE @,
               !.day = IF aged THEN @ + 1 ELSE @]

\* n = [tab: sequence of [n, ret, expd, tsd] sorted by n, count]
LogNodeClauses(cfg, g, n, lastop) ==
  LET nums == [i \in 1..Len(n.tab) |-> n.tab[i].n]
      Bad(x) == x.n \in 1..MaxN(cfg) /\ g.ev[x.n].t # 0 /\ ~(x.ret = g.ev[x.n].r /\ x.expd = g.ev[x.n].r /\ x.tsd = g.ev[x.n].d)
      OnlyType(x) == x.ret = g.ev[x.n].rc /\ x.expd = g.ev[x.n].rc /\ x.tsd = g.ev[x.n].d
  IN   (IF ~NoDup(nums) \/ Range(nums) # StoredNow(g) \/ n.count # Cardinality(StoredNow(g)) THEN {"StoredOnce"} ELSE {})
  \cup (IF \E i \in 1..Len(n.tab) : Bad(n.tab[i]) /\ ~OnlyType(n.tab[i]) THEN {"RetentionStamped"} ELSE {})
  \cup (IF \E i \in 1..Len(n.tab) : Bad(n.tab[i]) /\ OnlyType(n.tab[i]) THEN {"TypeRetentionApplied"} ELSE {})

\* ---- the contract --------------------------------------------------------------------------------
EdgeClauses(cfg, g, e) ==
  CASE cfg.kind = "store" -> StoreEdgeClauses(cfg, g, e)
    [] cfg.kind = "ret" -> RetEdgeClauses(cfg, g, e)
    [] OTHER -> LogEdgeClauses(cfg, g, e)

Step(cfg, g, e, obs) ==
  CASE cfg.kind = "store" -> StoreStep(cfg, g, e)
    [] cfg.kind = "ret" -> RetStep(cfg, g, e)
    [] OTHER -> LogStep(cfg, g, e)

NodeClauses(cfg, g, n, lastop) ==
  CASE cfg.kind = "store" -> StoreNodeClauses(cfg, g, n, lastop)
    [] cfg.kind = "ret" -> RetNodeClauses(cfg, g, n, lastop)
    [] OTHER -> LogNodeClauses(cfg, g, n, lastop)

\* clauses whose violation does not end a walk (the monitor goes on judging the rest of the history)
Soft == {"ExportedCounted"}
=============================================================================
