SPECIFICATION Spec
CONSTANTS Fixed = TRUE  SyncModes = {TRUE, FALSE}  MaxLen = 6  MaxLenSync = 6
INVARIANTS Clean GhostTracks
VIEW View
CHECK_DEADLOCK FALSE
