SPECIFICATION Spec
CONSTANTS Fixed = TRUE  SyncModes = {TRUE, FALSE}  MaxLen = 10  MaxLenSync = 10
INVARIANTS Clean GhostTracks
VIEW View
CHECK_DEADLOCK FALSE
