SPECIFICATION Spec
CONSTANTS Modes = {"store", "hold"}  MaxStore = 5  MaxHold = 7  MaxSync = 0  MaxAsync = 0
INVARIANTS Agree GhostTracks
VIEW View
CHECK_DEADLOCK FALSE
