SPECIFICATION Spec
CONSTANTS Modes = {"store", "hold", "logsync", "logasync"}  MaxStore = 3  MaxHold = 4  MaxSync = 3  MaxAsync = 3
INVARIANTS Agree GhostTracks
VIEW View
CHECK_DEADLOCK FALSE
