---------------------------- MODULE AuditDesign ----------------------------
(***************************************************************************)
(* U1: the contract (Audit.tla) is itself model-checked.  The contract      *)
(* judges one observed step at a time with a small ghost (the set of stored *)
(* slots and a capped day; per legal hold the days it has left; per logged  *)
(* event a saturating count-down to the clean-up that may remove it).  Here *)
(* an arbitrary environment produces EVERY possible step over a small       *)
(* universe (any query result, any count, any set of events that entered or *)
(* left the storage, any sequence handed to the exporter, any answer about  *)
(* a hold - accepted or not by the contract) and the contract's verdict is  *)
(* compared, step by step, with the guarantees stated directly over the     *)
(* history kept in absolute terms (absolute days / minutes, no count-downs, *)
(* no caps):                                                                *)
(*                                                                         *)
(* Mode "store"  H = the slots stored, today = the absolute day.            *)
(*   - a query result is right iff it is the page [offset, offset+limit) of *)
(*     SOME arrangement of the matching stored events that is sorted by     *)
(*     timestamp (two slots share a timestamp: ties)                        *)
(*   - DeleteExpired: the count is the number of stored events whose        *)
(*     ExpiresAt (midnight of day exp) lies before now (noon of today), and *)
(*     exactly those are gone afterwards; Delete / Store alike              *)
(* Mode "hold"   per hold the absolute day it was registered on.            *)
(*   - IsUnderLegalHold is right iff it says whether a registered hold      *)
(*     whose expiry (registration + life days - 6 h) lies after now matches *)
(*   - GetLegalHolds, RemoveLegalHold, CleanupExpiredHolds alike            *)
(* Modes "logsync" / "logasync"   per LogEvent call its absolute minute and *)
(*   whether it was accepted; the minute of Start; what has entered the     *)
(*   storage so far, what the exporter was handed so far.                   *)
(*   - storage and exporter are right iff only accepted events enter, each  *)
(*     once, the exporter's whole history is a prefix of the sequence of    *)
(*     accepted events, and at a deadline (return of LogEvent with          *)
(*     SyncWrites, a day change while running, Stop) nothing is missing     *)
(*   - a drop is right iff the event passes the filters and BufferSize      *)
(*     accepted events wait in a logger that has not been started           *)
(*   - the clean-up (daily at the minute of Start, and one minute after     *)
(*     Start) is right iff it removes no event whose ExpiresAt (minute of   *)
(*     logging + retention days) is not before that instant, none under a   *)
(*     hold whose expiry is after it, and every other stored event whose    *)
(*     ExpiresAt is before it; nothing disappears otherwise                 *)
(*                                                                         *)
(* Invariant Agree: the contract flags a step iff the direct statement is   *)
(* broken by it (neither weaker nor stronger), for as long as no earlier    *)
(* step was flagged.  GhostTracks: the ghost's relative quantities are      *)
(* those of the absolute history.                                           *)
(***************************************************************************)
EXTENDS Audit

CONSTANTS Modes, MaxStore, MaxHold, MaxSync, MaxAsync     \* the modes checked in one run and the number of steps per mode

S(ty, cat, sev, sub, sess, ts, hasexp, exp) ==
  [ty |-> ty, cat |-> cat, sev |-> sev, sub |-> sub, sess |-> sess, ip |-> sub, mac |-> 0, isp |-> 0, ts |-> ts, hasexp |-> hasexp, exp |-> exp]
BQ == [has0 |-> FALSE, t0 |-> 0, has1 |-> FALSE, t1 |-> 0, types |-> <<>>, cats |-> <<>>, sub |-> 0, sess |-> 0, ip |-> 0, mac |-> 0, isp |-> 0,
       minsev |-> 0, limit |-> 0, offset |-> 0, asc |-> FALSE]
BH == [subs |-> <<>>, sess |-> <<>>, types |-> <<>>, ips |-> <<>>, macs |-> <<>>, has0 |-> FALSE, t0 |-> 0, has1 |-> FALSE, t1 |-> 0, life |-> 0]

Slots3 == << S(1, 1, 1, 1, 1, 0, TRUE, 1), S(2, 1, 1, 1, 0, 0, TRUE, 2), S(3, 2, 3, 2, 1, 1, FALSE, 0) >>

StoreCfg == [impl |-> "design", kind |-> "store", slots |-> Slots3, nsub |-> 2, nsess |-> 1, nty |-> 3, ntype |-> 3, ncat |-> 2, maxday |-> 3,
             queries |-> << [BQ EXCEPT !.limit = 2], [BQ EXCEPT !.asc = TRUE, !.offset = 1],
                            [BQ EXCEPT !.sub = 1, !.has0 = TRUE, !.t0 = -1, !.limit = 1, !.offset = 1],
                            [BQ EXCEPT !.minsev = 1, !.has1 = TRUE, !.t1 = 1, !.cats = <<1>>, !.asc = TRUE] >>]

HoldCfg == [impl |-> "design", kind |-> "ret", slots |-> Slots3, defret |-> 9, ncat |-> 2, ntype |-> 3, tcat |-> <<1, 1, 2>>, catret |-> <<-1, -1>>,
            holds |-> << [BH EXCEPT !.subs = <<1>>, !.life = 2], [BH EXCEPT !.types = <<2, 3>>, !.has0 = TRUE, !.t0 = 1] , [BH EXCEPT !.sess = <<1>>, !.life = 1] >>]

LogCfg(sync) ==
  [impl |-> "design", kind |-> "log", sync |-> sync, buf |-> 1, minsev |-> 1, enabled |-> <<>>, defret |-> 2, ncat |-> 2, ntype |-> 3,
   tcat |-> <<1, 2, 2>>, catret |-> <<(IF sync THEN 1 ELSE 2), -1>>,
   tmpl |-> << [ty |-> 1, cat |-> 1, sev |-> 1, sub |-> 1, sess |-> 0], [ty |-> 2, cat |-> 2, sev |-> 0, sub |-> 2, sess |-> 0],
               [ty |-> 3, cat |-> 2, sev |-> 1, sub |-> 0, sess |-> 0] >>,
   tstart |-> 3, tstop |-> 3, nx |-> 1, maxlog |-> 2, maxday |-> 9, holds |-> << [BH EXCEPT !.subs = <<1>>, !.life = 2] >>]


VARIABLES mode,       \* "store" | "hold" | "logsync" | "logasync" (chosen initially, never changes)
          g, steps, flagged, agree,
          H,          \* store: slots stored | hold: hold -> <<>> or <<day registered>> | log: [calls, startAt, stopped, entered, handed, holdAt]
          today       \* absolute day
vars == <<mode, g, steps, flagged, agree, H, today>>
Mode == mode
Cfg == CASE mode = "store" -> StoreCfg [] mode = "hold" -> HoldCfg [] mode = "logsync" -> LogCfg(TRUE) [] OTHER -> LogCfg(FALSE)
MaxSteps == CASE mode = "store" -> MaxStore [] mode = "hold" -> MaxHold [] mode = "logsync" -> MaxSync [] OTHER -> MaxAsync

SeqOf(T) == LET RECURSIVE F(_) F(U) == IF U = {} THEN <<>> ELSE LET m == CHOOSE x \in U : \A y \in U : x <= y IN <<m>> \o F(U \ {m}) IN F(T)
SeqsUpTo(T, n) == UNION {[1..k -> T] : k \in 0..n}
Take(s, n) == IF n >= Len(s) THEN s ELSE SubSeq(s, 1, n)

\* =================================== store ========================================================
NS == Len(Slots3)
StoreNode(T) ==
  LET sq == SeqOf(T)
      By(f(_), v) == SeqOf({i \in T : f(Slots3[i]) = v})
      Sub(s) == s.sub  Sess(s) == s.sess  Ty(s) == s.ty
  IN [scan |-> sq, tscan |-> sq, count |-> Cardinality(T), total |-> Cardinality(T), nsub |-> 9, nsess |-> 9, ntype |-> 9,
      bysub |-> [s \in 1..2 |-> By(Sub, s)], bysess |-> [s \in 1..1 |-> By(Sess, s)], bytype |-> [t \in 1..3 |-> By(Ty, t)]]

StoreEdges ==
       {[op |-> "store", i |-> i, skip |-> i \in H, err |-> FALSE] : i \in 1..NS}
  \cup {[op |-> "del", is |-> d, err |-> FALSE] : d \in {<<1>>, <<2, 3>>, <<3, 3>>}}
  \cup {[op |-> "delx", n |-> n, err |-> FALSE] : n \in 0..NS}
  \cup {[op |-> "adv"]}
  \cup {[op |-> "q", j |-> j, res |-> r, err |-> FALSE] : j \in 1..Len(StoreCfg.queries), r \in SeqsUpTo(0..NS, 3)}

\* ExpiresAt = midnight of day exp, now = noon of today (hours)
PastAbs(i) == Slots3[i].hasexp /\ 24 * Slots3[i].exp < 24 * today + 12

SortedArr(M, asc) ==
  {p \in [1..Cardinality(M) -> M] :
     /\ \A a, b \in DOMAIN p : a # b => p[a] # p[b]
     /\ \A a, b \in DOMAIN p : a < b => IF asc THEN Slots3[p[a]].ts <= Slots3[p[b]].ts ELSE Slots3[p[a]].ts >= Slots3[p[b]].ts}

StoreAfter(e) ==
  CASE e.op = "store" -> H \cup {e.i}
    [] e.op = "del" -> H \ Range(e.is)
    [] e.op = "delx" -> {i \in H : ~PastAbs(i)}
    [] OTHER -> H

StoreDirect(e, T) ==      \* T = what a full scan shows afterwards
  /\ T = StoreAfter(e)
  /\ e.op = "delx" => e.n = Cardinality({i \in H : PastAbs(i)})
  /\ e.op = "q" => LET q == StoreCfg.queries[e.j]
                       M == {i \in H : Matches(Slots3[i], q)}
                   IN \E p \in SortedArr(M, q.asc) :
                        e.res = (LET rest == Drop(p, q.offset) IN IF q.limit > 0 THEN Take(rest, q.limit) ELSE rest)

\* =================================== hold =========================================================
NH == Len(HoldCfg.holds)
HoldEdges ==
       {[op |-> "hold", h |-> h, skip |-> H[h] # <<>>] : h \in 1..NH}
  \cup {[op |-> "unhold", h |-> h, ok |-> b] : h \in 1..NH, b \in BOOLEAN}
  \cup {[op |-> "cleanup", n |-> n] : n \in 0..NH}
  \cup {[op |-> "adv"]}
  \cup {[op |-> "held", i |-> i, r |-> b] : i \in 1..NS, b \in BOOLEAN}

\* hours: registered at noon of day H[h][1], expires life days later minus six hours; now = noon of today
ExpiredAbs(h, day) == HoldCfg.holds[h].life # 0 /\ 24 * (H[h][1] + HoldCfg.holds[h].life) + 12 - 6 <= 24 * day + 12
ActiveAbs(h, day)  == H[h] # <<>> /\ ~ExpiredAbs(h, day)

HoldDirect(e, act) ==      \* act = what GetLegalHolds lists afterwards
  LET day2 == IF e.op = "adv" THEN today + 1 ELSE today
      reg2 == [h \in 1..NH |-> CASE e.op = "hold" /\ h = e.h /\ ~e.skip -> TRUE
                                 [] e.op = "unhold" /\ h = e.h -> FALSE
                                 [] e.op = "cleanup" /\ H[h] # <<>> /\ ExpiredAbs(h, today) -> FALSE
                                 [] OTHER -> H[h] # <<>>]
      regday(h) == IF e.op = "hold" /\ h = e.h /\ ~e.skip THEN today ELSE H[h][1]
      expired2(h) == HoldCfg.holds[h].life # 0 /\ 24 * (regday(h) + HoldCfg.holds[h].life) + 6 <= 24 * day2 + 12
  IN /\ act = {h \in 1..NH : reg2[h] /\ ~expired2(h)}
     /\ e.op = "unhold" => e.ok = (H[e.h] # <<>>)
     /\ e.op = "cleanup" => e.n = Cardinality({h \in 1..NH : H[h] # <<>> /\ ExpiredAbs(h, today)})
     /\ e.op = "held" => e.r = \E h \in 1..NH : ActiveAbs(h, today) /\ HoldMatches(HoldCfg.holds[h], Slots3[e.i])

HoldNode(act) == [active |-> SeqOf(act), pdef |-> 9, pcat |-> <<-1, -1>>, ptyp |-> <<-1, -1, -1>>]

\* =================================== log ==========================================================
LC == Cfg
NMax == MaxN(LC)
\* H.calls[k] = [t, at (absolute minute), acc]; H.startAt = minute of Start or -1; H.entered = numbers that have entered the storage;
\* H.inside = numbers in the storage now; H.handed = what the exporter has been handed; H.holdAt = minute the hold was registered or -1
LogH0 == [calls |-> <<>>, startAt |-> -1, stopped |-> FALSE, entered |-> {}, inside |-> {}, handed |-> <<>>, holdAt |-> -1]

Started == H.startAt >= 0
Slot == 1440 * today + (IF Started THEN 100 ELSE 60)        \* the minute the harness acts at
RetOf(t) == IF LC.catret[LC.tmpl[t].cat] # -1 THEN LC.catret[LC.tmpl[t].cat] ELSE LC.defret
AccSeq(calls) == SelectSeq([k \in 1..Len(calls) |-> k], LAMBDA k : calls[k].acc)

LogBase(op) == [op |-> op, skip |-> FALSE, n |-> 0, t |-> 0, h |-> 1, sd |-> <<>>, gone |-> <<>>, xd |-> << <<>> >>, xc |-> <<0>>, xf |-> 0, xok |-> 0,
                dl |-> 0, dx |-> 0, dd |-> 0, de |-> 0, dse |-> 0, dxe |-> 0]
Skip(op) == [LogBase(op) EXCEPT !.skip = TRUE]

\* what the harness' alphabet allows in the current situation (everything else is a skipped step)
CanLog   == ~H.stopped /\ Len(SelectSeq(H.calls, LAMBDA c : c.t # LC.tstart)) < LC.maxlog
CanAdv   == today < 3 /\ (LC.sync \/ Started)
\* The answer universe is factorised (the clauses about storage / clean-up / drops and those about the exporter are
\* independent): every (entered, left, dropped) combination with the exporter handed nothing or everything that is due,
\* and every exporter sequence of up to two known numbers with (nothing | everything due) entering and (nothing | everything
\* that must go) leaving.
CallsAfter(op, t) ==
  LET tt   == IF op = "log" THEN t ELSE LC.tstart
      at   == IF op = "start" THEN 1440 * today + 80 ELSE Slot
      full == ~LC.sync /\ ~Started /\ Cardinality(Range(AccSeq(H.calls)) \ H.entered) >= LC.buf
  IN IF op \in {"log", "start", "stop"} THEN Append(H.calls, [t |-> tt, at |-> at, acc |-> Accept(LC, tt) /\ ~full]) ELSE H.calls
MustGo(op) ==
  LET ticks == op = "adv" /\ Started /\ ~H.stopped
      T     == IF ticks THEN 1440 * (today + 1) + 80 ELSE 1440 * today + 81
  IN IF ticks \/ op = "start"
     THEN {k \in H.inside : /\ H.calls[k].at + 1440 * RetOf(H.calls[k].t) < T
                             /\ ~(H.holdAt >= 0 /\ H.holdAt + 1440 * LC.holds[1].life - 360 > T /\ LC.tmpl[H.calls[k].t].sub \in Range(LC.holds[1].subs))}
     ELSE {}
Answers(op, t) ==
  LET k     == Len(H.calls) + (IF op = "adv" THEN 0 ELSE 1)
      nums  == 1..k
      accN  == AccSeq(CallsAfter(op, t))
      dueS  == Range(accN) \ H.entered
      dueX  == Drop(accN, Len(H.handed))
      ddOk  == IF Len(CallsAfter(op, t)) > Len(H.calls) /\ Accept(LC, IF op = "log" THEN t ELSE LC.tstart) /\ ~accN # AccSeq(H.calls) THEN 1 ELSE 0
      Mk(sd, go, x, dd) == [LogBase(op) EXCEPT !.n = Len(H.calls) + 1, !.t = t, !.sd = SeqOf(sd), !.gone = SeqOf(go), !.xd = <<x>>, !.dd = dd,
                                                !.dl = Cardinality(sd), !.de = Cardinality(go), !.xok = Len(x), !.dx = Len(x),
                                                !.xc = <<IF op = "stop" THEN 1 ELSE 0>>]
  IN   {Mk(sd, go, x, dd) : sd \in SUBSET (nums \ H.inside), go \in SUBSET H.inside, x \in {<<>>, dueX}, dd \in (IF op = "adv" THEN {0} ELSE {0, 1})}
  \cup {Mk(sd, go, x, ddOk) : sd \in {{}, dueS}, go \in {{}, MustGo(op)}, x \in SeqsUpTo(nums, 2)}

LogEdges ==
       (IF CanLog THEN UNION {Answers("log", t) : t \in 1..2} ELSE {Skip("log")})
  \cup (IF ~Started THEN Answers("start", 0) ELSE {Skip("start")})
  \cup (IF Started /\ ~H.stopped THEN Answers("stop", 0) ELSE {Skip("stop")})
  \cup (IF CanAdv THEN Answers("adv", 0) ELSE {Skip("adv")})
  \cup (IF Started /\ ~H.stopped /\ H.holdAt < 0 THEN {[LogBase("hold") EXCEPT !.h = 1]} ELSE {[Skip("hold") EXCEPT !.h = 1]})

LogAfter(e) ==      \* the absolute history after the step (what was observed is recorded as observed)
  IF e.skip THEN H ELSE
  LET logs == e.op \in {"log", "start", "stop"}
      t    == IF e.op = "log" THEN e.t ELSE LC.tstart
      at   == IF e.op = "start" THEN 1440 * today + 80 ELSE Slot
      full == ~LC.sync /\ ~Started /\ Cardinality(Range(AccSeq(H.calls)) \ H.entered) >= LC.buf
      acc  == Accept(LC, t) /\ ~full
      calls2 == IF logs THEN Append(H.calls, [t |-> t, at |-> at, acc |-> acc]) ELSE H.calls
  IN [H EXCEPT !.calls = calls2,
               !.startAt = IF e.op = "start" THEN 1440 * today + 80 ELSE @,
               !.stopped = @ \/ e.op = "stop",
               !.entered = @ \cup Range(e.sd),
               !.inside = (@ \cup Range(e.sd)) \ Range(e.gone),
               !.handed = @ \o e.xd[1],
               !.holdAt = IF e.op = "hold" THEN Slot ELSE @]

LogDirect(e) ==
  IF e.skip THEN TRUE ELSE
  LET H2    == LogAfter(e)
      logs  == e.op \in {"log", "start", "stop"}
      t     == IF e.op = "log" THEN e.t ELSE LC.tstart
      full  == ~LC.sync /\ ~Started /\ Cardinality(Range(AccSeq(H.calls)) \ H.entered) >= LC.buf
      acc2  == AccSeq(H2.calls)
      ticks == e.op = "adv" /\ Started /\ ~H.stopped
      dead  == LC.sync \/ e.op = "stop" \/ ticks
      \* the clean-up instants of this step
      T     == IF ticks THEN 1440 * (today + 1) + 80 ELSE 1440 * today + 81
      cleans == ticks \/ e.op = "start"
      Exp(k)  == H.calls[k].at + 1440 * RetOf(H.calls[k].t)
      Held(k) == H.holdAt >= 0 /\ H.holdAt + 1440 * LC.holds[1].life - 360 > T /\ LC.tmpl[H.calls[k].t].sub \in Range(LC.holds[1].subs)
      G     == Range(e.gone)
  IN /\ Range(e.sd) \subseteq Range(acc2) \ H.entered
     /\ PrefixOf(H2.handed, acc2)
     /\ dead => (Range(acc2) \subseteq H2.entered /\ H2.handed = acc2)
     /\ e.dd = (IF logs /\ Accept(LC, t) /\ full THEN 1 ELSE 0)
     /\ IF cleans THEN /\ \A k \in G : Exp(k) <= T /\ ~Held(k)
                       /\ \A k \in H.inside : (Exp(k) < T /\ ~Held(k)) => k \in G
        ELSE G = {}

LogNode(H2) ==
  [tab |-> [i \in 1..Cardinality(H2.inside) |-> LET k == SeqOf(H2.inside)[i] IN
              IF k \in DOMAIN H2.calls
              THEN [n |-> k, ret |-> RetOf(H2.calls[k].t), expd |-> RetOf(H2.calls[k].t), tsd |-> H2.calls[k].at \div 1440]
              ELSE [n |-> k, ret |-> 0, expd |-> 0, tsd |-> 0]],
   count |-> Cardinality(H2.inside)]

\* =================================== the comparison ===============================================
Judged == {"StoredOnce", "DeleteEffective", "Retained", "OnlyExpired", "ExpiredRemoved", "ExpiredCount", "QuerySound", "QueryPage", "QueryOrder",
           "HoldMatch", "HoldExact", "HoldsListed", "HoldRemove", "HoldCleanup", "HoldProtects",
           "ExportedOnceInOrder", "Filtered", "DropCounted", "UniqueId", "IndexAgree", "CountTrue", "MostSpecific", "RetentionStamped",
           "TypeRetentionApplied", "ClosedOnStop", "LoggerStatsTrue", "ExportedCounted"}

Init == /\ mode \in Modes
        /\ g = G0(Cfg) /\ steps = 0 /\ flagged = FALSE /\ agree = TRUE /\ today = 0
        /\ H = CASE Mode = "store" -> {} [] Mode = "hold" -> [h \in 1..NH |-> <<>>] [] OTHER -> LogH0

Verdict(e, n) == (EdgeClauses(Cfg, g, e) \cup NodeClauses(Cfg, Step(Cfg, g, e, n), n, e.op)) \cap Judged

StoreNext ==
  \E e \in StoreEdges : \E T \in (IF e.op = "q" THEN {H, H \cup {1}, H \ {1}} ELSE SUBSET (1..NS)) :
     LET n == StoreNode(T)
         V == Verdict(e, n)
     IN /\ agree' = ((V = {}) <=> StoreDirect(e, T))
        /\ flagged' = (V # {})
        /\ g' = Step(Cfg, g, e, n)
        /\ H' = T
        /\ today' = IF e.op = "adv" THEN today + 1 ELSE today

HoldNext ==
  \E e \in HoldEdges, act \in SUBSET (1..NH) :
     LET n == HoldNode(act)
         V == Verdict(e, n)
     IN /\ agree' = ((V = {}) <=> HoldDirect(e, act))
        /\ flagged' = (V # {})
        /\ g' = Step(Cfg, g, e, n)
        /\ H' = [h \in 1..NH |-> CASE e.op = "hold" /\ h = e.h /\ ~e.skip -> <<today>>
                                   [] e.op = "unhold" /\ h = e.h -> <<>>
                                   [] e.op = "cleanup" /\ H[h] # <<>> /\ ExpiredAbs(h, today) -> <<>>
                                   [] OTHER -> H[h]]
        /\ today' = IF e.op = "adv" THEN today + 1 ELSE today

LogNext ==
  \E e \in LogEdges :
     LET H2 == LogAfter(e)
         n  == LogNode(H2)
         V  == Verdict(e, n)
     IN /\ agree' = ((V = {}) <=> LogDirect(e))
        /\ flagged' = (V # {})
        /\ g' = Step(Cfg, g, e, n)
        /\ H' = H2
        /\ today' = IF e.op = "adv" /\ ~e.skip THEN today + 1 ELSE today

Next == /\ ~flagged /\ agree /\ steps < MaxSteps
        /\ steps' = steps + 1
        /\ UNCHANGED mode
        /\ CASE Mode = "store" -> StoreNext [] Mode = "hold" -> HoldNext [] OTHER -> LogNext

Spec == Init /\ [][Next]_vars

Agree == agree

\* the ghost's relative quantities are those of the absolute history (while nothing was flagged)
GhostTracks ==
  flagged \/
  CASE Mode = "store" -> g.tab = H /\ g.day = Min2(today, StoreCfg.maxday)
    [] Mode = "hold" -> \A h \in 1..NH : /\ (g.holds[h] = -2) = (H[h] = <<>>)
                                        /\ (H[h] # <<>>) => (Active(g, h) = ActiveAbs(h, today))
    [] OTHER -> /\ g.n = Len(H.calls) /\ g.started = Started /\ g.stopped = H.stopped
                /\ StoredNow(g) = H.inside
                /\ Range(g.pend) = Range(AccSeq(H.calls)) \ H.entered

\* a flagged state is a dead end: all of them are one state for the search
View == IF flagged THEN <<mode, flagged, agree>> ELSE <<mode, g, flagged, agree, H, today>>
=============================================================================
