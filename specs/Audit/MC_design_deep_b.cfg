SPECIFICATION Spec
CONSTANTS Modes = {"logsync", "logasync"}  MaxStore = 0  MaxHold = 0  MaxSync = 6  MaxAsync = 5
INVARIANTS Agree GhostTracks
VIEW View
CHECK_DEADLOCK FALSE
