SPECIFICATION Spec
CONSTANTS Fixed = FALSE  SyncModes = {TRUE, FALSE}  MaxLen = 5  MaxLenSync = 3
INVARIANTS Report
VIEW View
CHECK_DEADLOCK FALSE
