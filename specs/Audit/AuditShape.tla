----------------------------- MODULE AuditShape -----------------------------
(***************************************************************************)
(* Implementation-shaped model of pkg/audit/logger.go + storage.go +        *)
(* retention.go: one operator per function / goroutine step of the code     *)
(*                                                                         *)
(*   PrepareEvent    id, Timestamp, RetentionDays / ExpiresAt               *)
(*   ShouldLog       MinSeverity / EnabledCategories                        *)
(*   LogEvent        prepare, filter, then storeAndExport (SyncWrites) or   *)
(*                   the non-blocking send into eventChan (else: dropped)   *)
(*   StoreAndExport  Store, Export to every exporter, EventsLogged++        *)
(*   ProcessEvents   the goroutine that moves eventChan into the buffer     *)
(*   Flush           StoreBatch, ExportBatch, EventsExported, EventsLogged  *)
(*   CleanupExpired  Storage.DeleteExpired (ExpiresAt before now),          *)
(*                   EventsExpired                                          *)
(*   Start / Stop    their own SYSTEM_START / SYSTEM_STOP events, the       *)
(*                   goroutines, the first clean-up one minute after Start, *)
(*                   the final flush, Close of the exporters                *)
(*   AddLegalHold / SetEventTypeRetention on the logger's RetentionManager  *)
(*                                                                         *)
(* composed into the steps of the harness' alphabet (start, log, adv = one  *)
(* day passes: the flush ticker and the daily retention ticker fire, stop,  *)
(* hold, settype); time is kept in absolute minutes.  The contract          *)
(* (Audit.tla) judges every step of the model exactly as it judges a step   *)
(* of the real code.                                                        *)
(*                                                                         *)
(* Fixed = FALSE is the code as found: PrepareEvent asks GetRetention(      *)
(* category), CleanupExpired never asks IsUnderLegalHold, StoreAndExport    *)
(* does not count EventsExported.  TLC reports every violating history      *)
(* (DESIGN-CEX lines); the driver executes the shortest per clause set on   *)
(* the real logger.  Fixed = TRUE is the design with the repairs proposed   *)
(* in proposals/audit.json: invariant Clean.                                *)
(***************************************************************************)
EXTENDS Audit, Json

CONSTANTS Fixed, SyncModes, MaxLen, MaxLenSync     \* SyncModes: the values of Config.SyncWrites checked in one run

VARIABLES sync,      \* Config.SyncWrites (chosen initially, never changes)
          m, g, today, hist, viol
vars == <<sync, m, g, today, hist, viol>>
Sync == sync

\* must describe the same configuration as SHAPE_CFG in lib/fam_audit.py (category / severity of the types as in pkg/audit/types.go)
NoHold == [subs |-> <<>>, sess |-> <<>>, types |-> <<>>, ips |-> <<>>, macs |-> <<>>, has0 |-> FALSE, t0 |-> 0, has1 |-> FALSE, t1 |-> 0, life |-> 0]
Cfg == [impl |-> IF Sync THEN "shape-sync" ELSE "shape", kind |-> "log", sync |-> Sync, buf |-> 2, minsev |-> 0, enabled |-> <<>>, defret |-> 1,
        ncat |-> 7, ntype |-> 10, tcat |-> <<1, 1, 2, 3, 4, 5, 5, 5, 6, 7>>, catret |-> <<-1, -1, -1, -1, -1, -1, -1>>,
        tmpl |-> << [ty |-> 1, cat |-> 1, sev |-> 1, sub |-> 1, sess |-> 1], [ty |-> 6, cat |-> 5, sev |-> 1, sub |-> 0, sess |-> 0],
                    [ty |-> 7, cat |-> 5, sev |-> 1, sub |-> 0, sess |-> 0] >>,
        tstart |-> 2, tstop |-> 3, nx |-> 1, maxlog |-> 2, maxday |-> 4,
        holds |-> << [NoHold EXCEPT !.subs = <<1>>, !.life = 3] >>, setdays |-> <<2>>, settys |-> <<1>>]

HoldOps == ~Sync
TypeOps == ~Sync

\* m: the logger, its storage and its retention manager
\*   calls[k] = [t, at, ret]  every LogEvent call: template, Timestamp (minute), RetentionDays stamped
\*   chan, buf   eventChan, l.buffer (numbers)         inside  the storage
\*   handed      what the exporter has been handed     closes  Close calls on the exporter
\*   st          LoggerStats                            hold    expiry minute of hold 1 (-1: none)   typ  eventTypeDays
M0 == [calls |-> <<>>, chan |-> <<>>, buf |-> <<>>, inside |-> {}, handed |-> <<>>, closes |-> 0,
       st |-> [logged |-> 0, exported |-> 0, dropped |-> 0, expired |-> 0],
       started |-> FALSE, stopped |-> FALSE, startAt |-> -1, hold |-> -1, typ |-> [t \in 1..10 |-> -1]]


Slot(mm, day) == 1440 * day + (IF mm.started THEN 100 ELSE 60)

\* ---- retention.go -------------------------------------------------------------------------------
GetRetention(cat) == IF Cfg.catret[cat] # -1 THEN Cfg.catret[cat] ELSE Cfg.defret
GetRetentionForEvent(mm, ty) == IF mm.typ[ty] # -1 THEN mm.typ[ty] ELSE GetRetention(Cfg.tcat[ty])
IsUnderLegalHold(mm, k, now) == mm.hold >= 0 /\ ~(mm.hold < now) /\ Cfg.tmpl[mm.calls[k].t].sub \in Range(Cfg.holds[1].subs)

\* ---- logger.go ----------------------------------------------------------------------------------
PrepareEvent(mm, t, at) ==
  [t |-> t, at |-> at, ret |-> IF Fixed THEN GetRetentionForEvent(mm, Cfg.tmpl[t].ty) ELSE GetRetention(Cfg.tmpl[t].cat)]

ShouldLog(t) == Cfg.tmpl[t].sev >= Cfg.minsev /\ (Cfg.enabled = <<>> \/ Cfg.tmpl[t].cat \in Range(Cfg.enabled))

StoreAndExport(mm, k) ==
  [mm EXCEPT !.inside = @ \cup {k}, !.handed = Append(@, k), !.st.logged = @ + 1,
             !.st.exported = IF Fixed THEN @ + 1 ELSE @]

LogEvent(mm, t, at) ==
  LET k  == Len(mm.calls) + 1
      m1 == [mm EXCEPT !.calls = Append(@, PrepareEvent(mm, t, at))]
  IN IF ~ShouldLog(t) THEN m1
     ELSE IF Cfg.sync THEN StoreAndExport(m1, k)
     ELSE IF Len(m1.chan) < Cfg.buf THEN [m1 EXCEPT !.chan = Append(@, k)]
     ELSE [m1 EXCEPT !.st.dropped = @ + 1]

ProcessEvents(mm) == IF mm.started /\ ~Cfg.sync THEN [mm EXCEPT !.buf = @ \o mm.chan, !.chan = <<>>] ELSE mm

Flush(mm) ==
  IF mm.buf = <<>> THEN mm
  ELSE [mm EXCEPT !.inside = @ \cup Range(mm.buf), !.handed = @ \o mm.buf, !.st.exported = @ + Len(mm.buf), !.st.logged = @ + Len(mm.buf), !.buf = <<>>]

\* storage.go DeleteExpired: ExpiresAt.Before(now); the repaired clean-up leaves held events alone
CleanupExpired(mm, now) ==
  LET exp == {k \in mm.inside : mm.calls[k].at + 1440 * mm.calls[k].ret < now /\ ~(Fixed /\ IsUnderLegalHold(mm, k, now))}
  IN [mm EXCEPT !.inside = @ \ exp, !.st.expired = @ + Cardinality(exp)]

\* ---- the harness' steps -------------------------------------------------------------------------
StartOp(mm, day) ==
  LET at == 1440 * day + 80
      m1 == LogEvent(mm, Cfg.tstart, at)
      m2 == ProcessEvents([m1 EXCEPT !.started = TRUE, !.startAt = at])
  IN CleanupExpired(m2, at + 1)

LogOp(mm, t, day) == ProcessEvents(LogEvent(mm, t, Slot(mm, day)))

\* one day: the flush ticker fires (two or three times, never at the instant of the retention ticker), the retention ticker once
AdvOp(mm, day) == IF mm.started /\ ~mm.stopped THEN CleanupExpired(Flush(mm), 1440 * (day + 1) + 80) ELSE mm

StopOp(mm, day) ==
  LET m1 == LogEvent(mm, Cfg.tstop, Slot(mm, day))
      m2 == Flush(ProcessEvents(m1))
  IN [m2 EXCEPT !.stopped = TRUE, !.closes = @ + 1]

HoldOp(mm, day) == [mm EXCEPT !.hold = Slot(mm, day) + 1440 * Cfg.holds[1].life - 360]
SetTypeOp(mm, t, d) == [mm EXCEPT !.typ[t] = d]

\* ---- what the harness would observe -------------------------------------------------------------
SeqOf(T) == LET RECURSIVE F(_) F(U) == IF U = {} THEN <<>> ELSE LET x == CHOOSE y \in U : \A z \in U : y <= z IN <<x>> \o F(U \ {x}) IN F(T)

Edge(ev, m1, m2) ==
  LET x == SubSeq(m2.handed, Len(m1.handed) + 1, Len(m2.handed))
  IN [op |-> ev.op, t |-> ev.t, h |-> ev.h, d |-> ev.d, skip |-> FALSE, n |-> IF Len(m2.calls) > Len(m1.calls) THEN Len(m2.calls) ELSE 0,
      sd |-> SeqOf(m2.inside \ m1.inside), gone |-> SeqOf(m1.inside \ m2.inside), xd |-> <<x>>, xc |-> <<m2.closes - m1.closes>>,
      xf |-> 0, xok |-> Len(x), dl |-> m2.st.logged - m1.st.logged, dx |-> m2.st.exported - m1.st.exported,
      dd |-> m2.st.dropped - m1.st.dropped, de |-> m2.st.expired - m1.st.expired, dse |-> 0, dxe |-> 0]

Node(mm) ==
  [tab |-> [i \in 1..Cardinality(mm.inside) |-> LET k == SeqOf(mm.inside)[i] IN
              [n |-> k, ret |-> mm.calls[k].ret, expd |-> mm.calls[k].ret, tsd |-> mm.calls[k].at \div 1440]],
   count |-> Cardinality(mm.inside)]

E(op) == [op |-> op, t |-> 0, h |-> 0, d |-> 0]

\* the alphabet as the harness applies it (what it would skip is not offered)
Enabled ==
       (IF ~m.started THEN {E("start")} ELSE {})
  \cup (IF m.started /\ ~m.stopped /\ Cardinality({k \in DOMAIN m.calls : m.calls[k].t = 1}) < Cfg.maxlog THEN {[E("log") EXCEPT !.t = 1]} ELSE {})
  \cup (IF today < Cfg.maxday /\ (Cfg.sync \/ m.started) THEN {E("adv")} ELSE {})
  \cup (IF m.started /\ ~m.stopped THEN {E("stop")} ELSE {})
  \cup (IF HoldOps /\ m.started /\ ~m.stopped /\ m.hold < 0 THEN {[E("hold") EXCEPT !.h = 1]} ELSE {})
  \cup (IF TypeOps THEN {[E("settype") EXCEPT !.t = 1, !.d = 2]} ELSE {})

Apply(ev) ==
  CASE ev.op = "start" -> StartOp(m, today)
    [] ev.op = "log" -> LogOp(m, ev.t, today)
    [] ev.op = "adv" -> AdvOp(m, today)
    [] ev.op = "stop" -> StopOp(m, today)
    [] ev.op = "hold" -> HoldOp(m, today)
    [] OTHER -> SetTypeOp(m, ev.t, ev.d)

Init == sync \in SyncModes /\ m = M0 /\ g = G0(Cfg) /\ today = 0 /\ hist = <<>> /\ viol = {}

Next == /\ viol = {} /\ Len(hist) < (IF sync THEN MaxLenSync ELSE MaxLen)
        /\ UNCHANGED sync
        /\ \E ev \in Enabled :
             LET m2 == Apply(ev)
                 e  == Edge(ev, m, m2)
                 g2 == Step(Cfg, g, e, Node(m2))
             IN /\ m' = m2
                /\ g' = g2
                /\ today' = IF ev.op = "adv" THEN today + 1 ELSE today
                /\ hist' = Append(hist, ev)
                /\ viol' = EdgeClauses(Cfg, g, e) \cup NodeClauses(Cfg, g2, Node(m2), ev.op)

Spec == Init /\ [][Next]_vars

Report == viol = {} \/ PrintT(<<"DESIGN-CEX", ToJson([system |-> Cfg.impl, clauses |-> viol, events |-> hist])>>)
Clean  == viol = {}

\* the contract's ghost describes the model (while nothing was flagged)
GhostTracks == viol # {} \/ (/\ g.n = Len(m.calls) /\ g.started = m.started /\ g.stopped = m.stopped
                             /\ StoredNow(g) = m.inside /\ g.pend = m.chan \o m.buf)

View == <<sync, m, g, today, viol>>
=============================================================================
