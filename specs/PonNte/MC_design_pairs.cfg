SPECIFICATION Spec
CONSTANTS Retries = 1  MaxSteps = 2  MaxMic = 2
INVARIANTS Agree Tracks
VIEW View
CHECK_DEADLOCK FALSE
