--------------------------- MODULE PonNteImpl ---------------------------
(***************************************************************************)
(* U2/U3: TLC walks the transition tables and chains EXTRACTED FROM THE     *)
(* REAL pon.Manager (on the real nexus.Client and nexus.VLANAllocator, its  *)
(* processDiscoveryEvents goroutine running under testing/synctest virtual  *)
(* time; bundle.json written by harness/ponnte) with the PonNte contract as *)
(* monitor.  Tables that are closed under their alphabet give a verdict for *)
(* event sequences of any length over it.                                   *)
(*                                                                         *)
(* Monitor style: a violated clause does not disable the step, it is        *)
(* recorded in viol; the violating state is reported (one JSON line via     *)
(* PrintT) and not explored further; only clauses in Watch are recorded.    *)
(***************************************************************************)
EXTENDS PonNte, Json, SequencesExt

CONSTANTS Watch,     \* the clauses that are recorded
          Soft       \* recorded AND walked past: a state whose only violations are in Soft is reported and still expanded, so that a
                     \* clause that fires often on the tree as found does not hide what comes after it (the ghost does not depend on verdicts)

Bundle == JsonDeserialize("bundle.json")
Systems == Bundle.systems

VARIABLES sys, node, g, viol, path, lastop
vars == <<sys, node, g, viol, path, lastop>>

Cfg(i)        == Systems[i].cfg
NodeOf(i, n)  == Systems[i].nodes[n]
EdgesOf(i, n) == Systems[i].edges[n]

Init == /\ sys \in 1..Len(Systems)
        /\ node = Systems[sys].init
        /\ g = G0(Cfg(sys))
        /\ lastop = "init"
        /\ viol = NodeClauses(Cfg(sys), g, NodeOf(sys, node), "init") \cap Watch
        /\ path = <<>>

Next == /\ viol \ Soft = {}
        /\ \E k \in 1..Len(EdgesOf(sys, node)) :
             LET ed == EdgesOf(sys, node)[k]
                 e  == ed.ev
                 g2 == Step(Cfg(sys), g, e, NodeOf(sys, ed.to))
             IN /\ node' = ed.to
                /\ g' = g2
                /\ lastop' = e.op
                /\ viol' = (EdgeClauses(Cfg(sys), g, e) \cup NodeClauses(Cfg(sys), g2, NodeOf(sys, ed.to), e.op)) \cap Watch
                /\ path' = Append(path, ed.id)
                /\ UNCHANGED sys

Spec == Init /\ [][Next]_vars

Report == viol = {} \/ PrintT(<<"VIOLATION", ToJson([system |-> Systems[sys].name, clauses |-> viol, path |-> path])>>)

\* sanity of the binding: the ghost's per-NTE states are the ones the node reports
GhostTracks == g.st = NodeOf(sys, node).st

View == <<sys, node, g, viol>>
=============================================================================
