SPECIFICATION Spec
CONSTANTS Retries = 2  MaxSteps = 4  MaxMic = 1
INVARIANTS Agree Tracks
VIEW View
CHECK_DEADLOCK FALSE
