SPECIFICATION Spec
CONSTANT Watch = {"StateEdges", "StateFollows", "ConnectedIsCurrent", "DiscoveredOnce", "ArrivalOrder", "NoSilentLoss", "DropOnlyWhenFull", "ResultPerDiscovery", "RetriesBeforeFailure", "VlanUnique", "VlanStable", "VlanInRange", "NoLeak", "DisconnectedOnce", "RecordFollows", "ListsTrue", "PendingIsUnconfigured"}
CONSTANT Soft = {"PendingIsUnconfigured", "ConnectedIsCurrent"}
INVARIANTS Report GhostTracks
VIEW View
CHECK_DEADLOCK FALSE
