SPECIFICATION Spec
CONSTANTS Fixed = TRUE  MaxLen = 12  Retries = 2  QMax = 2
INVARIANTS Clean GhostTracks
VIEW View
CHECK_DEADLOCK FALSE
