--------------------------- MODULE PonNteDesign ---------------------------
(***************************************************************************)
(* U1: the contract (PonNte.tla) is itself model-checked.  The contract     *)
(* judges one observed step at a time with a small relative ghost (the      *)
(* serials accepted and not yet announced, the event in hand and a          *)
(* saturating age, the pair each NTE holds).  Here an arbitrary environment *)
(* produces EVERY possible step over a small universe (any operation, any   *)
(* sequence of up to MaxMic callbacks with any serial, verdict, pair and    *)
(* instant - accepted or not by the contract) and the contract's verdict is *)
(* compared, step by step, with the guarantees stated directly over the     *)
(* full history kept in absolute terms:                                     *)
(*                                                                         *)
(*   Announce   the list B of announced serials is a prefix of the list A   *)
(*              of accepted serials (exactly once, in arrival order)        *)
(*              [DiscoveredOnce, ArrivalOrder]                               *)
(*   Result     announcements and results alternate: a result is for the    *)
(*              serial announced last and not yet answered, an announcement  *)
(*              comes only when nothing is open [ResultPerDiscovery]         *)
(*   Retries    a failure comes no earlier than Retries delays after its     *)
(*              announcement (absolute instants) [RetriesBeforeFailure]      *)
(*   Pairs      a success names a pair inside the ranges [VlanInRange], that *)
(*              no other NTE holds [VlanUnique] and that is the one the NTE  *)
(*              already holds, if any; a deletion ends the holding           *)
(*              [VlanStable]                                                 *)
(*   Down       the disconnected callback fires exactly once in a            *)
(*              HandleDisconnect step, for that serial, and in no other      *)
(*              [DisconnectedOnce]                                           *)
(*   Drop       events are dropped only beyond the channel's capacity       *)
(*              [DropOnlyWhenFull]                                           *)
(*                                                                         *)
(* Invariant Agree: the contract flags a step iff the direct statement is   *)
(* broken by it (neither weaker nor stronger), for as long as no earlier    *)
(* step was flagged.  Invariant Tracks: the ghost's inq is A minus B, its    *)
(* cur the open announcement, its vl the holdings.                           *)
(***************************************************************************)
EXTENDS PonNte

CONSTANTS Retries, MaxSteps, MaxMic

N == 2
Cfg == [impl |-> "design", nnte |-> N, retries |-> Retries, qcap |-> 2, qmax |-> 0, smin |-> 100, smax |-> 100, cmin |-> 100, cmax |-> 101,
        pairs |-> 2, savefail |-> TRUE, pre |-> <<<<0, 0>>, <<0, 0>>>>]

VARIABLES g, steps, flagged, last,
          now,            \* absolute time
          A, B,           \* serials accepted / announced, all of them
          open, openAt,   \* the announcement without result (0: none) and its instant
          P               \* per NTE the pair it holds
vars == <<g, steps, flagged, last, now, A, B, open, openAt, P>>

Compared == {"DiscoveredOnce", "ArrivalOrder", "ResultPerDiscovery", "RetriesBeforeFailure", "VlanInRange", "VlanUnique", "VlanStable",
             "DisconnectedOnce", "DropOnlyWhenFull"}
Rename(S) == {IF c \in {"DiscoveredOnce", "ArrivalOrder"} THEN "Announce" ELSE c : c \in S}

\* ---- the edge universe ------------------------------------------------------------------------
PairSet == {<<100, 100>>, <<100, 101>>, <<100, 102>>}
MicSet(dt) == {[k |-> "disc", n |-> n, ok |-> FALSE, s |-> 0, c |-> 0, off |-> o] : n \in 0..N, o \in 0..dt}
         \cup {[k |-> "prov", n |-> n, ok |-> FALSE, s |-> 0, c |-> 0, off |-> o] : n \in 1..N, o \in 0..dt}
         \cup {[k |-> "prov", n |-> n, ok |-> TRUE, s |-> p[1], c |-> p[2], off |-> o] : n \in 1..N, p \in PairSet, o \in 0..dt}
         \cup {[k |-> "down", n |-> n, ok |-> FALSE, s |-> 0, c |-> 0, off |-> o] : n \in 1..N, o \in 0..dt}
Ordered(q) == \A i \in 1..(Len(q) - 1) : q[i].off <= q[i + 1].off
MicSeqsOf(dt) == {q \in UNION {[1..k -> MicSet(dt)] : k \in 0..MaxMic} : Ordered(q)}
MicSeqs0 == MicSeqsOf(0)       \* constant-level definitions: evaluated once
MicSeqs1 == MicSeqsOf(1)
MicSeqs(dt) == IF dt = 0 THEN MicSeqs0 ELSE MicSeqs1

Base(op, a, sent, drop, dt) ==
  [op |-> op, a |-> a, sent |-> sent, drop |-> drop, qb |-> 0, mic |-> <<>>, dt |-> dt, st |-> [n \in 1..N |-> "unknown"]]

Ops == {Base("disc", n, 1, d, 0) : n \in 1..N, d \in 0..1}
  \cup {Base("flood", n, 3, d, 0) : n \in 1..N, d \in 0..3}
  \cup {Base("disco", n, 0, 0, 0) : n \in 1..N}
  \cup {Base("del", n, 0, 0, 0) : n \in 1..N}
  \cup {Base("mode", 1, 0, 0, 0)}
  \cup {Base("adv", 1, 0, 0, 1)}

\* ---- the direct statement ------------------------------------------------------------------------
IsPrefix(a, b) == Len(a) <= Len(b) /\ SubSeq(b, 1, Len(a)) = a

\* acc = [B, open, openAt, P, downs, bad]
DOne(e, acc, m, A2) ==
  IF m.k = "disc" THEN
       [acc EXCEPT !.B = IF m.n \in 1..N THEN Append(@, m.n) ELSE @,
                   !.open = IF m.n \in 1..N THEN m.n ELSE @,
                   !.openAt = IF m.n \in 1..N THEN now + m.off ELSE @,
                   !.bad = @ \cup (IF m.n \notin 1..N \/ ~IsPrefix(Append(acc.B, m.n), A2) THEN {"Announce"} ELSE {})
                             \cup (IF m.n \in 1..N /\ acc.open # 0 THEN {"ResultPerDiscovery"} ELSE {})]
  ELSE IF m.k = "prov" THEN
       LET p == <<m.s, m.c>> IN
       [acc EXCEPT !.open = 0,
                   !.P = IF m.ok THEN [@ EXCEPT ![m.n] = p] ELSE @,
                   !.bad = @ \cup (IF acc.open # m.n THEN {"ResultPerDiscovery"} ELSE {})
                             \cup (IF ~m.ok /\ acc.open = m.n /\ (now + m.off) - acc.openAt < Retries THEN {"RetriesBeforeFailure"} ELSE {})
                             \cup (IF m.ok /\ ~(p[1] = 100 /\ p[2] \in 100..101) THEN {"VlanInRange"} ELSE {})
                             \cup (IF m.ok /\ \E x \in 1..N : x # m.n /\ acc.P[x] = p THEN {"VlanUnique"} ELSE {})
                             \cup (IF m.ok /\ acc.P[m.n] \notin {NoPair, p} THEN {"VlanStable"} ELSE {})]
  ELSE [acc EXCEPT !.downs = @ + 1,
                   !.bad = @ \cup (IF ~(e.op = "disco" /\ e.a = m.n /\ acc.downs = 0) THEN {"DisconnectedOnce"} ELSE {})]

RECURSIVE DFold(_, _, _, _)
DFold(e, acc, i, A2) == IF i > Len(e.mic) THEN acc ELSE DFold(e, DOne(e, acc, e.mic[i], A2), i + 1, A2)

\* the channel holds Len(A) - Len(B) events when the operation begins
Room == Cfg.qcap - (Len(A) - Len(B))

Direct(e) ==
  LET A2 == A \o (IF e.op \in {"disc", "flood"} THEN Copies(e.a, e.sent - e.drop) ELSE <<>>)
      r  == DFold(e, [B |-> B, open |-> open, openAt |-> openAt, P |-> P, downs |-> 0, bad |-> {}], 1, A2)
  IN [A |-> A2, r |-> r,
      bad |-> r.bad \cup (IF e.op = "disco" /\ r.downs # 1 THEN {"DisconnectedOnce"} ELSE {})
                    \cup (IF e.op \in {"disc", "flood"} /\ e.drop > Max2(0, e.sent - Room) THEN {"DropOnlyWhenFull"} ELSE {})]

Next ==
  /\ ~flagged
  /\ steps < MaxSteps
  /\ steps' = steps + 1
  /\ \E b \in Ops : \E q \in MicSeqs(b.dt) :
       LET e  == [b EXCEPT !.mic = q, !.qb = Len(A) - Len(B)]
           cl == EdgeClauses(Cfg, g, e) \cap Compared
           d  == Direct(e)
       IN /\ e.drop <= e.sent
          /\ last' = [contract |-> Rename(cl), direct |-> d.bad]
          /\ flagged' = (cl # {})
          /\ g' = Step(Cfg, g, e, <<>>)
          /\ now' = now + e.dt
          /\ A' = d.A /\ B' = d.r.B /\ open' = d.r.open /\ openAt' = d.r.openAt
          /\ P' = IF e.op = "del" THEN [d.r.P EXCEPT ![e.a] = NoPair] ELSE d.r.P

Init == /\ g = G0(Cfg) /\ steps = 0 /\ flagged = FALSE /\ last = [contract |-> {}, direct |-> {}]
        /\ now = 0 /\ A = <<>> /\ B = <<>> /\ open = 0 /\ openAt = 0 /\ P = [n \in 1..N |-> NoPair]

Spec == Init /\ [][Next]_vars

\* after the first violation inside one step the two bookkeepings may diverge: the verdicts must agree on whether the
\* step is flagged and share a clause; steps with a single callback must agree exactly
Agree  == /\ (last.contract = {}) = (last.direct = {})
          /\ last.contract # {} => last.contract \cap last.direct # {}
Tracks == ~flagged => /\ IsPrefix(B, A) /\ g.inq = SubSeq(A, Len(B) + 1, Len(A))
                      /\ g.cur = open
                      /\ g.vl = P
                      /\ (open # 0 => g.age = Min2(now - openAt, Retries + 1))

View == vars
=============================================================================
