SPECIFICATION Spec
CONSTANTS Fixed = TRUE  MaxLen = 8  Retries = 1  QMax = 1
INVARIANTS Clean GhostTracks
VIEW View
CHECK_DEADLOCK FALSE
