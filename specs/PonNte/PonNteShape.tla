--------------------------- MODULE PonNteShape ---------------------------
(***************************************************************************)
(* Implementation-shaped design spec of pkg/pon/manager.go: one action per  *)
(* harness step, built from one operator per critical section / goroutine   *)
(* step of the code.                                                        *)
(*                                                                         *)
(*   Send(n)      HandleDiscovery: non-blocking send on discoveryChan        *)
(*   Begin        handleDiscoveryEvent up to the retry loop: discovered      *)
(*                callback, then under m.mu state := UNCONFIGURED and the    *)
(*                event goes into pendingNTEs                                *)
(*   Attempt      provisionNTE: "already provisioned" (record in the Nexus   *)
(*                cache) -> SaveNTE; otherwise VLANAllocator.Allocate,       *)
(*                SaveNTE, "Rollback VLAN allocation" when that fails        *)
(*   Finish       under m.mu state := CONNECTED, pendingNTEs entry removed,  *)
(*                provisioned callback; or time.Sleep(DiscoveryRetryDelay)   *)
(*                and the next attempt; or the failure result                *)
(*   Drain        processDiscoveryEvents: the goroutine takes the next event *)
(*                as soon as it is done with the previous one                *)
(*   Disconnect   HandleDisconnect on the CALLER's goroutine: under m.mu     *)
(*                state := DISCONNECTED, then the record, then the callback  *)
(*   Delete       handleNexusNTEChange(id, nil, true) as TypedStore.Watch    *)
(*                delivers a deletion                                        *)
(*                                                                         *)
(* Time: one unit = DiscoveryRetryDelay; it advances only in "adv".         *)
(*                                                                         *)
(* Fixed = FALSE is the design as found.  Fixed = TRUE is a proposed repair: *)
(* the manager remembers per NTE whether a disconnect came after the latest  *)
(* HandleDiscovery (gone); a discovery that finishes for such an NTE does    *)
(* not make it CONNECTED (its record says "disconnected") and one that       *)
(* begins does not make it UNCONFIGURED; HandleDisconnect and the deletion   *)
(* drop the pendingNTEs entry; the deletion handler tolerates the nil record *)
(* (it finds the serial through the id).  The spec carries the contract's   *)
(* ghost (PonNte.tla) and judges each of its own steps with EdgeClauses /    *)
(* NodeClauses exactly as PonNteImpl does with the steps of the real code.   *)
(* Every violating state                                                     *)
(* is printed as <<"DESIGN-CEX", json([clauses, events])>> with events in    *)
(* the harness' alphabet; lib/fam_ponnte replays the shortest history per    *)
(* clause set on the real manager.                                           *)
(***************************************************************************)
EXTENDS PonNte, Json

CONSTANTS Fixed, MaxLen, Retries, QMax

N == 2
Pairs == 2
Cfg == [impl |-> "shape", nnte |-> N, retries |-> Retries, qcap |-> 100, qmax |-> QMax, smin |-> 100, smax |-> 100, cmin |-> 100,
        cmax |-> 100 + Pairs - 1, pairs |-> Pairs, savefail |-> TRUE, pre |-> <<<<0, 0>>, <<0, 0>>>>, prel |-> <<>>, flood |-> FALSE,
        del |-> TRUE, nsubs |-> 0]
Soft == {"PendingIsUnconfigured", "ConnectedIsCurrent"}

VARIABLES s, g, hist, bad
vars == <<s, g, hist, bad>>

NoRec == [ex |-> FALSE, state |-> "", prov |-> FALSE, s |-> 0, c |-> 0]

\* st: nteStates   pend: pendingNTEs   rec: the Nexus client's NTE cache (= the store)   al: VLANAllocator.allocations
\* chan: discoveryChan   cur/att: the event the processor goroutine works on and the attempts made (it sleeps when cur # 0)
\* fail: the store refuses NTE records   gone: (repair only) a disconnect came after the latest HandleDiscovery
S0 == [st |-> [n \in 1..N |-> "unknown"], pend |-> {}, rec |-> [n \in 1..N |-> NoRec], al |-> [n \in 1..N |-> NoPair],
       chan |-> <<>>, cur |-> 0, att |-> 0, fail |-> FALSE, gone |-> [n \in 1..N |-> FALSE], crashed |-> FALSE]

R0(x) == [s |-> x, mic |-> <<>>]
Mic(k, n, ok, p, off) == [k |-> k, n |-> n, ok |-> ok, s |-> p[1], c |-> p[2], off |-> off]

\* ---- VLANAllocator.Allocate -------------------------------------------------------------------
Free(x) == {c \in 100..(100 + Pairs - 1) : ~\E n \in 1..N : x.al[n] = <<100, c>>}
FirstFree(x) == CHOOSE c \in Free(x) : \A d \in Free(x) : c <= d

\* ---- provisionNTE: result = [x, ok, pair] -------------------------------------------------------
Attempt(x, n) ==
  IF x.rec[n].ex /\ x.rec[n].prov THEN                               \* "NTE already provisioned, updating state"
       IF x.fail THEN [x |-> x, ok |-> FALSE, pair |-> NoPair]
       ELSE [x |-> [x EXCEPT !.rec[n].state = "connected"], ok |-> TRUE, pair |-> <<x.rec[n].s, x.rec[n].c>>]
  ELSE IF x.al[n] = NoPair /\ Free(x) = {} THEN [x |-> x, ok |-> FALSE, pair |-> NoPair]      \* ErrVLANExhausted
  ELSE LET p == IF x.al[n] # NoPair THEN x.al[n] ELSE <<100, FirstFree(x)>> IN
       IF x.fail THEN [x |-> [x EXCEPT !.al[n] = NoPair], ok |-> FALSE, pair |-> NoPair]      \* "Rollback VLAN allocation"
       ELSE [x |-> [x EXCEPT !.al[n] = p, !.rec[n] = [ex |-> TRUE, state |-> "connected", prov |-> TRUE, s |-> p[1], c |-> p[2]]],
             ok |-> TRUE, pair |-> p]

\* ---- the processor goroutine ---------------------------------------------------------------------
\* one attempt for the current event and what follows it
Try(r, off) ==
  LET n == r.s.cur
      a == Attempt(r.s, n)
  IN IF a.ok THEN
          LET x1 == IF Fixed /\ a.x.gone[n]
                      THEN [a.x EXCEPT !.rec[n].state = "disconnected"]      \* the state is left as HandleDisconnect / the deletion set it
                      ELSE [a.x EXCEPT !.st[n] = "connected"]
          IN [s |-> [x1 EXCEPT !.pend = @ \ {n}, !.cur = 0, !.att = 0], mic |-> Append(r.mic, Mic("prov", n, TRUE, a.pair, off))]
     ELSE IF r.s.att < Retries THEN [r EXCEPT !.s = [a.x EXCEPT !.att = @ + 1]]                \* time.Sleep(DiscoveryRetryDelay)
     ELSE [s |-> [a.x EXCEPT !.cur = 0, !.att = 0], mic |-> Append(r.mic, Mic("prov", n, FALSE, NoPair, off))]

Begin(r, off) ==
  LET n  == Head(r.s.chan)
      x1 == [r.s EXCEPT !.chan = Tail(@), !.cur = n, !.att = 0]
      x2 == IF Fixed /\ x1.gone[n] THEN x1 ELSE [x1 EXCEPT !.st[n] = "unconfigured", !.pend = @ \cup {n}]
  IN [s |-> x2, mic |-> Append(r.mic, Mic("disc", n, FALSE, NoPair, off))]

RECURSIVE Drain(_, _)
Drain(r, off) ==
  IF r.s.cur # 0 \/ r.s.chan = <<>> THEN r
  ELSE Drain(Try(Begin(r, off), off), off)

\* ---- the step relation, in the harness' alphabet ---------------------------------------------
AscSeq(S) == LET RECURSIVE F(_)
                  F(T) == IF T = {} THEN <<>> ELSE LET m == CHOOSE y \in T : \A z \in T : y <= z IN <<m>> \o F(T \ {m})
              IN F(S)
CountSt(x, v) == Cardinality({n \in 1..N : x.st[n] = v})

HEv(op, a) == [op |-> op, a |-> a]
Edge(hev, sent, qb, dt, r) ==
  [op |-> hev.op, a |-> hev.a, sent |-> sent, drop |-> 0, qb |-> qb, mic |-> r.mic, dt |-> dt, st |-> r.s.st]

NodeOfS(x) ==
  [st |-> x.st, conn |-> AscSeq({n \in 1..N : x.st[n] = "connected"}), pend |-> AscSeq(x.pend),
   stats |-> [total |-> N - CountSt(x, "unknown"), conn |-> CountSt(x, "connected"), disc |-> CountSt(x, "disconnected"), pend |-> CountSt(x, "unconfigured")],
   rec |-> x.rec, allocs |-> Cardinality({n \in 1..N : x.al[n] # NoPair}), qlen |-> Len(x.chan), cur |-> x.cur]

Take(hev, e, r) ==
  LET g2 == Step(Cfg, g, e, <<>>) IN
  /\ s' = r.s
  /\ g' = g2
  /\ hist' = Append(hist, hev)
  /\ bad' = EdgeClauses(Cfg, g, e) \cup NodeClauses(Cfg, g2, NodeOfS(r.s), hev.op)

Send(n) ==
  LET hev == HEv("disc", n)
      x1  == IF Fixed THEN [s EXCEPT !.gone[n] = FALSE] ELSE s
      r   == Drain(R0([x1 EXCEPT !.chan = Append(@, n)]), 0)
  IN /\ Len(s.chan) < QMax
     /\ Take(hev, Edge(hev, 1, Len(s.chan), 0, r), r)

Disconnect(n) ==
  LET hev == HEv("disco", n)
      x1  == [s EXCEPT !.st[n] = "disconnected"]
      x2  == IF Fixed THEN [x1 EXCEPT !.gone[n] = TRUE, !.pend = @ \ {n}] ELSE x1
      x3  == IF x2.rec[n].ex /\ ~x2.fail THEN [x2 EXCEPT !.rec[n].state = "disconnected"] ELSE x2
      r   == [s |-> x3, mic |-> <<Mic("down", n, FALSE, NoPair, 0)>>]
  IN Take(hev, Edge(hev, 0, Len(s.chan), 0, r), r)

Adv ==
  LET hev == HEv("adv", 1)
      r   == IF s.cur # 0 THEN Drain(Try(R0(s), 1), 1) ELSE R0(s)
  IN Take(hev, Edge(hev, 0, Len(s.chan), 1, r), r)

Mode(k) ==
  LET hev == HEv("mode", k)
      r   == R0([s EXCEPT !.fail = (k = 1)])
  IN /\ s.fail # (k = 1)
     /\ Take(hev, Edge(hev, 0, Len(s.chan), 0, r), r)

Delete(n) ==
  LET hev == HEv("del", n) IN
  IF ~Fixed
    THEN \* callback(id, nil, true) -> nte.SerialNumber on a nil *NTE: the process dies
         /\ s' = [s EXCEPT !.crashed = TRUE] /\ g' = g /\ hist' = Append(hist, hev) /\ bad' = {"Panic"}
    ELSE LET x1 == [s EXCEPT !.rec[n] = NoRec, !.st[n] = "unknown", !.pend = @ \ {n}, !.al[n] = NoPair]
             r  == R0(x1)
         IN Take(hev, Edge(hev, 0, Len(s.chan), 0, r), r)

Init == s = S0 /\ g = G0(Cfg) /\ hist = <<>> /\ bad = {}

Next == /\ bad \ Soft = {}
        /\ Len(hist) < MaxLen
        /\ \/ \E n \in 1..N : Send(n)
           \/ \E n \in 1..N : Disconnect(n)
           \/ Adv
           \/ \E k \in 0..1 : Mode(k)
           \/ \E n \in 1..N : Delete(n)

Spec == Init /\ [][Next]_vars

Report == bad = {} \/ PrintT(<<"DESIGN-CEX", ToJson([clauses |-> bad, events |-> hist])>>)
Clean  == bad = {}
\* the model's state and the contract's ghost agree
GhostTracks == ~s.crashed => (g.st = s.st /\ g.cur = s.cur /\ Len(g.inq) = Len(s.chan))

View == <<s, g, bad>>
=============================================================================
