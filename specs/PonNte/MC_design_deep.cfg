SPECIFICATION Spec
CONSTANTS Retries = 2  MaxSteps = 3  MaxMic = 2
INVARIANTS Agree Tracks
VIEW View
CHECK_DEADLOCK FALSE
