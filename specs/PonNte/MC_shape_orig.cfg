SPECIFICATION Spec
CONSTANTS Fixed = FALSE  MaxLen = 7  Retries = 1  QMax = 1
INVARIANTS Report GhostTracks
VIEW View
CHECK_DEADLOCK FALSE
