------------------------------ MODULE PonNte ------------------------------
(***************************************************************************)
(* Contract of pkg/pon: the NTE discovery / provisioning Manager            *)
(* (manager.go) on top of nexus.Client and nexus.VLANAllocator.  Extra      *)
(* family X12: none of the 20 listed properties; the sentences below were   *)
(* formulated from the package's own comments (quoted).                     *)
(*                                                                         *)
(* The contract talks about what an outside observer sees: the calls made   *)
(* by the PON hardware driver (HandleDiscovery, HandleDisconnect), a        *)
(* deletion of the NTE record in Nexus, the invocations of the three        *)
(* callbacks (OnNTEDiscovered / OnNTEProvisioned / OnNTEDisconnected) with  *)
(* their arguments and the virtual time at which they happen, the answers   *)
(* of GetNTEState / ListConnectedNTEs / ListPendingNTEs / Stats, the NTE    *)
(* record the Nexus client serves, the VLAN allocator's allocation count    *)
(* and the length of the discovery channel.                                 *)
(*                                                                         *)
(* The code has NO approval step and no auto-provisioning switch: every     *)
(* discovered NTE is provisioned at once (ManagerConfig.WalledGardenEnabled *)
(* is read nowhere), and a disconnect keeps the NTE's VLAN pair (the Nexus  *)
(* record stays Provisioned; "NTE already provisioned, updating state" on   *)
(* its return).  Nothing is demanded about either.                          *)
(*                                                                         *)
(* S1 NTEState: "CONNECTED - NTE is physically connected", "DISCONNECTED -  *)
(*    NTE was connected but is now offline", "UNCONFIGURED - NTE is         *)
(*    connected but not yet provisioned"; GetNTEState "returns the current   *)
(*    state of an NTE":                                                     *)
(*    StateEdges         an NTE's reported state changes only through an     *)
(*                       event of that NTE in the same step: to UNCONFIGURED *)
(*                       by the processing of one of its discovery events,   *)
(*                       to CONNECTED by a successful provisioning result    *)
(*                       for it, to DISCONNECTED by HandleDisconnect for it, *)
(*                       to UNKNOWN by the deletion of its record in Nexus   *)
(*                       (so nothing that happens to one NTE changes         *)
(*                       another)                                            *)
(*    StateFollows       HandleDisconnect leaves the NTE DISCONNECTED, the   *)
(*                       deletion in Nexus leaves it UNKNOWN; an NTE whose   *)
(*                       latest hardware event is its discovery is           *)
(*                       UNCONFIGURED once that discovery is being           *)
(*                       processed and CONNECTED once it succeeded           *)
(*    ConnectedIsCurrent an NTE is reported CONNECTED ("physically          *)
(*                       connected", "currently connected") only if the      *)
(*                       latest call of the hardware driver about it was     *)
(*                       HandleDiscovery, not HandleDisconnect               *)
(* S2 "HandleDiscovery processes an NTE discovery event from PON hardware"  *)
(*    / "Discovery channel full, dropping event" / "OnNTEDiscovered         *)
(*    registers a callback for NTE discovery events":                       *)
(*    DiscoveredOnce     the discovered callback fires only for an event     *)
(*                       that was handed in and accepted, once, with that    *)
(*                       event's serial                                      *)
(*    ArrivalOrder       events are announced in the order in which they     *)
(*                       were handed in                                      *)
(*    NoSilentLoss       an accepted event is never lost: the channel holds  *)
(*                       exactly the accepted events not yet announced, and  *)
(*                       none is left when the processor is idle             *)
(*    DropOnlyWhenFull   an event is dropped only when the channel is full   *)
(*                       (the drop is logged, not counted: there is no       *)
(*                       counter in ManagerStats)                            *)
(* S3 "OnNTEProvisioned registers a callback for NTE provisioning results"  *)
(*    / "DiscoveryRetries is how many times to retry provisioning on        *)
(*    failure" / "DiscoveryRetryDelay is the delay between retries":        *)
(*    ResultPerDiscovery every announced event gets exactly one result, for  *)
(*                       its serial, before the next event is announced, and *)
(*                       no later than after the configured retries          *)
(*    RetriesBeforeFailure  a failure is reported only after                 *)
(*                       DiscoveryRetries retries, DiscoveryRetryDelay apart *)
(* S4 "Allocate VLAN for new NTE" / "NTE already provisioned, updating      *)
(*    state" / "Rollback VLAN allocation" / vlan.go "A VLAN pair identifies  *)
(*    exactly one NTE":                                                     *)
(*    VlanUnique         two NTEs never hold the same S-TAG/C-TAG pair       *)
(*                       (results and Nexus records)                         *)
(*    VlanStable         an NTE is provisioned once: every later success     *)
(*                       (re-discovery, return after a disconnect) reports   *)
(*                       the pair it already has, until its record is        *)
(*                       deleted in Nexus                                    *)
(*    VlanInRange        the pair lies in the allocator's configured ranges  *)
(*    NoLeak             the allocator holds exactly one allocation per NTE  *)
(*                       that holds a pair: a failed attempt is rolled back, *)
(*                       a repeated discovery allocates nothing, a deletion  *)
(*                       in Nexus releases the pair                          *)
(* S5 "HandleDisconnect processes an NTE disconnect event" / "Update NTE    *)
(*    state in Nexus" / "OnNTEDisconnected registers a callback for NTE     *)
(*    disconnect events":                                                   *)
(*    DisconnectedOnce   the disconnected callback fires exactly once per    *)
(*                       HandleDisconnect, with that serial, never otherwise *)
(*    RecordFollows      a CONNECTED NTE has a Nexus record that is          *)
(*                       provisioned, in state "connected", with the pair    *)
(*                       its result reported; a record always carries the    *)
(*                       NTE's pair; (configurations without store failures) *)
(*                       the record of a DISCONNECTED NTE says               *)
(*                       "disconnected"                                      *)
(* S6 "ListConnectedNTEs returns all currently connected NTEs" /            *)
(*    "ListPendingNTEs returns all NTEs pending provisioning" / "Stats      *)
(*    returns PON manager statistics":                                      *)
(*    ListsTrue          the connected list and the four statistics are the  *)
(*                       ones of the per-NTE states                          *)
(*    PendingIsUnconfigured  the pending list holds exactly the NTEs whose   *)
(*                       state is UNCONFIGURED (what Stats counts as         *)
(*                       PendingNTEs)                                        *)
(* S7 handleNexusNTEChange "handles NTE changes from Nexus (CLSet sync)",   *)
(*    "NTE deleted from Nexus": StateFollows, NoLeak, VlanStable above (the  *)
(*    NTE is forgotten, its pair released, a later discovery provisions it   *)
(*    afresh).  On the tree as found every deletion crashes (nil record),    *)
(*    reported by the driver as "Panic".                                     *)
(*                                                                         *)
(* Unconstrained: which free pair is chosen, the default subscriber, the    *)
(* QoS profile, timestamps, the Duration of a result, log output, what a    *)
(* disconnect of a never seen NTE means (it is reported DISCONNECTED),      *)
(* Start/Stop (HandleDiscovery after Stop panics on the closed channel).    *)
(* Time unit: DiscoveryRetryDelay.                                          *)
(***************************************************************************)
EXTENDS Integers, FiniteSets, Sequences, TLC

Min2(a, b) == IF a < b THEN a ELSE b
Max2(a, b) == IF a > b THEN a ELSE b
Range(s)   == {s[i] : i \in 1..Len(s)}
IndexOf(s, x)  == IF \E i \in 1..Len(s) : s[i] = x THEN CHOOSE i \in 1..Len(s) : s[i] = x /\ \A j \in 1..(i - 1) : s[j] # x ELSE 0
RemoveAt(s, i) == SubSeq(s, 1, i - 1) \o SubSeq(s, i + 1, Len(s))
Copies(x, k)   == [i \in 1..k |-> x]

\* cfg = [impl, nnte, retries, qcap, smin, smax, cmin, cmax, savefail, pre (per NTE the pair it holds in Nexus before the start, or <<0,0>>), ...]
\* ghost
\*   st    per NTE the state last reported          vl    per NTE the pair it holds (<<0,0>>: none)
\*   inq   serials accepted and not yet announced   cur   NTE announced and still without result (0: none)
\*   age   time since cur was announced (saturating at retries+1)
\*   last  per NTE the latest call of the hardware driver: "none" | "up" | "down"
NoPair == <<0, 0>>
NTEs(cfg) == 1..cfg.nnte
G0(cfg) == [st   |-> [n \in NTEs(cfg) |-> "unknown"],
            vl   |-> [n \in NTEs(cfg) |-> <<cfg.pre[n][1], cfg.pre[n][2]>>],
            inq  |-> <<>>, cur |-> 0, age |-> 0,
            last |-> [n \in NTEs(cfg) |-> "none"]]

PairOk(cfg, p) == p[1] >= cfg.smin /\ p[1] <= cfg.smax /\ p[2] >= cfg.cmin /\ p[2] <= cfg.cmax

\* ---- the callbacks of one step, in the order in which they were invoked ----------------------
\* m = [k ("disc" | "prov" | "down"), n, ok, s, c, off];  acc = [inq, cur, base, vl, downs, bad]
\* base + off = time since cur was announced
MicOne(cfg, e, acc, m) ==
  IF m.n \notin NTEs(cfg) THEN      \* a serial nobody handed in
       [acc EXCEPT !.bad = @ \cup {IF m.k = "disc" THEN "DiscoveredOnce" ELSE IF m.k = "prov" THEN "ResultPerDiscovery" ELSE "DisconnectedOnce"}]
  ELSE IF m.k = "disc" THEN
       LET i == IndexOf(acc.inq, m.n) IN
       [acc EXCEPT !.inq  = IF i = 0 THEN @ ELSE RemoveAt(@, i),
                   !.cur  = m.n,
                   !.base = 0 - m.off,
                   !.bad  = @ \cup (IF acc.cur # 0 THEN {"ResultPerDiscovery"} ELSE {})
                              \cup (IF i = 0 THEN {"DiscoveredOnce"} ELSE IF i # 1 THEN {"ArrivalOrder"} ELSE {})]
  ELSE IF m.k = "prov" THEN
       LET pair == <<m.s, m.c>> IN
       [acc EXCEPT !.cur  = 0,
                   !.base = 0,
                   !.vl   = IF m.ok THEN [@ EXCEPT ![m.n] = pair] ELSE @,
                   !.bad  = @ \cup (IF acc.cur # m.n THEN {"ResultPerDiscovery"} ELSE {})
                              \cup (IF ~m.ok /\ acc.cur = m.n /\ acc.base + m.off < cfg.retries THEN {"RetriesBeforeFailure"} ELSE {})
                              \cup (IF m.ok /\ ~PairOk(cfg, pair) THEN {"VlanInRange"} ELSE {})
                              \cup (IF m.ok /\ \E x \in NTEs(cfg) \ {m.n} : acc.vl[x] = pair THEN {"VlanUnique"} ELSE {})
                              \cup (IF m.ok /\ acc.vl[m.n] # NoPair /\ acc.vl[m.n] # pair THEN {"VlanStable"} ELSE {})]
  ELSE [acc EXCEPT !.downs = @ + 1,
                   !.bad   = @ \cup (IF e.op # "disco" \/ e.a # m.n \/ acc.downs > 0 THEN {"DisconnectedOnce"} ELSE {})]

RECURSIVE MicFold(_, _, _, _)
MicFold(cfg, e, acc, i) == IF i > Len(e.mic) THEN acc ELSE MicFold(cfg, e, MicOne(cfg, e, acc, e.mic[i]), i + 1)

IsSend(e) == e.op \in {"disc", "flood"}

\* what the operation itself hands in (before any callback of the step)
Accepted(e) == IF IsSend(e) THEN Copies(e.a, e.sent - e.drop) ELSE <<>>

MicResult(cfg, g, e) ==
  MicFold(cfg, e, [inq |-> g.inq \o Accepted(e), cur |-> g.cur, base |-> g.age, vl |-> g.vl, downs |-> 0, bad |-> {}], 1)

LastAfter(cfg, g, e) == [n \in NTEs(cfg) |-> IF IsSend(e) /\ e.a = n /\ e.sent > e.drop THEN "up"
                                              ELSE IF e.op = "disco" /\ e.a = n THEN "down" ELSE g.last[n]]

\* ---- S1: states -------------------------------------------------------------------------------
HasMic(e, k, n) == \E i \in 1..Len(e.mic) : e.mic[i].k = k /\ e.mic[i].n = n
HasOk(e, n)     == \E i \in 1..Len(e.mic) : e.mic[i].k = "prov" /\ e.mic[i].n = n /\ e.mic[i].ok
\* the last discovered / provisioned callback about n in this step (0: none)
LastIdx(e, n) == IF \E i \in 1..Len(e.mic) : e.mic[i].n = n /\ e.mic[i].k # "down"
                   THEN CHOOSE i \in 1..Len(e.mic) : e.mic[i].n = n /\ e.mic[i].k # "down" /\ \A j \in (i + 1)..Len(e.mic) : ~(e.mic[j].n = n /\ e.mic[j].k # "down")
                   ELSE 0

Justified(e, n, new) ==
  IF new = "unconfigured" THEN HasMic(e, "disc", n)
  ELSE IF new = "connected" THEN HasOk(e, n)
  ELSE IF new = "disconnected" THEN e.op = "disco" /\ e.a = n
  ELSE e.op = "del" /\ e.a = n

StateClauses(cfg, g, e) ==
  LET lst == LastAfter(cfg, g, e) IN
       (IF \E n \in NTEs(cfg) : e.st[n] # g.st[n] /\ ~Justified(e, n, e.st[n]) THEN {"StateEdges"} ELSE {})
  \cup (IF \/ e.op = "disco" /\ e.a \in NTEs(cfg) /\ e.st[e.a] # "disconnected"
           \/ e.op = "del" /\ e.a \in NTEs(cfg) /\ e.st[e.a] # "unknown"
           \/ \E n \in NTEs(cfg) :
                 /\ ~(e.op \in {"disco", "del"} /\ e.a = n)
                 /\ lst[n] = "up"
                 /\ LastIdx(e, n) # 0
                 /\ LET m == e.mic[LastIdx(e, n)] IN
                      \/ m.k = "disc" /\ e.st[n] # "unconfigured"
                      \/ m.k = "prov" /\ m.ok /\ e.st[n] # "connected"
          THEN {"StateFollows"} ELSE {})

\* ---- S2: the channel --------------------------------------------------------------------------
SendClauses(cfg, g, e) ==
  IF IsSend(e) /\ e.drop > Max2(0, e.qb + e.sent - cfg.qcap) THEN {"DropOnlyWhenFull"} ELSE {}

DownClauses(cfg, g, e) ==
  IF e.op = "disco" /\ MicResult(cfg, g, e).downs # 1 THEN {"DisconnectedOnce"} ELSE {}

\* ---- the contract -----------------------------------------------------------------------------
EdgeClauses(cfg, g, e) ==
  MicResult(cfg, g, e).bad \cup StateClauses(cfg, g, e) \cup SendClauses(cfg, g, e) \cup DownClauses(cfg, g, e)

Step(cfg, g, e, obs) ==
  LET r == MicResult(cfg, g, e) IN
  [st   |-> e.st,
   vl   |-> IF e.op = "del" /\ e.a \in NTEs(cfg) THEN [r.vl EXCEPT ![e.a] = NoPair] ELSE r.vl,
   inq  |-> r.inq,
   cur  |-> r.cur,
   age  |-> IF r.cur = 0 THEN 0 ELSE Min2(r.base + e.dt, cfg.retries + 1),
   last |-> LastAfter(cfg, g, e)]

\* n = [st, conn, pend, stats [total, conn, disc, pend], rec (per NTE [ex, state, prov, s, c]), allocs, qlen]
Count(n, s) == Cardinality({i \in DOMAIN n.st : n.st[i] = s})

NodeClauses(cfg, g, n, lastop) ==
  LET N == NTEs(cfg) IN
       (IF \/ Range(n.conn) # {i \in N : n.st[i] = "connected"} \/ Len(n.conn) # Count(n, "connected")
           \/ n.stats.conn # Count(n, "connected") \/ n.stats.disc # Count(n, "disconnected")
           \/ n.stats.pend # Count(n, "unconfigured") \/ n.stats.total # cfg.nnte - Count(n, "unknown")
          THEN {"ListsTrue"} ELSE {})
  \cup (IF Range(n.pend) # {i \in N : n.st[i] = "unconfigured"} \/ Len(n.pend) # Count(n, "unconfigured")
          THEN {"PendingIsUnconfigured"} ELSE {})
  \cup (IF \E i \in N : n.st[i] = "connected" /\ g.last[i] # "up" THEN {"ConnectedIsCurrent"} ELSE {})
  \cup (IF \E i \in N :
              \/ n.st[i] = "connected" /\ ~(n.rec[i].ex /\ n.rec[i].prov /\ n.rec[i].state = "connected")
              \/ n.rec[i].ex /\ n.rec[i].prov /\ g.vl[i] # <<n.rec[i].s, n.rec[i].c>>
              \/ ~cfg.savefail /\ n.st[i] = "disconnected" /\ n.rec[i].ex /\ n.rec[i].state # "disconnected"
          THEN {"RecordFollows"} ELSE {})
  \cup (IF \E i \in N, j \in N : i # j /\ n.rec[i].ex /\ n.rec[j].ex /\ n.rec[i].prov /\ n.rec[j].prov
                                  /\ n.rec[i].s = n.rec[j].s /\ n.rec[i].c = n.rec[j].c
          THEN {"VlanUnique"} ELSE {})
  \cup (IF n.allocs # Cardinality({i \in N : g.vl[i] # NoPair}) THEN {"NoLeak"} ELSE {})
  \cup (IF n.qlen # Len(g.inq) \/ (g.cur = 0 /\ g.inq # <<>>) THEN {"NoSilentLoss"} ELSE {})
  \cup (IF g.cur # 0 /\ g.age >= cfg.retries THEN {"ResultPerDiscovery"} ELSE {})
=============================================================================
