SPECIFICATION Spec
CONSTANTS Retries = 1  MaxSteps = 3  MaxMic = 1
INVARIANTS Agree Tracks
VIEW View
CHECK_DEADLOCK FALSE
