---------------------------- MODULE AcctContract ----------------------------
(***************************************************************************)
(* C08  "Every started session is accounted to a Stop, across outages and  *)
(* crashes" - the property as a contract (monitor) over OBSERVED runs of   *)
(* the accounting manager.  An observed run is a totally ordered log of     *)
(*   call/ret   API calls StartSession / StopSession / interim / graceful   *)
(*              Stop(), with the session index and whether it succeeded     *)
(*   recv       an Accounting-Request the RADIUS peer accepted (answered):  *)
(*              status type, session index of every identifying attribute,  *)
(*              octet counters as 16-bit limbs (TLC integers are 32-bit)    *)
(*   drop       an Accounting-Request that arrived while the peer was       *)
(*              unreachable for it (not received by RADIUS, not answered)   *)
(*   fetch      the counter source reported (in, out) octets for a session  *)
(*   crash      the incarnation ended at a crash point; boot: a new manager *)
(*              was started on the persisted directory                      *)
(*   quiesce    all retries drained; carries `durable`, the sessions for    *)
(*              which the persistence directory holds a pending Stop, and   *)
(*              `down`, the sessions for whose Stop RADIUS is still         *)
(*              unreachable (the next Stop of that session would be refused)*)
(*   hang       an API call (call, sid) of the current incarnation has not  *)
(*              returned within the harness' watchdog bound although all    *)
(*              retries are drained: the incarnation is blocked, nothing    *)
(*              more will happen in this run unless the process is killed;  *)
(*              carries `durable` and `down` like quiesce.  Last event of   *)
(*              a run.                                                      *)
(*                                                                         *)
(* clause                      sentence of the property statement           *)
(* --------------------------  ------------------------------------------- *)
(* EventuallyStopped           "each session for which accounting was       *)
(*                             started eventually has an Accounting-Stop    *)
(*                             accepted by RADIUS (or durably queued while  *)
(*                             the server stays down)" - as bounded safety: *)
(*                             at quiescence every session that is over     *)
(*                             (stop requested, or its incarnation ended)   *)
(*                             has an accepted Stop or a durable one; only  *)
(*                             for unreachability "within the configured    *)
(*                             retry budget" (no record refused more often  *)
(*                             than the budget).  "durably queued WHILE THE *)
(*                             SERVER STAYS DOWN": a Stop that is merely on *)
(*                             disk excuses a session only if RADIUS is     *)
(*                             still unreachable for that Stop; once the    *)
(*                             server is back and an incarnation has run to *)
(*                             quiescence, the Stop must have been accepted.*)
(*                             "eventually" also ends when an API call      *)
(*                             blocks for ever (hang): absent a crash no    *)
(*                             later point exists at which the Stop could   *)
(*                             be accepted; then the session whose          *)
(*                             StopSession is the blocked call (or every    *)
(*                             live session if the blocked call is the      *)
(*                             graceful Stop()) counts as over as well.     *)
(*                             That a call returns is NOT required as such  *)
(*                             (the statement is silent about it): a hang   *)
(*                             with no Stop outstanding violates nothing.   *)
(* StopAfterStart              "never before its Start"                     *)
(* NoPhantomStop               "never for a session that was not started"   *)
(* NoDupStopWithinIncarnation  "absent a crash a Stop the server has        *)
(*                             already acknowledged is never sent again"    *)
(*                             (DESIGN 6: any restart counts as a crash)    *)
(* IdentifiersOwn              "Records carry the session's own             *)
(*                             identifiers" (every identifying attribute a  *)
(*                             record carries is the session's; a Stop or   *)
(*                             Interim carries at least the attributes the  *)
(*                             session's accepted Start carried)            *)
(* CountersExact               "report 64-bit traffic counters exactly      *)
(*                             through the low-word/gigaword split":        *)
(*                             gigawords*2^32 + low word, limb by limb, is  *)
(*                             a value the counter source reported for that *)
(*                             session (or zero)                            *)
(*                                                                         *)
(* Unconstrained (the statement is silent): duplicate Starts / Interims,    *)
(* order of Interims relative to Stop, packet counters, session time,       *)
(* terminate cause, which of the reported counter values a record carries,  *)
(* Stops re-sent by a later incarnation, whether and when API calls return  *)
(* (a blocked call matters only through the Stops that are then never       *)
(* accepted).                                                               *)
(***************************************************************************)
EXTENDS Integers, Sequences, FiniteSets

Sess(cfg) == 1..cfg.nsess
Kinds == {"start", "stop", "interim"}
Zero4 == <<0, 0, 0, 0>>
RangeOf(seq) == {seq[i] : i \in DOMAIN seq}

G0(cfg) == [ called   |-> {},      \* StartSession invoked
             started  |-> {},      \* ... and returned without error: accounting was started
             live     |-> {},      \* started in the current incarnation, stop not yet requested
             owed     |-> {},      \* over: stop requested, or the incarnation that held it ended
             startAcc |-> {},      \* Start accepted by RADIUS
             stopAcc  |-> {},      \* Stop accepted by RADIUS
             stopAck  |-> {},      \* Stop acknowledged to the CURRENT incarnation
             fin      |-> [s \in Sess(cfg) |-> {Zero4}],   \* octet values the counter source reported
             fout     |-> [s \in Sess(cfg) |-> {Zero4}],
             refused  |-> [k \in Kinds \X Sess(cfg) |-> 0],
             attrs    |-> [s \in Sess(cfg) |-> {}],       \* identifying attributes the session's accepted Start carried
             over     |-> FALSE ]  \* unreachability exceeded the retry budget

\* the gigaword split: octets = gigawords * 2^32 + low word; in 16-bit limbs (least significant
\* first) that is the limbs of the low word followed by the limbs of the gigawords
Octets(lo, gw) == <<lo[1], lo[2], gw[1], gw[2]>>
LimbsOK(v) == \A i \in DOMAIN v : v[i] \in 0..65535

IdentOK(cfg, e) == /\ e.sid \in Sess(cfg)
                   /\ e.user = e.sid
                   /\ e.mac \in {0, e.sid}      \* 0 = attribute absent
                   /\ e.ip \in {0, e.sid}
                   /\ e.port \in {0, e.sid}
                   /\ e.class \in {0, e.sid}

\* which of the optional identifying attributes a record carries
Carried(e) == {a \in {"mac", "ip", "port", "class"} :
                 (a = "mac" /\ e.mac = e.sid) \/ (a = "ip" /\ e.ip = e.sid) \/ (a = "port" /\ e.port = e.sid) \/ (a = "class" /\ e.class = e.sid)}
\* a later record of the session identifies it at least as its accepted Start did
SameIdent(cfg, g, e) == (e.sid \in Sess(cfg) /\ e.typ \in {"stop", "interim"}) => g.attrs[e.sid] \subseteq Carried(e)

CountersOK(cfg, g, e) == e.sid \in Sess(cfg) =>
                           /\ LimbsOK(e.in_lo) /\ LimbsOK(e.in_gw) /\ LimbsOK(e.out_lo) /\ LimbsOK(e.out_gw)
                           /\ Octets(e.in_lo, e.in_gw) \in g.fin[e.sid]
                           /\ Octets(e.out_lo, e.out_gw) \in g.fout[e.sid]

IsStop(e) == e.op \in {"recv", "drop"} /\ e.typ = "stop"

\* the end of an observation: quiescence, or an API call that blocks for ever
IsEnd(e) == e.op \in {"quiesce", "hang"}
\* sessions whose Stop is due at the end e: the ones that are over, and at a hang the ones whose
\* stop was requested by the call that never returns
Due(g, e) == g.owed \cup (IF e.op = "hang" /\ e.call = "stop" THEN {e.sid} \cap g.live ELSE {})
                    \cup (IF e.op = "hang" /\ e.call = "graceful" THEN g.live ELSE {})
\* "durably queued while the server stays down"
Excused(e) == RangeOf(e.durable) \cap RangeOf(e.down)
Unaccounted(g, e) == {s \in Due(g, e) : s \notin g.stopAcc /\ s \notin Excused(e)}

\* clauses violated by observed event e in ghost state g
EdgeClauses(cfg, g, e) ==
       (IF e.op = "recv" /\ e.typ = "stop" /\ e.sid \notin g.startAcc THEN {"StopAfterStart"} ELSE {})
  \cup (IF e.op = "recv" /\ e.typ = "stop" /\ e.sid \notin g.called THEN {"NoPhantomStop"} ELSE {})
  \cup (IF IsStop(e) /\ e.sid \in g.stopAck THEN {"NoDupStopWithinIncarnation"} ELSE {})
  \cup (IF e.op = "recv" /\ (~IdentOK(cfg, e) \/ ~SameIdent(cfg, g, e)) THEN {"IdentifiersOwn"} ELSE {})
  \cup (IF e.op = "recv" /\ e.typ \in {"stop", "interim"} /\ ~CountersOK(cfg, g, e) THEN {"CountersExact"} ELSE {})
  \cup (IF IsEnd(e) /\ ~g.over /\ Unaccounted(g, e) # {} THEN {"EventuallyStopped"} ELSE {})

EndIncarnation(g) == [g EXCEPT !.owed = @ \cup g.live, !.live = {}, !.stopAck = {}]

\* next ghost state (obs is unused: every observation of this family is an event)
Step(cfg, g, e, obs) ==
  CASE e.op = "call" /\ e.call = "start" -> [g EXCEPT !.called = @ \cup {e.sid}]
    [] e.op = "ret" /\ e.call = "start" /\ e.ok -> [g EXCEPT !.started = @ \cup {e.sid}, !.live = @ \cup {e.sid}]
    [] e.op = "ret" /\ e.call = "stop" /\ e.ok -> [g EXCEPT !.owed = @ \cup {e.sid}, !.live = @ \ {e.sid}]
    [] e.op = "ret" /\ e.call = "graceful" -> EndIncarnation(g)
    [] e.op = "crash" -> EndIncarnation(g)
    [] e.op = "boot" -> [g EXCEPT !.stopAck = {}]
    [] e.op = "recv" /\ e.typ = "start" /\ e.sid \in Sess(cfg) ->
         [g EXCEPT !.startAcc = @ \cup {e.sid}, !.attrs[e.sid] = IF e.sid \in g.startAcc THEN @ ELSE Carried(e)]
    [] e.op = "recv" /\ e.typ = "stop" /\ e.sid \in Sess(cfg) -> [g EXCEPT !.stopAcc = @ \cup {e.sid}, !.stopAck = @ \cup {e.sid}]
    [] e.op = "drop" /\ e.typ \in Kinds /\ e.sid \in Sess(cfg) ->
         [g EXCEPT !.refused[<<e.typ, e.sid>>] = @ + 1, !.over = @ \/ (g.refused[<<e.typ, e.sid>>] + 1 > cfg.budget)]
    [] e.op = "fetch" /\ e.sid \in Sess(cfg) -> [g EXCEPT !.fin[e.sid] = @ \cup {e.inl}, !.fout[e.sid] = @ \cup {e.outl}]
    [] OTHER -> g

NodeClauses(cfg, g, n, lastop) == {}

\* description of a violating step for the report (which sessions are unaccounted at quiescence, and
\* for which sessions a Stop had been refused before): used to tell listed findings apart, not to judge
Detail(cfg, g, e) == [unaccounted |-> IF IsEnd(e) THEN Unaccounted(g, e) ELSE {},
                      stopRefused |-> {s \in Sess(cfg) : g.refused[<<"stop", s>>] > 0}]
=============================================================================
