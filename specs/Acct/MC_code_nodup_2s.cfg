SPECIFICATION Spec
CONSTANTS NSess = 2  Budget = 2  MaxCrashes = 0  MaxFailStart = 1  MaxFailStop = 1  Track = TRUE
          DedupRecover = TRUE  CheckPending = TRUE  DurableQueue = FALSE
          Watch = {"NoDupStopWithinIncarnation"}
INVARIANTS Clean TypeOK PhantomFree OwedAreStarted
VIEW View
CHECK_DEADLOCK FALSE
