----------------------------- MODULE AcctDesign -----------------------------
(***************************************************************************)
(* U1 for the contract: does AcctContract really say what the property     *)
(* says?  Next appends ANY event that the contract accepts (no clause       *)
(* violated) to the history h; TLC checks, for every such history up to     *)
(* MaxLen events, the property stated DIRECTLY on the history (quantifying  *)
(* over positions of h) - a second, independent formulation.  So a run      *)
(* that the monitor lets pass cannot contain a Stop before its Start, a     *)
(* phantom Stop, a re-sent acknowledged Stop within an incarnation, or a    *)
(* quiescent state with an unaccounted finished session (a Stop that is     *)
(* merely on disk counts only while the server is still down for it), nor   *)
(* end in a blocked StopSession / Stop() call that leaves a session without *)
(* its Stop.                                                                *)
(***************************************************************************)
EXTENDS AcctContract, TLC

CONSTANTS NSess, Budget, MaxLen

Cfg == [nsess |-> NSess, budget |-> Budget]
Sids == 1..NSess

VARIABLES g, h

E0 == [op |-> "none", call |-> "", typ |-> "", sid |-> 0, ok |-> TRUE, user |-> 0, mac |-> 0, ip |-> 0, port |-> 0, class |-> 0,
       in_lo |-> <<0, 0>>, in_gw |-> <<0, 0>>, out_lo |-> <<0, 0>>, out_gw |-> <<0, 0>>, durable |-> <<>>, down |-> <<>>, point |-> ""]
CallE(c, s) == [E0 EXCEPT !.op = "call", !.call = c, !.sid = s]
RetE(c, s)  == [E0 EXCEPT !.op = "ret", !.call = c, !.sid = s]
RecvE(t, s) == [E0 EXCEPT !.op = "recv", !.typ = t, !.sid = s, !.user = s, !.mac = s, !.ip = s, !.port = s, !.class = s]
DropE(t, s) == [E0 EXCEPT !.op = "drop", !.typ = t, !.sid = s]
QuiE(d, dn) == [E0 EXCEPT !.op = "quiesce", !.durable = d, !.down = dn]
\* a blocked call; durable = down = x: the sessions that are excused (other combinations are covered by QuiE)
HangE(c, s, x) == [E0 EXCEPT !.op = "hang", !.call = c, !.sid = s, !.durable = x, !.down = x]
DurSeqs == IF NSess = 1 THEN {<<>>, <<1>>} ELSE {<<>>, <<1>>, <<2>>, <<1, 2>>}

Events == {CallE("start", s) : s \in Sids} \cup {RetE("start", s) : s \in Sids} \cup {RetE("stop", s) : s \in Sids}
          \cup {RecvE("start", s) : s \in Sids} \cup {RecvE("stop", s) : s \in Sids} \cup {DropE("stop", s) : s \in Sids}
          \cup {[E0 EXCEPT !.op = "crash"], [E0 EXCEPT !.op = "boot"], RetE("graceful", 0)} \cup {QuiE(d, dn) : d \in DurSeqs, dn \in DurSeqs}
          \cup {HangE("stop", s, x) : s \in Sids, x \in DurSeqs} \cup {HangE("graceful", 0, x) : x \in DurSeqs}
          \cup {HangE("start", s, <<>>) : s \in Sids}

Init == g = G0(Cfg) /\ h = <<>>

\* log discipline of the harness: a return follows its call
WellFormed(e) == (e.op = "ret" /\ e.call = "start") => \E i \in DOMAIN h : h[i] = CallE("start", e.sid)

Next == /\ Len(h) < MaxLen
        /\ \E e \in Events : /\ WellFormed(e)
                             /\ EdgeClauses(Cfg, g, e) = {}
                             /\ g' = Step(Cfg, g, e, <<>>)
                             /\ h' = Append(h, e)

Spec == Init /\ [][Next]_<<g, h>>

\* ---- the property, stated on the history --------------------------------------------------
IsRecv(i, t, s) == h[i].op = "recv" /\ h[i].typ = t /\ h[i].sid = s
IncEnd(i) == h[i].op = "crash" \/ (h[i].op = "ret" /\ h[i].call = "graceful")
IncBoundary(i) == IncEnd(i) \/ h[i].op = "boot"

StopAfterStart == \A i \in DOMAIN h : \A s \in Sids : IsRecv(i, "stop", s) => \E j \in 1..(i - 1) : IsRecv(j, "start", s)
NoPhantomStop  == \A i \in DOMAIN h : \A s \in Sids : IsRecv(i, "stop", s) => \E j \in 1..(i - 1) : h[j] = CallE("start", s)
NoDupStop == \A i, j \in DOMAIN h : \A s \in Sids :
               (i < j /\ IsRecv(i, "stop", s) /\ h[j].op \in {"recv", "drop"} /\ h[j].typ = "stop" /\ h[j].sid = s)
                 => \E k \in (i + 1)..(j - 1) : IncBoundary(k)
Over(s, i) == \/ \E j \in 1..(i - 1) : h[j] = RetE("stop", s)
              \/ \E j \in 1..(i - 1) : \E k \in (j + 1)..(i - 1) : h[j] = RetE("start", s) /\ IncEnd(k)
Refusals(s, i) == Cardinality({j \in 1..(i - 1) : h[j] = DropE("stop", s)})
\* s was started in the incarnation that is running at position i and no stop has returned for it
LiveAt(s, i) == \E j \in 1..(i - 1) : /\ h[j] = RetE("start", s)
                                      /\ \A k \in (j + 1)..(i - 1) : ~IncEnd(k) /\ h[k] # RetE("stop", s)
\* ... its stop was requested by the call that blocks at position i
StopRequested(s, i) == /\ h[i].op = "hang" /\ LiveAt(s, i)
                       /\ (h[i].call = "graceful" \/ (h[i].call = "stop" /\ h[i].sid = s))
EventuallyStopped == \A i \in DOMAIN h : (h[i].op \in {"quiesce", "hang"} /\ \A s \in Sids : Refusals(s, i) <= Budget)
                        => \A s \in Sids : (Over(s, i) \/ StopRequested(s, i))
                                               => \/ \E j \in 1..(i - 1) : IsRecv(j, "stop", s)
                                                  \/ (s \in RangeOf(h[i].durable) /\ s \in RangeOf(h[i].down))
=============================================================================
