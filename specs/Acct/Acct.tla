-------------------------------- MODULE Acct --------------------------------
(***************************************************************************)
(* U1, implementation-shaped: the DESIGN of pkg/radius/accounting.go, one   *)
(* action per persistence / transmit step, in the order the code performs   *)
(* them (the crash-point markers verifCrashPoint("...") in accounting.go    *)
(* carry the same names as the values of `at` here).                        *)
(*                                                                         *)
(*   active, stopPend   am.sessions and the StopPending flag      (volatile) *)
(*   pmap               am.pendingRecords with retry counts       (volatile) *)
(*   chan               am.pendingQueue (FIFO channel)            (volatile) *)
(*   held, psent        what pendingRecordProcessor is working on (volatile) *)
(*   diskSess           sessions/<id>.json                        (durable)  *)
(*   diskPend           pending.json                              (durable)  *)
(*   fail               the RADIUS server: how many more arrivals of each    *)
(*                      record kind it refuses (unreachability, per request) *)
(*   g, viol            the ghost state of AcctContract and the clauses the  *)
(*                      emitted events have violated so far: the design is   *)
(*                      judged by the SAME contract as the implementation    *)
(*   hist, hits, at     the run as the harness can replay it: API calls,     *)
(*                      pump/tick scheduling of the processor, and a crash   *)
(*                      as (crash point, occurrence)                         *)
(*                                                                         *)
(* The processor is scheduled as the harness schedules it: between API      *)
(* calls it performs one processPendingRecord per "pump"; during a graceful *)
(* Stop() and after the end of the history it runs freely.                  *)
(*                                                                         *)
(* Switches describe the code as it is and repairs that were considered:    *)
(*   DedupRecover  recovery does not send a session's Stop from its file if *)
(*                 pending.json already holds one                            *)
(*   CheckPending  processPendingRecord ignores a record that is no longer  *)
(*                 in pendingRecords (already delivered through the other    *)
(*                 of channel / retry scan)                                  *)
(*   DurableQueue  pendingRecords is written through to pending.json        *)
(*                 (redesign; shows that the liveness property is met then)  *)
(***************************************************************************)
EXTENDS AcctContract, SequencesExt, Json, TLC

CONSTANTS NSess, Budget, MaxCrashes, MaxFailStart, MaxFailStop, Watch, Track,
          DedupRecover, CheckPending, DurableQueue

Cfg == [nsess |-> NSess, budget |-> Budget]
S == 1..NSess
Rec == [typ : {"start", "stop"}, sid : S, src : {"api", "orphan", "drain"}]
Absent == -1
KindsM == {"start", "stop"} \X S
Points == {"start.registered", "start.sent", "start.persisted", "stop.marked", "stop.persisted", "stop.sent",
           "stop.unregistered", "stop.unpersisted", "shutdown.drained", "shutdown.persisted", "proc.sent", "proc.end",
           "recover.read", "recover.sent", "recover.removed", "recover.loaded", "recover.pendingRemoved"}

VARIABLES active, stopPend, diskSess, diskPend, pmap, chan, held, psent, todo,
          pc, fail, fail0, inc, crashes, mode, used, graced, g, viol, at, hits, hist

vars == <<active, stopPend, diskSess, diskPend, pmap, chan, held, psent, todo,
          pc, fail, fail0, inc, crashes, mode, used, graced, g, viol, at, hits, hist>>

Idle == [op |-> "idle", sid |-> 0, step |-> 0]
NoRecs == [r \in Rec |-> Absent]
Pending(pm) == {r \in Rec : pm[r] # Absent}

Init == /\ active = {} /\ stopPend = {} /\ diskSess = [s \in S |-> "none"] /\ diskPend = {}
        /\ pmap = NoRecs /\ chan = <<>> /\ held = <<>> /\ psent = "none" /\ todo = {}
        /\ pc = Idle
        /\ fail \in [KindsM -> 0..Budget]
        /\ \A k \in KindsM : fail[k] <= (IF k[1] = "start" THEN MaxFailStart ELSE MaxFailStop)
        /\ fail0 = fail
        /\ inc = 1 /\ crashes = 0 /\ mode = "run" /\ used = {} /\ graced = FALSE
        /\ g = G0(Cfg) /\ viol = {}
        /\ at = "none" /\ hits = [p \in Points |-> 0] /\ hist = <<>>

\* ---- events handed to the contract -------------------------------------------------------
Call(c, s) == [op |-> "call", call |-> c, sid |-> s]
Ret(c, s)  == [op |-> "ret", call |-> c, sid |-> s, ok |-> TRUE]
Recv(r) == [op |-> "recv", typ |-> r.typ, sid |-> r.sid, user |-> r.sid, mac |-> r.sid, ip |-> r.sid, port |-> r.sid,
            class |-> r.sid, in_lo |-> <<0, 0>>, in_gw |-> <<0, 0>>, out_lo |-> <<0, 0>>, out_gw |-> <<0, 0>>]
Drop(r) == [op |-> "drop", typ |-> r.typ, sid |-> r.sid]

Ap(x, e) == [g |-> Step(Cfg, x.g, e, <<>>), v |-> x.v \cup EdgeClauses(Cfg, x.g, e)]
Emit(es) == LET x == FoldLeft(Ap, [g |-> g, v |-> viol], es) IN g' = x.g /\ viol' = x.v

\* ---- bookkeeping of the replayable run ---------------------------------------------------
Pt(p) == /\ at' = p
         /\ hits' = IF Track THEN [hits EXCEPT ![p] = @ + 1] ELSE hits
H(x) == hist' = IF Track THEN Append(hist, x) ELSE hist
NoH == hist' = hist

Refused(r) == fail[<<r.typ, r.sid>>] > 0
\* one transmission of r: the server refuses (then the caller queues) or accepts
Outcome(r) == IF Refused(r) THEN Drop(r) ELSE Recv(r)
FailAfter(r) == IF Refused(r) THEN [fail EXCEPT ![<<r.typ, r.sid>>] = @ - 1] ELSE fail
Mirror(pm) == IF DurableQueue THEN Pending(pm) ELSE diskPend

\* direct send by an API / drain / recovery path: on refusal queuePendingRecord (map + channel)
DirectSend(r) == /\ fail' = FailAfter(r)
                 /\ pmap' = IF Refused(r) THEN [pmap EXCEPT ![r] = 0] ELSE pmap
                 /\ chan' = IF Refused(r) THEN Append(chan, r) ELSE chan
                 /\ diskPend' = Mirror(pmap')

\* ---- StartSession ------------------------------------------------------------------------
StartBegin(s) == /\ mode = "run" /\ pc = Idle /\ s \notin used /\ \A t \in S : t < s => t \in used
                 /\ used' = used \cup {s} /\ active' = active \cup {s}
                 /\ pc' = [op |-> "start", sid |-> s, step |-> 2]
                 /\ Emit(<<Call("start", s)>>) /\ Pt("start.registered") /\ H(<<"start", s>>)
                 /\ UNCHANGED <<stopPend, diskSess, diskPend, pmap, chan, held, psent, todo, fail, fail0, inc, crashes, mode, graced>>

StartSend == /\ pc.op = "start" /\ pc.step = 2
             /\ LET r == [typ |-> "start", sid |-> pc.sid, src |-> "api"] IN DirectSend(r) /\ Emit(<<Outcome(r)>>)
             /\ pc' = [pc EXCEPT !.step = 3] /\ Pt("start.sent") /\ NoH
             /\ UNCHANGED <<active, stopPend, diskSess, held, psent, todo, fail0, inc, crashes, mode, used, graced>>

StartPersist == /\ pc.op = "start" /\ pc.step = 3
                /\ diskSess' = [diskSess EXCEPT ![pc.sid] = "active"]
                /\ pc' = [pc EXCEPT !.step = 99] /\ Pt("start.persisted") /\ NoH
                /\ UNCHANGED <<active, stopPend, diskPend, pmap, chan, held, psent, todo, fail, fail0, inc, crashes, mode, used, graced, g, viol>>

\* ---- StopSession -------------------------------------------------------------------------
StopBegin(s) == /\ mode = "run" /\ pc = Idle /\ s \in active /\ s \notin stopPend
                /\ stopPend' = stopPend \cup {s}
                /\ pc' = [op |-> "stop", sid |-> s, step |-> 2]
                /\ Emit(<<Call("stop", s)>>) /\ Pt("stop.marked") /\ H(<<"stop", s>>)
                /\ UNCHANGED <<active, diskSess, diskPend, pmap, chan, held, psent, todo, fail, fail0, inc, crashes, mode, used, graced>>

StopPersist == /\ pc.op = "stop" /\ pc.step = 2
               /\ diskSess' = [diskSess EXCEPT ![pc.sid] = "stoppending"]
               /\ pc' = [pc EXCEPT !.step = 3] /\ Pt("stop.persisted") /\ NoH
               /\ UNCHANGED <<active, stopPend, diskPend, pmap, chan, held, psent, todo, fail, fail0, inc, crashes, mode, used, graced, g, viol>>

StopSend == /\ pc.op = "stop" /\ pc.step = 3
            /\ LET r == [typ |-> "stop", sid |-> pc.sid, src |-> "api"] IN DirectSend(r) /\ Emit(<<Outcome(r)>>)
            /\ pc' = [pc EXCEPT !.step = 4] /\ Pt("stop.sent") /\ NoH
            /\ UNCHANGED <<active, stopPend, diskSess, held, psent, todo, fail0, inc, crashes, mode, used, graced>>

StopUnregister == /\ pc.op = "stop" /\ pc.step = 4
                  /\ active' = active \ {pc.sid} /\ stopPend' = stopPend \ {pc.sid}
                  /\ pc' = [pc EXCEPT !.step = 5] /\ Pt("stop.unregistered") /\ NoH
                  /\ UNCHANGED <<diskSess, diskPend, pmap, chan, held, psent, todo, fail, fail0, inc, crashes, mode, used, graced, g, viol>>

StopUnpersist == /\ pc.op = "stop" /\ pc.step = 5
                 /\ diskSess' = [diskSess EXCEPT ![pc.sid] = "none"]
                 /\ pc' = [pc EXCEPT !.step = 99] /\ Pt("stop.unpersisted") /\ NoH
                 /\ UNCHANGED <<active, stopPend, diskPend, pmap, chan, held, psent, todo, fail, fail0, inc, crashes, mode, used, graced, g, viol>>

Return == /\ pc.op \in {"start", "stop"} /\ pc.step = 99
          /\ Emit(<<Ret(pc.op, pc.sid)>>)
          /\ pc' = Idle /\ at' = "none" /\ hits' = hits /\ NoH
          /\ UNCHANGED <<active, stopPend, diskSess, diskPend, pmap, chan, held, psent, todo, fail, fail0, inc, crashes, mode, used, graced>>

\* ---- restart (after a crash or a graceful Stop): volatile state is gone, recovery starts --
Restart(evs) == /\ active' = {} /\ stopPend' = {} /\ pmap' = NoRecs /\ chan' = <<>> /\ held' = <<>> /\ psent' = "none" /\ todo' = {}
                /\ inc' = inc + 1
                /\ pc' = [op |-> "recover", sid |-> 1, step |-> 1]
                /\ Emit(evs \o <<[op |-> "boot", inc |-> inc + 1]>>)

Crash == /\ at # "none" /\ crashes < MaxCrashes /\ mode # "done"
         /\ crashes' = crashes + 1
         /\ Restart(<<[op |-> "crash", point |-> at, inc |-> inc]>>)
         /\ H(<<"crash", at, hits[at]>>)
         /\ at' = "none" /\ hits' = [p \in Points |-> 0]
         /\ UNCHANGED <<diskSess, diskPend, fail, fail0, mode, used, graced>>

\* ---- graceful Stop(): drain, persist pending, cancel ---------------------------------------
GraceBegin == /\ mode = "run" /\ pc = Idle /\ ~graced /\ used # {}
              /\ graced' = TRUE /\ todo' = active
              /\ pc' = [op |-> "grace", sid |-> 0, step |-> 1]
              /\ Emit(<<Call("graceful", 0)>>) /\ at' = "none" /\ hits' = hits /\ H(<<"graceful">>)
              /\ UNCHANGED <<active, stopPend, diskSess, diskPend, pmap, chan, held, psent, fail, fail0, inc, crashes, mode, used>>

GraceDrain(s) == /\ pc.op = "grace" /\ pc.step = 1 /\ s \in todo
                 /\ todo' = todo \ {s}
                 /\ LET r == [typ |-> "stop", sid |-> s, src |-> "drain"] IN DirectSend(r) /\ Emit(<<Outcome(r)>>)
                 /\ UNCHANGED <<active, stopPend, diskSess, held, psent, pc, fail0, inc, crashes, mode, used, graced, at, hits, hist>>

GraceDrained == /\ pc.op = "grace" /\ pc.step = 1 /\ todo = {}
                /\ pc' = [pc EXCEPT !.step = 2] /\ Pt("shutdown.drained") /\ NoH
                /\ UNCHANGED <<active, stopPend, diskSess, diskPend, pmap, chan, held, psent, todo, fail, fail0, inc, crashes, mode, used, graced, g, viol>>

GracePersist == /\ pc.op = "grace" /\ pc.step = 2
                /\ diskPend' = IF Pending(pmap) # {} THEN Pending(pmap) ELSE diskPend
                /\ pc' = [pc EXCEPT !.step = 3] /\ Pt("shutdown.persisted") /\ NoH
                /\ UNCHANGED <<active, stopPend, diskSess, pmap, chan, held, psent, todo, fail, fail0, inc, crashes, mode, used, graced, g, viol>>

GraceEnd == /\ pc.op = "grace" /\ pc.step = 3 /\ psent = "none"
            /\ Restart(<<Ret("graceful", 0)>>)
            /\ at' = "none" /\ hits' = hits /\ NoH
            /\ UNCHANGED <<diskSess, diskPend, fail, fail0, crashes, mode, used, graced>>

\* ---- recoverOrphanedSessions ---------------------------------------------------------------
HasPendingStop(s) == \E r \in diskPend : r.typ = "stop" /\ r.sid = s
NextSess(k) == [op |-> "recover", sid |-> k + 1, step |-> 1]

RecSkip == /\ pc.op = "recover" /\ pc.step = 1 /\ pc.sid \in S /\ diskSess[pc.sid] = "none"
           /\ pc' = NextSess(pc.sid) /\ NoH
           /\ UNCHANGED <<active, stopPend, diskSess, diskPend, pmap, chan, held, psent, todo, fail, fail0, inc, crashes, mode, used, graced, g, viol, at, hits>>

RecDedup == /\ DedupRecover /\ pc.op = "recover" /\ pc.step = 1 /\ pc.sid \in S /\ diskSess[pc.sid] # "none" /\ HasPendingStop(pc.sid)
            /\ diskSess' = [diskSess EXCEPT ![pc.sid] = "none"]
            /\ pc' = NextSess(pc.sid) /\ Pt("recover.removed") /\ NoH
            /\ UNCHANGED <<active, stopPend, diskPend, pmap, chan, held, psent, todo, fail, fail0, inc, crashes, mode, used, graced, g, viol>>

RecRead == /\ pc.op = "recover" /\ pc.step = 1 /\ pc.sid \in S /\ diskSess[pc.sid] # "none"
           /\ ~(DedupRecover /\ HasPendingStop(pc.sid))
           /\ pc' = [pc EXCEPT !.step = 2] /\ Pt("recover.read") /\ NoH
           /\ UNCHANGED <<active, stopPend, diskSess, diskPend, pmap, chan, held, psent, todo, fail, fail0, inc, crashes, mode, used, graced, g, viol>>

RecSend == /\ pc.op = "recover" /\ pc.step = 2 /\ pc.sid \in S
           /\ LET r == [typ |-> "stop", sid |-> pc.sid, src |-> "orphan"] IN DirectSend(r) /\ Emit(<<Outcome(r)>>)
           /\ pc' = [pc EXCEPT !.step = 3] /\ Pt("recover.sent") /\ NoH
           /\ UNCHANGED <<active, stopPend, diskSess, held, psent, todo, fail0, inc, crashes, mode, used, graced>>

RecRemove == /\ pc.op = "recover" /\ pc.step = 3 /\ pc.sid \in S
             /\ diskSess' = [diskSess EXCEPT ![pc.sid] = "none"]
             /\ pc' = NextSess(pc.sid) /\ Pt("recover.removed") /\ NoH
             /\ UNCHANGED <<active, stopPend, diskPend, pmap, chan, held, psent, todo, fail, fail0, inc, crashes, mode, used, graced, g, viol>>

RecNoPending == /\ pc.op = "recover" /\ pc.step = 1 /\ pc.sid = NSess + 1 /\ (diskPend = {} \/ DurableQueue)
                /\ pmap' = IF DurableQueue THEN [r \in Rec |-> IF r \in diskPend THEN 0 ELSE pmap[r]] ELSE pmap
                /\ chan' = IF DurableQueue THEN chan \o SetToSeq(diskPend) ELSE chan
                /\ pc' = Idle /\ at' = "none" /\ hits' = hits /\ NoH
                /\ UNCHANGED <<active, stopPend, diskSess, diskPend, held, psent, todo, fail, fail0, inc, crashes, mode, used, graced, g, viol>>

RecLoad == /\ ~DurableQueue /\ pc.op = "recover" /\ pc.step = 1 /\ pc.sid = NSess + 1 /\ diskPend # {}
           /\ pmap' = [r \in Rec |-> IF r \in diskPend THEN 0 ELSE pmap[r]]
           /\ \E sq \in SetToSeqs(diskPend) : chan' = chan \o sq
           /\ pc' = [pc EXCEPT !.step = 2] /\ Pt("recover.loaded") /\ NoH
           /\ UNCHANGED <<active, stopPend, diskSess, diskPend, held, psent, todo, fail, fail0, inc, crashes, mode, used, graced, g, viol>>

RecPendingRemove == /\ pc.op = "recover" /\ pc.step = 2 /\ pc.sid = NSess + 1
                    /\ diskPend' = {}
                    /\ pc' = Idle /\ Pt("recover.pendingRemoved") /\ NoH
                    /\ UNCHANGED <<active, stopPend, diskSess, pmap, chan, held, psent, todo, fail, fail0, inc, crashes, mode, used, graced, g, viol>>

\* ---- pendingRecordProcessor -----------------------------------------------------------------
ProcRuns == pc.op # "recover"
Free == mode = "final" \/ pc.op = "grace"            \* gate open: the processor is not scheduled by pump

\* select: a record from the channel ...
FetchChan == /\ ProcRuns /\ held = <<>> /\ psent = "none" /\ chan # <<>>
             /\ held' = <<Head(chan)>> /\ chan' = Tail(chan) /\ NoH
             /\ UNCHANGED <<active, stopPend, diskSess, diskPend, pmap, psent, todo, pc, fail, fail0, inc, crashes, mode, used, graced, g, viol, at, hits>>

\* ... or the retry ticker: every record in the map, in map-iteration (arbitrary) order
FetchTick == /\ ProcRuns /\ held = <<>> /\ psent = "none" /\ Pending(pmap) # {}
             /\ \E sq \in SetToSeqs(Pending(pmap)) : held' = sq
             /\ IF Free \/ pc # Idle THEN NoH ELSE H(<<"tick">>)
             /\ UNCHANGED <<active, stopPend, diskSess, diskPend, pmap, chan, psent, todo, pc, fail, fail0, inc, crashes, mode, used, graced, g, viol, at, hits>>

\* processPendingRecord, first half: transmit
ProcSend == /\ ProcRuns /\ held # <<>> /\ psent = "none" /\ (Free \/ (mode = "run" /\ pc = Idle))
            /\ LET r == Head(held) IN
                 IF CheckPending /\ pmap[r] = Absent
                 THEN /\ held' = Tail(held) /\ psent' = "none"
                      /\ UNCHANGED <<fail, g, viol, at, hits>>
                 ELSE /\ fail' = FailAfter(r) /\ psent' = (IF Refused(r) THEN "fail" ELSE "ok")
                      /\ Emit(<<Outcome(r)>>) /\ held' = held /\ Pt("proc.sent")
            /\ IF Free THEN NoH ELSE H(<<"pump">>)
            /\ UNCHANGED <<active, stopPend, diskSess, diskPend, pmap, chan, todo, pc, fail0, inc, crashes, mode, used, graced>>

\* second half: delete on success; count, back off or abandon on failure
ProcFinish == /\ psent # "none"
              /\ LET r == Head(held) IN
                   pmap' = IF psent = "ok" THEN [pmap EXCEPT ![r] = Absent]
                           ELSE IF pmap[r] = Absent THEN pmap
                           ELSE IF pmap[r] + 1 >= Budget THEN [pmap EXCEPT ![r] = Absent]
                           ELSE [pmap EXCEPT ![r] = @ + 1]
              /\ diskPend' = Mirror(pmap')
              /\ held' = Tail(held) /\ psent' = "none" /\ Pt("proc.end") /\ NoH
              /\ UNCHANGED <<active, stopPend, diskSess, chan, todo, pc, fail, fail0, inc, crashes, mode, used, graced, g, viol>>

\* ---- end of the history: free-running processor until everything is drained, then observe --
Finish == /\ mode = "run" /\ pc = Idle /\ used # {}
          /\ mode' = "final" /\ NoH
          /\ UNCHANGED <<active, stopPend, diskSess, diskPend, pmap, chan, held, psent, todo, pc, fail, fail0, inc, crashes, used, graced, g, viol, at, hits>>

Durable == {s \in S : diskSess[s] # "none" \/ HasPendingStop(s)}
StillDown == {s \in S : fail[<<"stop", s>>] > 0}     \* the server would refuse the next Stop of s

Quiesce == /\ mode = "final" /\ pc = Idle /\ held = <<>> /\ psent = "none" /\ chan = <<>> /\ Pending(pmap) = {}
           /\ Emit(<<[op |-> "quiesce", durable |-> SetToSeq(Durable), down |-> SetToSeq(StillDown)]>>)
           /\ mode' = "done" /\ NoH
           /\ UNCHANGED <<active, stopPend, diskSess, diskPend, pmap, chan, held, psent, todo, pc, fail, fail0, inc, crashes, used, graced, at, hits>>

Env == (\E s \in S : StartBegin(s) \/ StopBegin(s)) \/ GraceBegin \/ Crash
Sys == StartSend \/ StartPersist \/ StopPersist \/ StopSend \/ StopUnregister \/ StopUnpersist \/ Return
       \/ (\E s \in S : GraceDrain(s)) \/ GraceDrained \/ GracePersist \/ GraceEnd
       \/ RecSkip \/ RecDedup \/ RecRead \/ RecSend \/ RecRemove \/ RecNoPending \/ RecLoad \/ RecPendingRemove
       \/ FetchChan \/ FetchTick \/ ProcSend \/ ProcFinish \/ Finish \/ Quiesce
Next == Env \/ Sys

Spec == Init /\ [][Next]_vars
FairSpec == Spec /\ WF_vars(Sys)

\* ---- properties ------------------------------------------------------------------------------
\* safety: the contract's clauses, as judged on the events this design emits.  A violation is
\* printed as the replayable run (one JSON line) and then reported.
ScriptSeq == LET ks == SetToSeq({k \in KindsM : fail0[k] > 0}) IN [i \in DOMAIN ks |-> <<ks[i][1], ks[i][2], fail0[ks[i]]>>]
Clean == (viol \cap Watch = {})
         \/ (PrintT(<<"CEX", ToJson([hist |-> hist, script |-> ScriptSeq, clauses |-> viol \cap Watch])>>) /\ FALSE)

\* the same properties stated directly on the design's state (cross-check of the contract's ghost)
TypeOK == /\ active \subseteq S /\ stopPend \subseteq active /\ crashes \in 0..MaxCrashes
          /\ \A i \in DOMAIN chan : chan[i] \in Rec
PhantomFree == g.stopAcc \subseteq used
OwedAreStarted == g.owed \subseteq g.started

\* liveness (scripts are finite, so the server is eventually up for every record):
\* every session that is over eventually has its Stop accepted
Live == \A s \in S : (s \in g.owed) ~> (s \in g.stopAcc)

View == <<active, stopPend, diskSess, diskPend, pmap, chan, held, psent, todo, pc, fail, inc, crashes, mode, used, graced, g, viol, at>>
=============================================================================
