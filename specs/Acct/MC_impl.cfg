SPECIFICATION Spec
CONSTANT Watch = {"EventuallyStopped", "StopAfterStart", "NoPhantomStop", "NoDupStopWithinIncarnation", "IdentifiersOwn", "CountersExact"}
INVARIANTS Report
VIEW View
CHECK_DEADLOCK FALSE
