SPECIFICATION Spec
CONSTANTS NSess = 1  Budget = 2  MaxCrashes = 2  MaxFailStart = 1  MaxFailStop = 2  Track = TRUE
          DedupRecover = TRUE  CheckPending = TRUE  DurableQueue = FALSE
          Watch = {"NoPhantomStop", "IdentifiersOwn", "CountersExact"}
INVARIANTS Clean TypeOK PhantomFree OwedAreStarted
VIEW View
CHECK_DEADLOCK FALSE
