SPECIFICATION FairSpec
CONSTANTS NSess = 1  Budget = 2  MaxCrashes = 2  MaxFailStart = 1  MaxFailStop = 2  Track = FALSE
          DedupRecover = TRUE  CheckPending = TRUE  DurableQueue = TRUE
          Watch = {"EventuallyStopped", "NoDupStopWithinIncarnation", "NoPhantomStop", "IdentifiersOwn", "CountersExact"}
INVARIANTS Clean TypeOK PhantomFree OwedAreStarted
PROPERTIES Live
CHECK_DEADLOCK FALSE
