SPECIFICATION Spec
CONSTANTS NSess = 1  Budget = 2  MaxCrashes = 1  MaxFailStart = 0  MaxFailStop = 2  Track = TRUE
          DedupRecover = TRUE  CheckPending = TRUE  DurableQueue = FALSE
          Watch = {"EventuallyStopped"}
INVARIANTS Clean TypeOK PhantomFree OwedAreStarted
VIEW View
CHECK_DEADLOCK FALSE
