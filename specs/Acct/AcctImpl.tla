------------------------------ MODULE AcctImpl ------------------------------
(***************************************************************************)
(* U3: TLC walks the runs observed on the REAL radius.AccountingManager +   *)
(* radius.Client against the harness' UDP RADIUS peer (bundle.json written  *)
(* by harness/acct; one chain per run) and judges every observed event      *)
(* against AcctContract.  Monitor style: the clauses violated by a step are *)
(* recorded in viol and the state is reported as one JSON line; the walk    *)
(* continues (runs are linear), so a listed finding early in a run cannot   *)
(* hide a different violation later in the same run.                        *)
(***************************************************************************)
EXTENDS AcctContract, Json, SequencesExt, TLC

CONSTANT Watch

Bundle == JsonDeserialize("bundle.json")
Systems == Bundle.systems

VARIABLES sys, node, g, viol, path, lastop, det

vars == <<sys, node, g, viol, path, lastop, det>>

Cfg(i)   == Systems[i].cfg
NodeOf(i, n) == Systems[i].nodes[n]
EdgesOf(i, n) == Systems[i].edges[n]

Init == /\ sys \in 1..Len(Systems)
        /\ node = Systems[sys].init
        /\ g = G0(Cfg(sys))
        /\ lastop = "init"
        /\ viol = {}
        /\ path = <<>>
        /\ det = [unaccounted |-> {}, stopRefused |-> {}]

Next == /\ \E k \in 1..Len(EdgesOf(sys, node)) :
             LET ed == EdgesOf(sys, node)[k]
                 e  == ed.ev
                 g2 == Step(Cfg(sys), g, e, NodeOf(sys, ed.to))
             IN /\ node' = ed.to
                /\ g' = g2
                /\ lastop' = e.op
                /\ viol' = (EdgeClauses(Cfg(sys), g, e) \cup NodeClauses(Cfg(sys), g2, NodeOf(sys, ed.to), e.op)) \cap Watch
                /\ path' = Append(path, ed.id)
                /\ det' = Detail(Cfg(sys), g, e)
                /\ UNCHANGED sys

Spec == Init /\ [][Next]_vars

Report == viol = {} \/ PrintT(<<"VIOLATION", ToJson([system |-> Systems[sys].name, clauses |-> viol, path |-> path, detail |-> det])>>)

View == <<sys, node, g, viol>>
=============================================================================
