SPECIFICATION Spec
CONSTANTS NSess = 1  Budget = 1  MaxLen = 6
INVARIANTS StopAfterStart NoPhantomStop NoDupStop EventuallyStopped
CHECK_DEADLOCK FALSE
