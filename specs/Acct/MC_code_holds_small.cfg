SPECIFICATION Spec
CONSTANTS NSess = 2  Budget = 2  MaxCrashes = 1  MaxFailStart = 0  MaxFailStop = 1  Track = TRUE
          DedupRecover = TRUE  CheckPending = TRUE  DurableQueue = FALSE
          Watch = {"NoPhantomStop", "IdentifiersOwn", "CountersExact"}
INVARIANTS Clean TypeOK PhantomFree OwedAreStarted
VIEW View
CHECK_DEADLOCK FALSE
