-------------------------- MODULE NatBlocksDesign --------------------------
(***************************************************************************)
(* U1: the contract really implies the property.  Next lets an arbitrary    *)
(* allocator produce ANY answer, ANY log records and ANY block table the    *)
(* contract accepts (no clause violated) - including blocks outside the     *)
(* range, of the wrong size, unaligned, overlapping, records for the wrong  *)
(* subscriber - and TLC checks that then, after every history of the        *)
(* alphabet: no two subscribers hold overlapping ranges on one address,     *)
(* every block is inside the range with the configured size, a subscriber   *)
(* keeps its block until released, and the log attributes every             *)
(* (address, port) to exactly the subscriber holding it.                    *)
(* (Sequential calls; the interleaved reading of the contract is exercised  *)
(* by NatBlocksAlgo, whose repaired design must satisfy it under every      *)
(* schedule.)                                                               *)
(***************************************************************************)
EXTENDS NatBlocks

CONSTANTS NSubs, NIPs, PStart, PEnd, PPS, Plain

Cfg == [nsubs |-> NSubs, nips |-> NIPs, pstart |-> PStart, pend |-> PEnd, pps |-> PPS]

VARIABLES g, tb, last   \* ghost, block table, last accepted answer

vars == <<g, tb, last>>

Ports == (PStart - 1)..(PEnd + 1)
\* candidate blocks: right and wrong sizes, inside and outside the range, every alignment
Blocks == {[ip |-> i, lo |-> l, hi |-> l + PPS - 1 + d] : i \in 1..NIPs, l \in (PStart - 1)..PEnd, d \in {0, 1}}
\* Plain: the records carry only the first port (hi = -1), as the non-bulk log format does
Recs   == UNION {{[kind |-> k, sub |-> s, ip |-> b.ip, lo |-> b.lo, hi |-> IF Plain THEN -1 ELSE b.hi] :
                    k \in {"assign", "release"}, s \in Subs(Cfg)} : b \in Blocks}
Logs   == {<<>>} \cup {<<r>> : r \in Recs}

Ans(op, s, ok, b, l) == [op |-> op, sub |-> s, first |-> TRUE, done |-> TRUE, ok |-> ok, blk |-> b, logs |-> l]
\* answers without their log records (a failed allocation and a release carry no block)
Heads ==      {Ans("alloc", s, TRUE, b, <<>>)        : s \in Subs(Cfg), b \in Blocks}
         \cup {Ans("alloc", s, FALSE, NoBlock, <<>>) : s \in Subs(Cfg)}
         \cup {Ans("release", s, ok, NoBlock, <<>>)  : s \in Subs(Cfg), ok \in BOOLEAN}

\* the only table the Attributable clause can accept for the open records lg (none if some
\* subscriber has two open records)
Functional(lg) == \A x, y \in lg : x.sub = y.sub => x = y
TableOf(lg) == [s \in Subs(Cfg) |->
                  IF \E x \in lg : x.sub = s
                    THEN LET x == CHOOSE x \in lg : x.sub = s IN [ip |-> x.ip, lo |-> x.lo, hi |-> x.hi]
                    ELSE NoBlock]

Init == /\ g = G0(Cfg)
        /\ tb = [s \in Subs(Cfg) |-> NoBlock]
        /\ last = [op |-> "release", sub |-> 1, first |-> TRUE, done |-> TRUE, ok |-> TRUE, blk |-> NoBlock, logs |-> <<>>]

Accept(e) == LET g2  == Step(Cfg, g, e, tb) IN
             /\ Functional(g2.lg)
             /\ LET tb2 == TableOf(g2.lg) IN
                  /\ NodeClauses(Cfg, g2, [blocks |-> tb2], e.op) = {}
                  /\ g' = g2
                  /\ tb' = tb2
             /\ last' = e

Next == \E h \in Heads :
          /\ EdgeClauses(Cfg, g, h) = {}     \* (the edge clauses do not read the log records)
          /\ \E l \in Logs : Accept([h EXCEPT !.logs = l])

Spec == Init /\ [][Next]_vars

\* ---- the property, stated independently of the clauses ------------------------------------
PNoOverlap == \A s, t \in Subs(Cfg) : s # t /\ tb[s] # NoBlock /\ tb[t] # NoBlock /\ tb[s].ip = tb[t].ip
                 => (tb[s].hi < tb[t].lo \/ tb[t].hi < tb[s].lo)
PInRange   == \A s \in Subs(Cfg) : tb[s] # NoBlock =>
                 /\ tb[s].ip \in 1..NIPs /\ PStart <= tb[s].lo /\ tb[s].hi <= PEnd
                 /\ Cardinality(tb[s].lo .. tb[s].hi) = PPS
PTold      == \A s \in Subs(Cfg) : g.blk[s] # NoBlock => (g.sure[s] /\ tb[s] = g.blk[s])
PAttrib    == Attributed(Cfg, g.lg, tb, Ports)
PGhost     == HeldDisjoint(Cfg, g) /\ HeldInRange(Cfg, g)
\* a subscriber keeps the same block until it is released
PStable    == [][ \A s \in Subs(Cfg) :
                    (tb[s] # NoBlock /\ g.blk[s] # NoBlock /\ ~(last'.op = "release" /\ last'.sub = s))
                      => (tb'[s] = tb[s] /\ (last'.op = "alloc" /\ last'.sub = s /\ last'.ok => last'.blk = tb[s])) ]_vars
\* non-vacuity: two subscribers can hold blocks on one address at once (TLC must find this reachable)
View == <<g, tb>>
NeverTwo   == ~(\E s, t \in Subs(Cfg) : s # t /\ tb[s] # NoBlock /\ tb[t] # NoBlock /\ tb[s].ip = tb[t].ip)
=============================================================================
