SPECIFICATION Spec
CONSTANTS NSubs = 2  NIPs = 2  PStart = 1  PEnd = 3  PPS = 2  Plain = TRUE
INVARIANTS PNoOverlap PInRange PTold PAttrib PGhost
PROPERTIES PStable
VIEW View
CHECK_DEADLOCK FALSE
