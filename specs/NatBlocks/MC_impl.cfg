SPECIFICATION Spec
CONSTANT Watch = {"NoOverlap", "InRange", "Stable", "Attributable"}
INVARIANTS Report
VIEW View
CHECK_DEADLOCK FALSE
