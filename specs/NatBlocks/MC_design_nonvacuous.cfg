SPECIFICATION Spec
CONSTANTS NSubs = 2  NIPs = 1  PStart = 2  PEnd = 5  PPS = 2  Plain = FALSE
INVARIANTS NeverTwo
VIEW View
CHECK_DEADLOCK FALSE
