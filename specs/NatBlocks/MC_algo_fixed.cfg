SPECIFICATION Spec
CONSTANTS NSubs = 3  NIPs = 2  PStart = 10  PEnd = 14  PPS = 2  Threads = 2  MaxOps = 6
          IndexBy = "lowestfree"  Recheck = TRUE  AtomicRelease = TRUE
INVARIANTS ContractOK TableDisjoint TableInRange LogTrue CountTrue
VIEW View
CHECK_DEADLOCK FALSE
