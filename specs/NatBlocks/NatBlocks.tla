----------------------------- MODULE NatBlocks -----------------------------
(***************************************************************************)
(* Contract of the CGNAT port-block allocator (property C10).  A block is   *)
(* [ip, lo, hi]: public address number ip (1..nips, position in the         *)
(* configured list) and the inclusive port range lo..hi.  The contract is   *)
(* silent about WHICH free block an allocation returns, about exhaustion,   *)
(* about block alignment and about subscriber-id numbering.                 *)
(*                                                                         *)
(* clause        sentence of the property                                   *)
(* ------------  -------------------------------------------------------   *)
(* NoOverlap     "no two subscribers hold overlapping port ranges on the    *)
(*               same public address" - on the block table observed after   *)
(*               every step (also between the critical sections of          *)
(*               concurrent calls) and on the answer of an atomic call      *)
(* InRange       "every block lies inside the configured port range with    *)
(*               the configured size" - answers and observed table          *)
(* Stable        "a subscriber keeps the same block until it is released"   *)
(*               - an allocation answered while the subscriber holds a      *)
(*               block returns that block; the observed table shows that    *)
(*               block for as long as no release for the subscriber has     *)
(*               been invoked                                               *)
(* Attributable  "every allocation and release produces a log record        *)
(*               sufficient to map any (public address, port, time) to      *)
(*               exactly one subscriber" - replaying the assign/release     *)
(*               records in log order (a) never has two subscribers open    *)
(*               on one (address, port), at any time, and (b) reconstructs  *)
(*               exactly the observed block table whenever no call is in    *)
(*               flight (after EVERY step of a sequential history)          *)
(*                                                                         *)
(* Concurrent callers: a call is a sequence of steps (its critical          *)
(* sections); the first carries first = TRUE (the invocation), the last     *)
(* done = TRUE (the return, with the answer).  A sequential call is one     *)
(* step with both.  Weakest reading: from the moment a release for s is     *)
(* invoked until s is next told a block, nothing is required of s's block.  *)
(***************************************************************************)
EXTENDS Integers, FiniteSets, Sequences, TLC

NoBlock == [ip |-> 0, lo |-> 0, hi |-> 0]

\* cfg = [nsubs, nips, pstart, pend, pps, ...]
Subs(cfg) == 1..cfg.nsubs

BlockOK(cfg, b) == /\ b.ip \in 1..cfg.nips
                   /\ cfg.pstart <= b.lo
                   /\ b.hi <= cfg.pend
                   /\ b.hi - b.lo + 1 = cfg.pps

Overlap(a, b) == a # NoBlock /\ b # NoBlock /\ a.ip = b.ip /\ a.lo <= b.hi /\ b.lo <= a.hi

\* log records r = [kind ("assign"|"release"), sub, ip, lo, hi]; hi = -1: the record carries only
\* the first port, the end follows from the configured size.  An open record: [sub, ip, lo, hi].
Open(cfg, r) == [sub |-> r.sub, ip |-> r.ip, lo |-> r.lo, hi |-> IF r.hi = -1 THEN r.lo + cfg.pps - 1 ELSE r.hi]

RECURSIVE Replay(_, _, _)
Replay(cfg, lg, recs) ==
  IF recs = <<>> THEN lg
  ELSE LET r == Head(recs)
           lg2 == IF r.kind = "assign" THEN lg \cup {Open(cfg, r)}
                  ELSE IF r.kind = "release" THEN {x \in lg : ~(x.sub = r.sub /\ x.ip = r.ip /\ x.lo = r.lo)}
                  ELSE lg   \* records about anything else (sessions, ...) do not concern blocks
       IN Replay(cfg, lg2, Tail(recs))

\* the open records that describe exactly the block table tb (a sequence/function over Subs)
RecordsOf(cfg, tb) == {[sub |-> s, ip |-> tb[s].ip, lo |-> tb[s].lo, hi |-> tb[s].hi] : s \in {t \in Subs(cfg) : tb[t] # NoBlock}}

DoubleBooked(lg) == \E x, y \in lg : x.sub # y.sub /\ x.ip = y.ip /\ x.lo <= y.hi /\ y.lo <= x.hi

\* ghost g = [blk  : what the API last told each subscriber (NoBlock: nothing / unknown),
\*            sure : no release for the subscriber was invoked since blk was told,
\*            nrel : releases for the subscriber in flight,  fl : calls in flight,
\*            lg   : open records after replaying the log so far]
G0(cfg) == [blk  |-> [s \in Subs(cfg) |-> NoBlock],
            sure |-> [s \in Subs(cfg) |-> TRUE],
            nrel |-> [s \in Subs(cfg) |-> 0],
            fl   |-> 0,
            lg   |-> {}]

\* e = [op ("alloc"|"release"), sub, first, done, ok, blk, logs]
\* the set of clause names violated by implementation step e taken in ghost state g
EdgeClauses(cfg, g, e) ==
  LET s == e.sub IN
  IF e.op = "alloc" /\ e.done /\ e.ok THEN
         (IF ~BlockOK(cfg, e.blk) THEN {"InRange"} ELSE {})
    \cup (IF g.blk[s] # NoBlock /\ g.sure[s] /\ e.blk # g.blk[s] THEN {"Stable"} ELSE {})
    \cup (IF e.first /\ (g.blk[s] = NoBlock \/ ~g.sure[s])
             /\ \E t \in Subs(cfg) \ {s} : g.sure[t] /\ Overlap(e.blk, g.blk[t])
            THEN {"NoOverlap"} ELSE {})
  ELSE {}

\* the ghost state after implementation step e (obs = block table observed after it; unused:
\* the ghost follows only what the API answered and what was logged)
Step(cfg, g, e, obs) ==
  LET s  == e.sub
      g1 == [g EXCEPT !.lg = Replay(cfg, g.lg, e.logs),
                      !.fl = g.fl + (IF e.first THEN 1 ELSE 0) - (IF e.done THEN 1 ELSE 0)]
      g2 == IF e.op = "release" /\ e.first
              THEN [g1 EXCEPT !.nrel[s] = g1.nrel[s] + 1, !.sure[s] = FALSE] ELSE g1
  IN CASE e.op = "alloc" /\ e.done /\ e.ok ->
            [g2 EXCEPT !.blk[s] = e.blk, !.sure[s] = (g2.nrel[s] = 0)]
       [] e.op = "release" /\ e.done ->   \* failed or not: nothing is known about s's block any more
            [g2 EXCEPT !.nrel[s] = g2.nrel[s] - 1, !.blk[s] = NoBlock, !.sure[s] = (g2.nrel[s] = 1)]
       [] OTHER -> g2

\* the set of clause names violated by the observation n = [blocks] made in ghost state g
NodeClauses(cfg, g, n, lastop) ==
  LET tb == n.blocks IN
       (IF \E s, t \in Subs(cfg) : s # t /\ Overlap(tb[s], tb[t]) THEN {"NoOverlap"} ELSE {})
  \cup (IF \E s \in Subs(cfg) : tb[s] # NoBlock /\ ~BlockOK(cfg, tb[s]) THEN {"InRange"} ELSE {})
  \cup (IF \E s \in Subs(cfg) : g.blk[s] # NoBlock /\ g.sure[s] /\ tb[s] # g.blk[s] THEN {"Stable"} ELSE {})
  \cup (IF DoubleBooked(g.lg) \/ (g.fl = 0 /\ g.lg # RecordsOf(cfg, tb)) THEN {"Attributable"} ELSE {})

\* what the property ultimately says, on the ghost state
HeldDisjoint(cfg, g) == \A s, t \in Subs(cfg) : (s # t /\ g.sure[s] /\ g.sure[t]) => ~Overlap(g.blk[s], g.blk[t])
HeldInRange(cfg, g)  == \A s \in Subs(cfg) : g.blk[s] # NoBlock => BlockOK(cfg, g.blk[s])
\* every (address, port) is attributed by the log to exactly the subscriber that holds it
Attributed(cfg, lg, tb, ports) ==
  \A ip \in 1..cfg.nips, p \in ports :
     {r.sub : r \in {x \in lg : x.ip = ip /\ x.lo <= p /\ p <= x.hi}}
       = {s \in Subs(cfg) : tb[s].ip = ip /\ tb[s].lo <= p /\ p <= tb[s].hi}
=============================================================================
