\* EXPECTED TO FAIL (AttributableOK): lowest-free index, re-check, but release in three sections
SPECIFICATION Spec
CONSTANTS NSubs = 2  NIPs = 1  PStart = 10  PEnd = 17  PPS = 2  Threads = 2  MaxOps = 3
          IndexBy = "lowestfree"  Recheck = TRUE  AtomicRelease = FALSE
INVARIANTS AttributableOK
VIEW View
CHECK_DEADLOCK FALSE
