SPECIFICATION Spec
CONSTANTS NSubs = 2  NIPs = 1  PStart = 2  PEnd = 5  PPS = 2  Plain = FALSE
INVARIANTS PNoOverlap PInRange PTold PAttrib PGhost
PROPERTIES PStable
VIEW View
CHECK_DEADLOCK FALSE
