---------------------------- MODULE NatBlocksImpl ----------------------------
(***************************************************************************)
(* U2/U3: TLC walks the transition systems EXTRACTED FROM THE REAL          *)
(* nat.Manager (bundle.json, written by harness/nat) with the contract as   *)
(* monitor.  A system is a breadth-first closure of the real object over    *)
(* {allocate, release} x subscribers (a graph, closed = fixed point), one   *)
(* long random history, or one complete interleaving of the gate-delimited  *)
(* critical sections of concurrent calls (chains).  The ghost state g is    *)
(* what the API told each subscriber plus the open records of the captured  *)
(* log; every answer, every log record and every observed block table is    *)
(* judged against it.                                                       *)
(*                                                                         *)
(* Monitor style: a violated clause does not disable the step, it is        *)
(* recorded in viol; the violating state is reported (one JSON line via     *)
(* PrintT) and not explored further.                                        *)
(***************************************************************************)
EXTENDS NatBlocks, Json, SequencesExt

CONSTANT Watch        \* set of clause names this run is about

Bundle == JsonDeserialize("bundle.json")
Systems == Bundle.systems

VARIABLES sys, node, g, viol, path, lastop

vars == <<sys, node, g, viol, path, lastop>>

Cfg(i)   == Systems[i].cfg
NodeOf(i, n) == Systems[i].nodes[n]
EdgesOf(i, n) == Systems[i].edges[n]

Init == /\ sys \in 1..Len(Systems)
        /\ node = Systems[sys].init
        /\ g = G0(Cfg(sys))
        /\ lastop = "init"
        /\ viol = NodeClauses(Cfg(sys), g, NodeOf(sys, node), "init") \cap Watch
        /\ path = <<>>

Next == /\ viol = {}
        /\ \E k \in 1..Len(EdgesOf(sys, node)) :
             LET ed == EdgesOf(sys, node)[k]
                 e  == ed.ev
                 g2 == Step(Cfg(sys), g, e, NodeOf(sys, ed.to).blocks)
             IN /\ node' = ed.to
                /\ g' = g2
                /\ lastop' = e.op
                /\ viol' = (EdgeClauses(Cfg(sys), g, e) \cup NodeClauses(Cfg(sys), g2, NodeOf(sys, ed.to), e.op)) \cap Watch
                /\ path' = Append(path, ed.id)
                /\ UNCHANGED sys

Spec == Init /\ [][Next]_vars

\* always TRUE; prints one line per distinct violating state
Report == viol = {} \/ PrintT(<<"VIOLATION", ToJson([system |-> Systems[sys].name, clauses |-> viol, path |-> path])>>)

View == <<sys, node, g, viol>>
=============================================================================
