\* EXPECTED TO FAIL (StableOK): lowest-free index but no re-check under the pool lock, two callers
SPECIFICATION Spec
CONSTANTS NSubs = 2  NIPs = 1  PStart = 10  PEnd = 17  PPS = 2  Threads = 2  MaxOps = 3
          IndexBy = "lowestfree"  Recheck = FALSE  AtomicRelease = TRUE
INVARIANTS StableOK
VIEW View
CHECK_DEADLOCK FALSE
