--------------------------- MODULE NatBlocksAlgo ---------------------------
(***************************************************************************)
(* Implementation-shaped specification of pkg/nat/manager.go                *)
(* AllocateNAT / DeallocateNAT: one action per critical section of the      *)
(* code, the Go data structures as variables (allocations map, per-address  *)
(* subscriber count), the log records where the code writes them.  Every    *)
(* action emits the same step event the harness records on the real code    *)
(* and is judged by the SAME contract operators (NatBlocks), so a           *)
(* counterexample here is a schedule that can be replayed on the real       *)
(* manager through harness/nat.                                             *)
(*                                                                         *)
(* The switches select the design:                                          *)
(*   IndexBy = "count"       start port = PortStart + Subscribers * size    *)
(*                           (the code as found)                            *)
(*           = "lowestfree"  lowest block index not in the allocations map  *)
(*   Recheck                 existence of an allocation is re-checked under *)
(*                           the pool lock (as found: only the lock-free    *)
(*                           check under allocationMu.RLock)                *)
(*   AtomicRelease           DeallocateNAT is one critical section under    *)
(*                           the pool lock (as found: delete under          *)
(*                           allocationMu | count-- under poolMu | log      *)
(*                           record with no lock)                           *)
(* As found = ("count", FALSE, FALSE); repaired = ("lowestfree", TRUE,      *)
(* TRUE).  TLC finds for the design as found: NoOverlap after a release     *)
(* from the middle (sequential, 4 calls); Stable/Attributable for two       *)
(* concurrent allocations of one private address; Attributable (log order)  *)
(* and NoOverlap for a release racing an allocation.  The repaired design   *)
(* satisfies every clause under every schedule of the bound.                *)
(***************************************************************************)
EXTENDS NatBlocks

CONSTANTS NSubs, NIPs, PStart, PEnd, PPS, Threads, MaxOps, IndexBy, Recheck, AtomicRelease

Cfg == [nsubs |-> NSubs, nips |-> NIPs, pstart |-> PStart, pend |-> PEnd, pps |-> PPS]
MaxPerIP == (PEnd - PStart + 1) \div PPS      \* PoolEntry.MaxSubscribers

VARIABLES alloc,   \* m.allocations : private address -> block (NoBlock = absent)
          cnt,     \* m.pool[i].Subscribers
          pc,      \* per thread: "idle" | "alloc2" | "rel2" | "rel3"
          arg,     \* per thread: subscriber of the call in progress
          saved,   \* per thread: the allocation DeallocateNAT took out of the map
          ops,     \* calls started so far
          g, viol  \* contract ghost and the clauses violated by the last step

vars == <<alloc, cnt, pc, arg, saved, ops, g, viol>>

Thr == 1..Threads

Ev(op, s, first, done, ok, b, l) == [op |-> op, sub |-> s, first |-> first, done |-> done, ok |-> ok, blk |-> b, logs |-> l]
Rec(kind, s, b) == [kind |-> kind, sub |-> s, ip |-> b.ip, lo |-> b.lo, hi |-> b.hi]

\* the monitor: exactly what NatBlocksImpl does with a step of the real code
Emit(e, alloc2) == LET g2 == Step(Cfg, g, e, alloc2) IN
                     /\ g' = g2
                     /\ viol' = EdgeClauses(Cfg, g, e) \cup NodeClauses(Cfg, g2, [blocks |-> alloc2], e.op)

Min(S) == CHOOSE x \in S : \A y \in S : x <= y
Avail == {i \in 1..NIPs : cnt[i] < MaxPerIP}
FreeIdx(i) == {k \in 0..(MaxPerIP - 1) : \A s \in Subs(Cfg) : ~(alloc[s].ip = i /\ alloc[s].lo = PStart + k * PPS)}

Init == /\ alloc = [s \in Subs(Cfg) |-> NoBlock]
        /\ cnt = [i \in 1..NIPs |-> 0]
        /\ pc = [t \in Thr |-> "idle"]
        /\ arg = [t \in Thr |-> 1]
        /\ saved = [t \in Thr |-> NoBlock]
        /\ ops = 0
        /\ g = G0(Cfg)
        /\ viol = {}

\* AllocateNAT, first critical section: allocationMu.RLock; existing? ; RUnlock
AllocCheck(t, s) ==
  /\ pc[t] = "idle" /\ ops < MaxOps
  /\ ops' = ops + 1
  /\ IF alloc[s] # NoBlock
       THEN /\ Emit(Ev("alloc", s, TRUE, TRUE, TRUE, alloc[s], <<>>), alloc)
            /\ UNCHANGED <<pc, arg>>
       ELSE /\ pc' = [pc EXCEPT ![t] = "alloc2"]
            /\ arg' = [arg EXCEPT ![t] = s]
            /\ Emit(Ev("alloc", s, TRUE, FALSE, FALSE, NoBlock, <<>>), alloc)
  /\ UNCHANGED <<alloc, cnt, saved>>

\* AllocateNAT, second critical section: poolMu.Lock ... Unlock (allocationMu nested for the insert)
AllocLocked(t) ==
  /\ pc[t] = "alloc2"
  /\ pc' = [pc EXCEPT ![t] = "idle"]
  /\ LET s == arg[t] IN
     IF Recheck /\ alloc[s] # NoBlock
       THEN /\ Emit(Ev("alloc", s, FALSE, TRUE, TRUE, alloc[s], <<>>), alloc)
            /\ UNCHANGED <<alloc, cnt>>
     ELSE IF Avail = {} \/ (IndexBy = "lowestfree" /\ FreeIdx(Min(Avail)) = {})
       THEN /\ Emit(Ev("alloc", s, FALSE, TRUE, FALSE, NoBlock, <<>>), alloc)   \* "NAT pool exhausted"
            /\ UNCHANGED <<alloc, cnt>>
     ELSE LET i  == Min(Avail)
              k  == IF IndexBy = "count" THEN cnt[i] ELSE Min(FreeIdx(i))
              b  == [ip |-> i, lo |-> PStart + k * PPS, hi |-> PStart + k * PPS + PPS - 1]
              a2 == [alloc EXCEPT ![s] = b]
          IN /\ alloc' = a2
             /\ cnt' = [cnt EXCEPT ![i] = cnt[i] + 1]
             /\ Emit(Ev("alloc", s, FALSE, TRUE, TRUE, b, <<Rec("assign", s, b)>>), a2)
  /\ UNCHANGED <<arg, saved, ops>>

\* DeallocateNAT, first critical section: allocationMu.Lock; delete; Unlock
RelDelete(t, s) ==
  /\ pc[t] = "idle" /\ ops < MaxOps
  /\ ops' = ops + 1
  /\ IF alloc[s] = NoBlock
       THEN /\ Emit(Ev("release", s, TRUE, TRUE, TRUE, NoBlock, <<>>), alloc)
            /\ UNCHANGED <<alloc, cnt, pc, arg, saved>>
     ELSE LET a2 == [alloc EXCEPT ![s] = NoBlock] IN
          IF AtomicRelease
            THEN /\ alloc' = a2
                 /\ cnt' = [cnt EXCEPT ![alloc[s].ip] = cnt[alloc[s].ip] - 1]
                 /\ Emit(Ev("release", s, TRUE, TRUE, TRUE, NoBlock, <<Rec("release", s, alloc[s])>>), a2)
                 /\ UNCHANGED <<pc, arg, saved>>
            ELSE /\ alloc' = a2
                 /\ saved' = [saved EXCEPT ![t] = alloc[s]]
                 /\ arg' = [arg EXCEPT ![t] = s]
                 /\ pc' = [pc EXCEPT ![t] = "rel2"]
                 /\ Emit(Ev("release", s, TRUE, FALSE, FALSE, NoBlock, <<>>), a2)
                 /\ UNCHANGED cnt

\* DeallocateNAT, second critical section: poolMu.Lock; Subscribers--; Unlock
RelCount(t) ==
  /\ pc[t] = "rel2"
  /\ pc' = [pc EXCEPT ![t] = "rel3"]
  /\ cnt' = [cnt EXCEPT ![saved[t].ip] = cnt[saved[t].ip] - 1]
  /\ Emit(Ev("release", arg[t], FALSE, FALSE, FALSE, NoBlock, <<>>), alloc)
  /\ UNCHANGED <<alloc, arg, saved, ops>>

\* DeallocateNAT, tail: natLogger.LogDeallocation with no lock held
RelLog(t) ==
  /\ pc[t] = "rel3"
  /\ pc' = [pc EXCEPT ![t] = "idle"]
  /\ Emit(Ev("release", arg[t], FALSE, TRUE, TRUE, NoBlock, <<Rec("release", arg[t], saved[t])>>), alloc)
  /\ UNCHANGED <<alloc, cnt, arg, saved, ops>>

Next == \E t \in Thr :
          \/ \E s \in Subs(Cfg) : AllocCheck(t, s) \/ RelDelete(t, s)
          \/ AllocLocked(t) \/ RelCount(t) \/ RelLog(t)

Spec == Init /\ [][Next]_vars

\* ---- judged by the contract ----------------------------------------------------------------
NoOverlapOK    == "NoOverlap" \notin viol
InRangeOK      == "InRange" \notin viol
StableOK       == "Stable" \notin viol
AttributableOK == "Attributable" \notin viol
ContractOK     == viol = {}

\* ---- and directly on the data structures ---------------------------------------------------
TableDisjoint == \A s, t \in Subs(Cfg) : s # t => ~Overlap(alloc[s], alloc[t])
TableInRange  == \A s \in Subs(Cfg) : alloc[s] # NoBlock => BlockOK(Cfg, alloc[s])
\* when nobody is inside a call the log attributes every port to its holder and the counts are true
Quiescent == \A t \in Thr : pc[t] = "idle"
LogTrue   == Quiescent => Attributed(Cfg, g.lg, alloc, PStart..PEnd)
CountTrue == Quiescent => \A i \in 1..NIPs : cnt[i] = Cardinality({s \in Subs(Cfg) : alloc[s].ip = i})

\* symmetry is not used: subscribers are distinguished by the order of the table
View == <<alloc, cnt, pc, arg, saved, g, viol>>
=============================================================================
