\* EXPECTED TO FAIL (NoOverlapOK): the design as found, sequential callers
SPECIFICATION Spec
CONSTANTS NSubs = 3  NIPs = 1  PStart = 10  PEnd = 17  PPS = 2  Threads = 1  MaxOps = 5
          IndexBy = "count"  Recheck = FALSE  AtomicRelease = FALSE
INVARIANTS NoOverlapOK
VIEW View
CHECK_DEADLOCK FALSE
