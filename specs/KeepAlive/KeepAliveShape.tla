---------------------------- MODULE KeepAliveShape ----------------------------
(***************************************************************************)
(* Implementation-shaped design spec of pkg/pppoe/keepalive.go: one action  *)
(* per critical section / ticker step of the real code, the peer and the    *)
(* caller (the harness' alphabet) as environment.                           *)
(*                                                                         *)
(* Kind = "ska"  SessionKeepAlive                                           *)
(*   Start     CAS running 0->1; `go runLoop()`: a new ticker; the loop      *)
(*             selects on ka.stopCh - which NewSessionKeepAlive made once    *)
(*   Stop      CAS running 1->0; close(ka.stopCh)                            *)
(*   Tick      check() under ka.mu: time out the pending request, count,     *)
(*             "appears dead" -> return; active -> return; pending ->        *)
(*             return; LCP Opened -> lcp.SendEchoRequest() (identifier++)    *)
(*   Reply     OnEchoReply under ka.mu                                       *)
(*   Act       session.UpdateActivity()                                      *)
(* Kind = "mgr"  KeepAliveManager                                            *)
(*   Start/Stop  CAS, fresh stopCh/doneCh per Start, Stop waits for the loop *)
(*   Tick      checkAllSessions() under m.mu, for every record: time out,    *)
(*             count, at MaxFailures `go terminateSessionAsync` (deletes the *)
(*             record; modelled in the same step: the harness cannot get     *)
(*             between the two) and sessionsKilled++; active -> skip;        *)
(*             sendEchoForSession: "For now, we just mark the state"         *)
(*   Reply / Act / Reg / Unreg   the API calls, each under m.mu              *)
(*                                                                         *)
(* Fixed = FALSE is the code as found.  Fixed = TRUE is the proposed repair: *)
(*   ska: Start makes a fresh stopCh (as the manager's Start does);          *)
(*   mgr: the record keeps the *Session; sendEchoForSession invokes the      *)
(*        sendEcho callback and stores the identifier it returns; a record   *)
(*        that still waits within Timeout is not sent another request;       *)
(*        terminateSessionAsync invokes the terminateSession callback.       *)
(*                                                                         *)
(* The spec carries the contract's ghost (KeepAlive.tla) and judges each of  *)
(* its own steps with EdgeClauses/NodeClauses, exactly as KeepAliveImpl does *)
(* with the steps of the real code (and, like it, keeps going behind a       *)
(* violating step).  Every violating state is printed as                     *)
(*   <<"DESIGN-CEX", json([clauses, events])>>                               *)
(* where events is the history in the harness' alphabet;                     *)
(* lib/fam_keepalive.py replays the shortest history per clause set on the   *)
(* real component.  A Stop that closes an already closed channel is the      *)
(* pseudo-clause "Panic".                                                    *)
(***************************************************************************)
EXTENDS KeepAlive, Json

CONSTANTS Kind, N, Prereg, Fixed, MaxLen, Timeout, MaxFail, Life

Ivl == 10000
Cfg == [impl |-> "shape", kind |-> Kind, n |-> N, prereg |-> Prereg, prestarted |-> ~Life,
        interval |-> Ivl, timeout |-> Timeout, idle |-> 12000, maxfail |-> MaxFail, nsubs |-> 0]
S == 1..N
Mgr == Kind = "mgr"

VARIABLES c, g, hist, bad
vars == <<c, g, hist, bad>>

(***************************************************************************)
(* c = [run      what the caller asked for: fresh | running | stopped        *)
(*      alive    a loop goroutine with a ticker exists                       *)
(*      closed   (ska) ka.stopCh has been closed                             *)
(*      crashed  the process panicked                                        *)
(*      since    ms since the ticker's last tick / creation                  *)
(*      r        per session: [on, fails, pend, pid, age, idle, lat]         *)
(*               pid: raw identifier waited for                             *)
(*      idc      per session: identifier counter (ska: lcp.identifier,       *)
(*               mgr: the caller's sendEcho callback)                        *)
(*      wl, wp   per session: raw ids of the last two requests the peer saw  *)
(***************************************************************************)
NoRec == [on |-> FALSE, fails |-> 0, pend |-> FALSE, pid |-> 0, age |-> 0, idle |-> 0, lat |-> 0]
Fresh(idle) == [NoRec EXCEPT !.on = TRUE, !.idle = idle]

C0 == [run |-> IF Life THEN "fresh" ELSE "running", alive |-> ~Life, closed |-> FALSE, crashed |-> FALSE,
       since |-> IF Life THEN 0 ELSE Ivl \div 2,
       r   |-> [s \in S |-> IF Mgr /\ s > Prereg THEN NoRec ELSE Fresh(IF Life THEN 0 ELSE Ivl \div 2)],
       idc |-> [s \in S |-> 0], wl |-> [s \in S |-> -1], wp |-> [s \in S |-> -1]]

HEv(op, s, w, a) == [op |-> op, s |-> s, w |-> w, a |-> a]

Rel(id, base) == IF id < 0 THEN -1 ELSE (id + 256 - base) % 256

\* what the harness would report about session s after a step from c to c2
Obs(c2, s, base, iss, cb, cbid) ==
  LET r == c2.r[s] IN
  [mon |-> r.on, fails |-> IF r.on THEN Min2(r.fails, FailCap(Cfg)) ELSE 0, pend |-> r.on /\ r.pend,
   pid |-> IF r.on /\ r.pend THEN Rel(r.pid, base) ELSE -1, lat |-> IF r.on THEN r.lat ELSE 0,
   dead |-> ~Mgr /\ r.fails >= MaxFail, iss |-> iss, cb |-> cb, cbid |-> cbid, wok |-> TRUE,
   seen |-> IF r.on THEN r.idle ELSE 0, sh |-> (c2.idc[s] + 256 - base) % 256]

ZeroSt == [req |-> 0, rep |-> 0, to |-> 0, kill |-> 0]

Edge(hev, acc, dt, rid, loop, c2, iss, cb, cbid, terms, st) ==
  [op |-> hev.op, s |-> hev.s, w |-> hev.w, a |-> hev.a, acc |-> acc, dt |-> dt, rid |-> rid, loop |-> loop,
   run |-> c2.run, opened |-> TRUE, other |-> 0, terms |-> terms, st |-> st,
   ss |-> [s \in S |-> Obs(c2, s, c.idc[s], iss[s], cb[s], cbid[s])]]

NodeOf(c2) == [ss |-> [s \in S |-> [dead |-> ~Mgr /\ c2.r[s].fails >= MaxFail, fails |-> Min2(c2.r[s].fails, FailCap(Cfg))]]]

Take(hev, e, c2) ==
  LET g2 == Step(Cfg, g, e, <<>>) IN
  /\ c' = c2
  /\ g' = g2
  /\ hist' = Append(hist, hev)
  /\ bad' = EdgeClauses(Cfg, g, e) \cup NodeClauses(Cfg, g2, NodeOf(c2), hev.op)

Zero == [s \in S |-> 0]
None == [s \in S |-> -1]
Quiet(hev, acc, dt, rid, loop, c2) == Edge(hev, acc, dt, rid, loop, c2, Zero, Zero, None, <<>>, ZeroSt)

\* time passing without a check
Aged(r, d) == IF ~r.on THEN r
              ELSE [r EXCEPT !.age = IF r.pend THEN Min2(r.age + d, AgeCap(Cfg)) ELSE 0, !.idle = Min2(r.idle + d, Cfg.idle)]

(***************************************************************************)
(* the check of one record (check() / the body of checkAllSessions' loop)   *)
(* returns [r, echo, to, dies]                                              *)
(***************************************************************************)
Check(r0, idnext) ==
  LET to    == r0.pend /\ r0.age > Timeout
      r1    == IF to THEN [r0 EXCEPT !.fails = Min2(r0.fails + 1, FailCap(Cfg) + 1), !.pend = FALSE, !.age = 0] ELSE r0
      dies  == to /\ r1.fails >= MaxFail
      \* ska: "Don't send new echo if one is pending"; the manager has no such test (as found)
      waits == r1.pend /\ (~Mgr \/ Fixed)
      echo  == r0.on /\ ~dies /\ r1.idle >= Cfg.idle /\ ~waits
      r2    == IF echo THEN [r1 EXCEPT !.pend = TRUE, !.age = 0,
                                       \* as found the manager never learns an identifier: PendingEchoID stays what it was
                                       !.pid = IF Mgr /\ ~Fixed THEN r1.pid ELSE idnext]
               ELSE r1
  IN [r |-> IF Mgr /\ dies THEN NoRec ELSE r2, echo |-> echo, to |-> to, dies |-> dies]

Adv ==
  LET hev == HEv("adv", 0, "", 0)
      d   == Ivl - c.since
      tick == c.alive
      ck(s) == Check(Aged(c.r[s], d), c.idc[s] + 1)
      wire(s) == tick /\ c.r[s].on /\ ck(s).echo /\ (~Mgr \/ Fixed)      \* the request really leaves
      r2(s) == IF tick /\ c.r[s].on THEN Aged(ck(s).r, Ivl - d) ELSE Aged(c.r[s], Ivl)
      c2  == [c EXCEPT !.r   = [s \in S |-> r2(s)],
                       !.idc = [s \in S |-> IF wire(s) THEN c.idc[s] + 1 ELSE c.idc[s]],
                       !.wl  = [s \in S |-> IF wire(s) THEN c.idc[s] + 1 ELSE c.wl[s]],
                       !.wp  = [s \in S |-> IF wire(s) THEN c.wl[s] ELSE c.wp[s]]]
      did(s, f) == tick /\ c.r[s].on /\ f
      iss  == [s \in S |-> IF did(s, ck(s).echo) THEN 1 ELSE 0]
      cb   == [s \in S |-> IF wire(s) THEN 1 ELSE 0]
      cbid == [s \in S |-> IF wire(s) THEN 1 ELSE -1]
      dead == {s \in S : Mgr /\ did(s, ck(s).dies)}
      terms == IF Fixed THEN (IF 1 \in dead THEN <<1>> ELSE <<>>) \o (IF N >= 2 /\ 2 \in dead THEN <<2>> ELSE <<>>) ELSE <<>>
      st   == IF Mgr THEN [req |-> Cardinality({s \in S : iss[s] = 1}), rep |-> 0,
                           to |-> Cardinality({s \in S : did(s, ck(s).to)}), kill |-> Cardinality(dead)]
              ELSE ZeroSt
  IN Take(hev, Edge(hev, TRUE, Ivl, -1, FALSE, c2, iss, cb, cbid, terms, st), c2)

Act(s) ==
  LET hev == HEv("act", s, "", 0)
      c2  == [c EXCEPT !.r[s] = IF c.r[s].on THEN [c.r[s] EXCEPT !.idle = 0] ELSE c.r[s]]
  IN Take(hev, Quiet(hev, TRUE, 0, -1, FALSE, c2), c2)

Reg(s) ==
  LET hev == HEv("reg", s, "", 0)
      c2  == [c EXCEPT !.r[s] = Fresh(0)]
  IN Mgr /\ Take(hev, Quiet(hev, TRUE, 0, -1, FALSE, c2), c2)

Unreg(s) ==
  LET hev == HEv("unreg", s, "", 0)
      c2  == [c EXCEPT !.r[s] = NoRec]
  IN Mgr /\ Take(hev, Quiet(hev, TRUE, 0, -1, FALSE, c2), c2)

Reply(s, w, a) ==
  LET hev  == HEv("reply", s, w, a)
      r    == c.r[s]
      \* the identifier the peer answers with (harness/keepalive/system.go, op "reply")
      raw0 == IF c.wl[s] >= 0 THEN c.wl[s] ELSE IF Mgr /\ r.on /\ r.pend THEN r.pid ELSE IF Mgr THEN 0 ELSE c.idc[s]
      raw  == IF w # "stale" THEN raw0
              ELSE IF c.wp[s] >= 0 /\ c.wp[s] # raw0 THEN c.wp[s] ELSE (raw0 + 100) % 256
      ra   == IF a = 1 /\ r.on THEN [r EXCEPT !.idle = 0] ELSE r
      hit  == ra.on /\ ra.pend /\ ra.pid = raw
      rb   == IF hit THEN [ra EXCEPT !.lat = ra.age, !.pend = FALSE, !.age = 0, !.fails = 0, !.idle = IF Mgr THEN 0 ELSE ra.idle]
              ELSE ra
      c2   == [c EXCEPT !.r[s] = rb]
      st   == IF Mgr /\ hit THEN [ZeroSt EXCEPT !.rep = 1] ELSE ZeroSt
  IN Take(hev, Edge(hev, TRUE, 0, Rel(raw, c.idc[s]), w = "loop", c2, Zero, Zero, None, <<>>, st), c2)

Start ==
  LET hev == HEv("start", 0, "", 0)
      ok  == c.run # "running"
      \* as found the session keep-alive's loop sees the closed channel at once and returns
      lives == Mgr \/ Fixed \/ ~c.closed
      c1  == [c EXCEPT !.run = "running", !.alive = lives, !.since = 0, !.closed = IF Fixed THEN FALSE ELSE c.closed]
      c2  == [c1 EXCEPT !.since = IF lives THEN Ivl \div 2 ELSE 0, !.r = [s \in S |-> Aged(c.r[s], Ivl \div 2)]]
  IN IF ok THEN Take(hev, Quiet(hev, TRUE, Ivl \div 2, -1, FALSE, c2), c2)
          ELSE Take(hev, Quiet(hev, FALSE, 0, -1, FALSE, c), c)

Stop ==
  LET hev == HEv("stop", 0, "", 0)
      ok  == c.run = "running"
      c2  == [c EXCEPT !.run = "stopped", !.alive = FALSE, !.since = 0, !.closed = ~Mgr]
  IN IF ~ok THEN Take(hev, Quiet(hev, FALSE, 0, -1, FALSE, c), c)
     ELSE IF ~Mgr /\ c.closed
       THEN /\ c' = [c EXCEPT !.crashed = TRUE]           \* close of closed channel
            /\ hist' = Append(hist, hev) /\ bad' = {"Panic"} /\ UNCHANGED g
     ELSE Take(hev, Quiet(hev, TRUE, 0, -1, FALSE, c2), c2)

Init == c = C0 /\ g = G0(Cfg) /\ hist = <<>> /\ bad = {}

Next == /\ Len(hist) < MaxLen
        /\ ~c.crashed
        /\ \/ Adv
           \/ \E s \in S : Act(s) \/ Reg(s) \/ Unreg(s)
           \/ \E s \in S, w \in {"match", "stale"} : Reply(s, w, 0)
           \/ \E s \in S : Reply(s, "match", 1)
           \/ (Life /\ (Start \/ Stop))

Spec == Init /\ [][Next]_vars

Report == bad = {} \/ PrintT(<<"DESIGN-CEX", ToJson([clauses |-> bad, events |-> hist])>>)
Clean  == bad = {}

\* the binding of the model: the ghost follows the model as it follows the real component
GhostTracks == c.crashed \/ (/\ g.run = c.run
                             /\ \A s \in S : g.x[s].mon = c.r[s].on /\ (c.r[s].on => g.x[s].out = c.r[s].pend /\ g.x[s].fail = Min2(c.r[s].fails, FailCap(Cfg))))

View == <<c, g, bad>>
=============================================================================
