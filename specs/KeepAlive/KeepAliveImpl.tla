--------------------------- MODULE KeepAliveImpl ---------------------------
(***************************************************************************)
(* U2/U3: TLC walks the transition tables and chains EXTRACTED FROM THE     *)
(* REAL pppoe.SessionKeepAlive (composed with the real LCPStateMachine) and *)
(* pppoe.KeepAliveManager, both driven under testing/synctest virtual time  *)
(* (bundle.json, written by harness/keepalive), with the KeepAlive contract *)
(* as monitor.  Tables that are closed under their alphabet give a verdict  *)
(* for event sequences of any length over that alphabet.                    *)
(*                                                                         *)
(* Unlike the other monitors this one keeps walking behind a violating      *)
(* step: the ghost of this contract is re-synchronised from what the        *)
(* component showed after every step, so later steps are judged on their    *)
(* own.  (Every request the manager accounts for violates EchoSent on the   *)
(* tree as found; stopping there would leave the manager's reply, timeout   *)
(* and death handling unchecked.)  `viol` holds the clauses of the last     *)
(* step only.                                                               *)
(***************************************************************************)
EXTENDS KeepAlive, Json, SequencesExt

CONSTANT Watch

Bundle == JsonDeserialize("bundle.json")
Systems == Bundle.systems

VARIABLES sys, node, g, viol, path, lastop
vars == <<sys, node, g, viol, path, lastop>>

Cfg(i)        == Systems[i].cfg
NodeOf(i, n)  == Systems[i].nodes[n]
EdgesOf(i, n) == Systems[i].edges[n]

Init == /\ sys \in 1..Len(Systems)
        /\ node = Systems[sys].init
        /\ g = G0(Cfg(sys))
        /\ lastop = "init"
        /\ viol = NodeClauses(Cfg(sys), g, NodeOf(sys, node), "init") \cap Watch
        /\ path = <<>>

Next == \E k \in 1..Len(EdgesOf(sys, node)) :
             LET ed == EdgesOf(sys, node)[k]
                 e  == ed.ev
                 g2 == Step(Cfg(sys), g, e, NodeOf(sys, ed.to))
             IN /\ node' = ed.to
                /\ g' = g2
                /\ lastop' = e.op
                /\ viol' = (EdgeClauses(Cfg(sys), g, e) \cup NodeClauses(Cfg(sys), g2, NodeOf(sys, ed.to), e.op)) \cap Watch
                /\ path' = Append(path, ed.id)
                /\ UNCHANGED sys

Spec == Init /\ [][Next]_vars

Report == viol = {} \/ PrintT(<<"VIOLATION", ToJson([system |-> Systems[sys].name, clauses |-> viol, path |-> path])>>)

\* sanity of the binding: the ghost follows what the harness observes, and the harness keeps its promise that a
\* step contains at most one check (a failure of these is an infrastructure failure, not a verdict)
GhostTracks == /\ g.run = NodeOf(sys, node).run
               /\ g.opened = NodeOf(sys, node).opened
               /\ \A s \in Sess(Cfg(sys)) : LET n == NodeOf(sys, node).ss[s] IN
                      g.x[s].mon = n.mon /\ g.x[s].fail = n.fails /\ g.x[s].out = n.pend /\ g.x[s].lat = n.lat
OneCheckPerStep == \A k \in 1..Len(EdgesOf(sys, node)) : NT(Cfg(sys), g, EdgesOf(sys, node)[k].ev) <= 1

View == <<sys, node, g, viol>>
=============================================================================
