SPECIFICATION Spec
CONSTANTS Kind = "mgr"  N = 2  Prereg = 2  Fixed = TRUE  MaxLen = 14  Timeout = 7000  MaxFail = 2  Life = TRUE
INVARIANTS Clean GhostTracks
VIEW View
CHECK_DEADLOCK FALSE
