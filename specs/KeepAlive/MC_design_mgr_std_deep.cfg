SPECIFICATION Spec
CONSTANTS Mode = "mgr"  MaxT = 8  Timeout = 7000  MaxFail = 2
INVARIANTS AgreeBothWays AcceptedTrue
VIEW View
CHECK_DEADLOCK FALSE
