SPECIFICATION Spec
CONSTANTS Mode = "ska"  MaxT = 7  Timeout = 7000  MaxFail = 2  Rich = TRUE
INVARIANTS AgreeBothWays AcceptedTrue
VIEW View
CHECK_DEADLOCK FALSE
