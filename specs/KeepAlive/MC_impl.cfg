SPECIFICATION Spec
CONSTANT Watch = {"NoEarlyDead", "DeadAtMax", "ReplyResets", "StaleIgnored", "EchoCadence", "Outstanding", "FreshId", "EchoSent", "TerminateOnce", "Monitoring", "SilentWhenOff", "OnlyChecksCount", "Isolation", "StatsTrue"}
INVARIANTS Report GhostTracks OneCheckPerStep
VIEW View
CHECK_DEADLOCK FALSE
