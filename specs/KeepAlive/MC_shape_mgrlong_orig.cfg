SPECIFICATION Spec
CONSTANTS Kind = "mgr"  N = 1  Prereg = 1  Fixed = FALSE  MaxLen = 7  Timeout = 16000  MaxFail = 2  Life = FALSE
INVARIANTS Report GhostTracks
VIEW View
CHECK_DEADLOCK FALSE
