SPECIFICATION Spec
CONSTANTS Kind = "mgr"  N = 2  Prereg = 1  Fixed = FALSE  MaxLen = 7  Timeout = 7000  MaxFail = 2  Life = FALSE
INVARIANTS Report GhostTracks
VIEW View
CHECK_DEADLOCK FALSE
