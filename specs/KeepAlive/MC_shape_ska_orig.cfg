SPECIFICATION Spec
CONSTANTS Kind = "ska"  N = 1  Prereg = 1  Fixed = FALSE  MaxLen = 8  Timeout = 7000  MaxFail = 2  Life = TRUE
INVARIANTS Report GhostTracks
VIEW View
CHECK_DEADLOCK FALSE
