SPECIFICATION Spec
CONSTANTS Kind = "mgr"  N = 1  Prereg = 0  Fixed = TRUE  MaxLen = 12  Timeout = 7000  MaxFail = 2  Life = TRUE
INVARIANTS Clean GhostTracks
VIEW View
CHECK_DEADLOCK FALSE
