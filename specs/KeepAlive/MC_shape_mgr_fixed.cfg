SPECIFICATION Spec
CONSTANTS Kind = "mgr"  N = 2  Prereg = 1  Fixed = TRUE  MaxLen = 10  Timeout = 7000  MaxFail = 2  Life = FALSE
INVARIANTS Clean GhostTracks
VIEW View
CHECK_DEADLOCK FALSE
