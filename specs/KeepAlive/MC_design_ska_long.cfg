SPECIFICATION Spec
CONSTANTS Mode = "ska"  MaxT = 4  Timeout = 16000  MaxFail = 2  Rich = FALSE
INVARIANTS AgreeBothWays AcceptedTrue
VIEW View
CHECK_DEADLOCK FALSE
