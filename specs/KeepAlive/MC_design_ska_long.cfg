SPECIFICATION Spec
CONSTANTS Mode = "ska"  MaxT = 6  Timeout = 16000  MaxFail = 2
INVARIANTS AgreeBothWays AcceptedTrue
VIEW View
CHECK_DEADLOCK FALSE
