SPECIFICATION Spec
CONSTANTS Mode = "mgr"  MaxT = 7  Timeout = 16000  MaxFail = 2  Rich = TRUE
INVARIANTS AgreeBothWays AcceptedTrue
VIEW View
CHECK_DEADLOCK FALSE
