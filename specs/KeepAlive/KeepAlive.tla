------------------------------ MODULE KeepAlive ------------------------------
(***************************************************************************)
(* Contract of pkg/pppoe/keepalive.go - extra family X05, not one of the    *)
(* 20 listed properties.  Two components share it:                          *)
(*                                                                         *)
(*  kind "ska"  SessionKeepAlive ("keep-alive for a single session")        *)
(*              composed with the real LCPStateMachine of lcp.go: the       *)
(*              Echo-Requests are what the automaton hands to its send      *)
(*              callback; an Echo-Reply is given to the automaton and then  *)
(*              to OnEchoReply ("Echo replies are handled by the keep-alive *)
(*              mechanism", lcp.go).                                        *)
(*  kind "mgr"  KeepAliveManager ("manages LCP Echo keep-alive for all      *)
(*              sessions"): RegisterSession / UnregisterSession /           *)
(*              UpdateActivity / ReceiveEchoReply / GetSessionHealth /      *)
(*              GetStats and the two callbacks sendEcho ("Send echo         *)
(*              request, returns identifier") and terminateSession          *)
(*              ("Terminate session").                                      *)
(*                                                                         *)
(* clause            guarantee (source: the comments of keepalive.go)        *)
(* ----------------  ----------------------------------------------------   *)
(* NoEarlyDead       the count of "consecutive failures" grows only at a     *)
(*                   check (tick of the Interval ticker) that finds the      *)
(*                   outstanding request older than Timeout ("Wait time for  *)
(*                   reply") and unanswered, by one per such request; a      *)
(*                   session is declared dead (ska: IsDead; mgr: dropped     *)
(*                   from monitoring, "Session dead - max failures           *)
(*                   exceeded") only when that count has reached             *)
(*                   MaxFailures ("Failures before termination")             *)
(* DeadAtMax         ... and at such a check the failure IS counted, and at  *)
(*                   the MaxFailures-th consecutive one the session IS       *)
(*                   declared dead                                           *)
(* ReplyResets       a reply that carries the identifier of the outstanding  *)
(*                   request ("the reply we're waiting for") and the peer's  *)
(*                   magic number, within Timeout: the failure count is 0    *)
(*                   ("Reset failure counter"), nothing is outstanding any   *)
(*                   more, the latency is the age of the request ("Last      *)
(*                   measured round-trip latency"; a check never changes it) *)
(* StaleIgnored      a reply with another identifier, or while nothing is    *)
(*                   outstanding ("Unexpected echo reply"), changes nothing  *)
(* EchoCadence       Interval = "Echo interval": at a check a monitored,     *)
(*                   not-dead session whose last activity is at least        *)
(*                   IdleThreshold old ("Skip echo if active within"), that  *)
(*                   has no request outstanding within Timeout ("Don't send  *)
(*                   new echo if one is pending") and (ska) whose LCP is     *)
(*                   Opened (RFC 1661 5.8) gets exactly one Echo-Request;    *)
(*                   otherwise none; never between checks                    *)
(* Outstanding       the component waits ("PendingEcho: whether we're        *)
(*                   waiting for a reply", "PendingEchoID") exactly for the  *)
(*                   last request sent that was neither answered nor timed   *)
(*                   out                                                     *)
(* FreshId           (ska) an Echo-Request is a well-formed LCP packet with  *)
(*                   the local magic number, sent in LCP state Opened, and   *)
(*                   its identifier differs from the previous request's, so  *)
(*                   a late reply to a request that timed out is not taken   *)
(*                   for the answer to the current one                       *)
(* EchoSent          (mgr) every request the manager accounts for was handed *)
(*                   to the sendEcho callback exactly once, and the reply it *)
(*                   waits for carries the identifier the callback returned  *)
(* TerminateOnce     (mgr) terminateSession is invoked exactly once, with    *)
(*                   the session, when the session is declared dead, and     *)
(*                   never otherwise                                         *)
(* Monitoring        (mgr) RegisterSession starts monitoring with a clean    *)
(*                   record ("Start fresh"), UnregisterSession ends it       *)
(* SilentWhenOff     before Start, after Stop returned ("Stop stops the      *)
(*                   keep-alive") and for a session that is not registered:  *)
(*                   no request is sent, no callback fires, nothing is       *)
(*                   counted, time passing changes nothing                   *)
(* OnlyChecksCount   nothing but a check, a reply or a (un)registration of   *)
(*                   that session changes its failure count / outstanding    *)
(*                   request (activity, Start, Stop, LCP events do not)      *)
(* Isolation         (mgr) an operation on one session changes nothing of    *)
(*                   another session                                         *)
(* StatsTrue         (mgr) GetStats counts exactly the events: requests      *)
(*                   accounted, valid replies, timeouts, sessions killed;    *)
(*                   GetSessionHealth's lastSeen is the last activity        *)
(*                   ("Time of last any activity": UpdateActivity,           *)
(*                   registration, a valid reply)                            *)
(*                                                                         *)
(* Weakest readings.  Everything is judged one step at a time, relative to   *)
(* what the component itself showed after the previous step (failure count,  *)
(* what it waits for); the wire (send callback) is tied to that by           *)
(* Outstanding / EchoSent.  The contract is SILENT about: a reply with the   *)
(* right identifier that carries the LOCAL magic number (a looped-back link; *)
(* RFC 1661 recommends to treat it as loop-back, the code's documentation    *)
(* promises nothing - `free` below), a reply that arrives later than Timeout *)
(* before any check has counted the request (only possible while stopped),   *)
(* whether a session already declared dead (ska: "termination should be      *)
(* handled by the caller") is sent further requests when it is idle, has     *)
(* nothing outstanding and LCP is Opened (never otherwise), the reason       *)
(* string, the order of callbacks.  Identifiers are only compared for equality; the      *)
(* harness reports them relative to the identifier counter at the beginning  *)
(* of the step (`sh` = how far the counter moved during the step).           *)
(***************************************************************************)
EXTENDS Integers, FiniteSets, Sequences, TLC

Min2(a, b) == IF a < b THEN a ELSE b

(***************************************************************************)
(* cfg = [kind, n, prereg, prestarted, interval, timeout, idle, maxfail]     *)
(*       (times in ms)                                                       *)
(* ghost g = [run, since, opened, x]                                         *)
(*   run     "fresh" | "running" | "stopped"                                 *)
(*   since   ms since the last tick of the Interval ticker (or since Start)  *)
(*   opened  (ska) LCP is in state Opened                                    *)
(*   x[s]    [mon, fail, out, oid, age, idle, lat, last] per session:        *)
(*           monitored / failure count / a request is outstanding / its id / *)
(*           its age / ms since the last activity (capped at cfg.idle) /     *)
(*           latency / id of the last request put on the wire                *)
(* edge e = [op, s, w, a,      the event: start stop adv act reg unreg reply  *)
(*                             down up; session; reply kind; reply is also   *)
(*                             session traffic (UpdateActivity first)        *)
(*           acc, dt, rid, loop, run, opened, terms, st, ss]                 *)
(*   rid     identifier of the delivered reply; loop: it carries the local   *)
(*           magic number                                                    *)
(*   terms   sessions the terminate callback was invoked for (0 = unknown)   *)
(*   st      [req, rep, to, kill] growth of the GetStats counters            *)
(*   ss[s]   after the step: [mon, fails, pend, pid, lat, dead, seen,        *)
(*           iss  requests the component accounted for in this step          *)
(*                (ska: on the wire; mgr: LastEchoSent moved),               *)
(*           cb   requests that really left (send callback), cbid the last   *)
(*                one's identifier, wok: all well-formed, local magic,       *)
(*                LCP Opened,                                                *)
(*           sh]                                                             *)
(***************************************************************************)
Sess(cfg)    == 1..cfg.n
IsMgr(cfg)   == cfg.kind = "mgr"
FailCap(cfg) == cfg.maxfail + 2
AgeCap(cfg)  == 3 * cfg.interval
Shift(id, sh) == IF id < 0 THEN -1 ELSE (id + 256 - sh) % 256

Unmon == [mon |-> FALSE, fail |-> 0, out |-> FALSE, oid |-> -1, age |-> 0, idle |-> 0, lat |-> 0, last |-> -1]

G0(cfg) ==
  [run    |-> IF cfg.prestarted THEN "running" ELSE "fresh",
   since  |-> IF cfg.prestarted THEN cfg.interval \div 2 ELSE 0,
   opened |-> TRUE,
   x      |-> [s \in Sess(cfg) |->
                IF IsMgr(cfg) /\ s > cfg.prereg THEN Unmon
                ELSE [Unmon EXCEPT !.mon = TRUE, !.idle = IF cfg.prestarted THEN Min2(cfg.interval \div 2, cfg.idle) ELSE 0]]]

\* ---- time ---------------------------------------------------------------------------------------
Starts(e) == e.op = "start" /\ e.acc
Stops(e)  == e.op = "stop" /\ e.acc
RunDuring(g, e) == IF Starts(e) THEN TRUE ELSE IF Stops(e) THEN FALSE ELSE g.run = "running"
Since0(g, e)    == IF Starts(e) THEN 0 ELSE g.since
\* checks (ticks) that fall into the step, and how long after its beginning the first one does
NT(cfg, g, e) == IF RunDuring(g, e) THEN (Since0(g, e) + e.dt) \div cfg.interval ELSE 0
TD(cfg, g, e) == cfg.interval - Since0(g, e)

\* ---- what the contract expects of session s in step e --------------------------------------------
Own(e, s) == e.acc /\ e.s = s
NTerms(e, s) == Cardinality({i \in 1..Len(e.terms) : e.terms[i] = s})

Exp(cfg, g, e, s) ==
  LET x     == g.x[s]
      tick  == e.op = "adv" /\ NT(cfg, g, e) = 1
      d     == TD(cfg, g, e)
      age1  == Min2(x.age + d, AgeCap(cfg))
      idle1 == Min2(x.idle + d, cfg.idle)
      to    == tick /\ x.mon /\ x.out /\ age1 > cfg.timeout
      fail1 == IF to THEN Min2(x.fail + 1, FailCap(cfg)) ELSE x.fail
      wasDead == x.mon /\ x.fail >= cfg.maxfail
      dies  == to /\ fail1 >= cfg.maxfail /\ ~wasDead
      waiting == x.out /\ ~to
      idok  == e.op = "reply" /\ Own(e, s) /\ x.mon /\ x.out /\ e.rid = x.oid
      intime == x.age <= cfg.timeout
  IN [tick |-> tick, to |-> to, fail |-> fail1, wasDead |-> wasDead, dies |-> dies, waiting |-> waiting,
      \* 1 / 0 = exactly one / no request at this check, -1 = the contract is silent
      echo |-> IF ~tick \/ ~x.mon THEN 0
               ELSE IF waiting \/ idle1 < cfg.idle \/ ~g.opened THEN 0
               ELSE IF wasDead \/ dies THEN (IF IsMgr(cfg) THEN 0 ELSE -1)
               ELSE 1,
      valid |-> idok /\ ~e.loop /\ intime,
      free  |-> idok /\ (e.loop \/ ~intime)]

\* ms since the last activity after the step (as far as the contract determines it)
Idle2(cfg, g, e, s) ==
  LET x == g.x[s] IN
  IF (e.op \in {"act", "reg"} /\ Own(e, s)) \/ (e.op = "reply" /\ Own(e, s) /\ e.a = 1) THEN 0
  ELSE IF IsMgr(cfg) /\ Exp(cfg, g, e, s).valid THEN 0
  ELSE Min2(x.idle + e.dt, cfg.idle)

SessClauses(cfg, g, e, s) ==
  LET x  == g.x[s]
      o  == e.ss[s]
      ex == Exp(cfg, g, e, s)
      quiet == o.iss = 0 /\ o.cb = 0
      same  == o.mon = x.mon /\ o.fails = x.fail /\ o.pend = x.out /\ o.pid = x.oid /\ o.lat = x.lat /\ quiet
  IN
  IF e.op = "reg" /\ Own(e, s)
    THEN IF o.mon /\ o.fails = 0 /\ ~o.pend /\ o.lat = 0 /\ quiet THEN {} ELSE {"Monitoring"}
  ELSE IF e.op = "unreg" /\ Own(e, s)
    THEN IF ~o.mon /\ quiet THEN {} ELSE {"Monitoring"}
  ELSE IF ~x.mon
    THEN IF ~o.mon /\ quiet THEN {} ELSE {"SilentWhenOff"}
  ELSE IF e.op = "reply" /\ Own(e, s)
    THEN IF ex.valid
           THEN IF o.mon /\ o.fails = 0 /\ ~o.pend /\ o.lat = Min2(x.age, AgeCap(cfg)) /\ quiet THEN {} ELSE {"ReplyResets"}
         ELSE IF ex.free
           THEN IF o.mon /\ quiet THEN {} ELSE {"StaleIgnored"}
         ELSE IF same THEN {} ELSE {"StaleIgnored"}
  ELSE IF ex.tick
    THEN LET obsDead == IF IsMgr(cfg) THEN ~o.mon ELSE o.dead
             expDead == IF IsMgr(cfg) THEN ex.dies ELSE ex.fail >= cfg.maxfail
             pend2   == o.iss >= 1 \/ ex.waiting
         IN   (IF (o.mon /\ o.fails > ex.fail) \/ (obsDead /\ ~expDead) THEN {"NoEarlyDead"} ELSE {})
         \cup (IF (o.mon /\ o.fails < ex.fail) \/ (expDead /\ ~obsDead) THEN {"DeadAtMax"} ELSE {})
         \cup (IF ex.echo # -1 /\ o.iss # ex.echo THEN {"EchoCadence"} ELSE {})
         \cup (IF o.mon /\ (\/ o.pend # pend2
                            \/ (o.iss = 0 /\ ex.waiting /\ o.pid # x.oid)
                            \/ (~IsMgr(cfg) /\ o.iss >= 1 /\ o.pid # o.cbid)) THEN {"Outstanding"} ELSE {})
         \cup (IF o.mon /\ o.lat # x.lat THEN {"ReplyResets"} ELSE {})      \* the latency is the last MEASURED round trip
         \cup (IF ~IsMgr(cfg) /\ o.cb >= 1 /\ (~o.wok \/ (x.last # -1 /\ o.cbid = x.last)) THEN {"FreshId"} ELSE {})
  ELSE \* no check, not this session's own reply / registration: nothing may change
       IF same THEN {}
       ELSE IF e.op = "adv" THEN {"SilentWhenOff"}
       ELSE IF e.acc /\ e.s # 0 /\ e.s # s THEN {"Isolation"}
       ELSE {"OnlyChecksCount"}

MgrClauses(cfg, g, e) ==
  LET S == Sess(cfg)
      died(s) == g.x[s].mon /\ ~e.ss[s].mon /\ Exp(cfg, g, e, s).tick
      free    == \E s \in S : Exp(cfg, g, e, s).free
  IN   (IF \E s \in S : e.ss[s].cb # e.ss[s].iss \/ (e.ss[s].iss >= 1 /\ e.ss[s].mon /\ e.ss[s].pid # e.ss[s].cbid) THEN {"EchoSent"} ELSE {})
  \cup (IF NTerms(e, 0) # 0 \/ \E s \in S : NTerms(e, s) # (IF died(s) THEN 1 ELSE 0) THEN {"TerminateOnce"} ELSE {})
  \cup (IF \/ e.st.req # Cardinality({s \in S : e.ss[s].iss >= 1})
           \/ e.st.to # Cardinality({s \in S : Exp(cfg, g, e, s).to})
           \/ e.st.kill # Cardinality({s \in S : Exp(cfg, g, e, s).dies})
           \/ (~free /\ e.st.rep # Cardinality({s \in S : Exp(cfg, g, e, s).valid}))
           \/ \E s \in S : e.ss[s].mon /\ ~Exp(cfg, g, e, s).free /\ e.ss[s].seen # Idle2(cfg, g, e, s)
          THEN {"StatsTrue"} ELSE {})

EdgeClauses(cfg, g, e) ==
  UNION {SessClauses(cfg, g, e, s) : s \in Sess(cfg)} \cup (IF IsMgr(cfg) THEN MgrClauses(cfg, g, e) ELSE {})

\* ---- the next ghost: what the component showed, plus the clocks the contract keeps ---------------
Step(cfg, g, e, obs) ==
  LET run2 == IF Starts(e) THEN "running" ELSE IF Stops(e) THEN "stopped" ELSE g.run
      tick == e.op = "adv" /\ NT(cfg, g, e) = 1
  IN [run    |-> run2,
      since  |-> IF run2 # "running" THEN 0 ELSE (Since0(g, e) + e.dt) % cfg.interval,
      opened |-> e.opened,
      x      |-> [s \in Sess(cfg) |->
                   LET x == g.x[s]
                       o == e.ss[s]
                   IN IF ~o.mon THEN Unmon
                      ELSE [mon  |-> TRUE, fail |-> o.fails, out |-> o.pend, oid |-> Shift(o.pid, o.sh), lat |-> o.lat,
                            age  |-> IF ~o.pend THEN 0
                                     ELSE IF tick /\ o.iss >= 1 THEN Min2(e.dt - TD(cfg, g, e), AgeCap(cfg))
                                     ELSE Min2(x.age + e.dt, AgeCap(cfg)),
                            idle |-> IF IsMgr(cfg) THEN o.seen ELSE Idle2(cfg, g, e, s),
                            last |-> IF e.op = "up" /\ e.acc THEN -1
                                     ELSE Shift(IF o.cb >= 1 THEN o.cbid ELSE x.last, o.sh)]]]

\* IsDead is "failures >= MaxFailures" at every instant
NodeClauses(cfg, g, n, lastop) ==
  IF IsMgr(cfg) THEN {}
  ELSE   (IF \E s \in Sess(cfg) : n.ss[s].dead /\ n.ss[s].fails < cfg.maxfail THEN {"NoEarlyDead"} ELSE {})
    \cup (IF \E s \in Sess(cfg) : ~n.ss[s].dead /\ n.ss[s].fails >= cfg.maxfail THEN {"DeadAtMax"} ELSE {})
=============================================================================
