SPECIFICATION Spec
CONSTANTS Kind = "mgr"  N = 1  Prereg = 1  Fixed = TRUE  MaxLen = 14  Timeout = 16000  MaxFail = 2  Life = FALSE
INVARIANTS Clean GhostTracks
VIEW View
CHECK_DEADLOCK FALSE
