SPECIFICATION Spec
CONSTANTS Mode = "mgr"  MaxT = 5  Timeout = 7000  MaxFail = 2  Rich = FALSE
INVARIANTS AgreeBothWays AcceptedTrue
VIEW View
CHECK_DEADLOCK FALSE
