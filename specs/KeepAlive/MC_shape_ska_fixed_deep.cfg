SPECIFICATION Spec
CONSTANTS Kind = "ska"  N = 1  Prereg = 1  Fixed = TRUE  MaxLen = 18  Timeout = 7000  MaxFail = 2  Life = TRUE
INVARIANTS Clean GhostTracks
VIEW View
CHECK_DEADLOCK FALSE
