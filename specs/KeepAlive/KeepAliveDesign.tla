--------------------------- MODULE KeepAliveDesign ---------------------------
(***************************************************************************)
(* U1: the contract (KeepAlive.tla) is itself model-checked.  The contract  *)
(* judges one observed step at a time against a ghost that is re-read from  *)
(* the component after every step (failure count, what it says it waits     *)
(* for).  Here an arbitrary component produces EVERY possible answer to     *)
(* every step (accepted by the contract or not) and the contract's verdict  *)
(* is compared, step by step, with the guarantee stated directly over the   *)
(* whole history of what was on the WIRE:                                   *)
(*                                                                         *)
(*   rq = the Echo-Requests that left, in order, each with the instant it   *)
(*        left and its fate:                                                *)
(*          "ans"   a reply naming it arrived while it was the latest       *)
(*                  request, within Timeout, before any check counted it    *)
(*          "fail"  a check (tick) found it unanswered and older than       *)
(*                  Timeout                                                 *)
(*          "open"  neither yet                                             *)
(*   Fails(rq)  = the number of consecutive "fail" requests at the end of   *)
(*                rq (an "open" last request not counted)                   *)
(*   the session is dead  iff  Fails(rq) >= MaxFailures                     *)
(*   a check sends a request  iff  the session is not dead, no request is   *)
(*                "open" after the check's own timeout test, and the last   *)
(*                activity is at least IdleThreshold old                    *)
(*                                                                         *)
(* AgreeBothWays : as long as no earlier step was flagged, the contract     *)
(*                 flags a step iff the answer differs from the direct      *)
(*                 statement in the failure count, the dead flag, the       *)
(*                 requests sent, or in what the component says it waits    *)
(*                 for (which must be exactly the "open" request)           *)
(* AcceptedTrue  : hence for every history the contract accepts: the        *)
(*                 failure count is Fails(rq), dead iff Fails(rq) >= Max    *)
(*                 (never earlier, never later), one request per idle check *)
(* Mode "mgr" checks the same for the manager's extra clauses on one        *)
(* session: the callbacks (EchoSent, TerminateOnce) and the statistics.     *)
(***************************************************************************)
EXTENDS KeepAlive

CONSTANTS Mode, MaxT, Timeout, MaxFail

Ivl == 10000
IdleThr == 12000
Cfg == [impl |-> "design", kind |-> Mode, n |-> 1, prereg |-> 1, prestarted |-> TRUE,
        interval |-> Ivl, timeout |-> Timeout, idle |-> IdleThr, maxfail |-> MaxFail, nsubs |-> 0]
M == Mode = "mgr"

VARIABLES g, steps, T, rq, lastAct, lat, gone, flagged, last

vars == <<g, steps, T, rq, lastAct, lat, gone, flagged, last>>

\* ---- the direct statement ------------------------------------------------------------------------
RECURSIVE Trail(_, _)
Trail(q, k) == IF k = 0 \/ q[k].st # "fail" THEN 0 ELSE 1 + Trail(q, k - 1)
Fails(q) == LET k == IF Len(q) > 0 /\ q[Len(q)].st = "open" THEN Len(q) - 1 ELSE Len(q) IN Trail(q, k)
Open(q)  == Len(q) > 0 /\ q[Len(q)].st = "open"

\* ---- every answer a component can give ------------------------------------------------------------
\* core: what every kind shows; extra: the manager's callbacks and statistics.  The clauses about the two groups are
\* independent of each other, so the groups are varied one at a time (the other one as the direct statement says).
Core  == [mon : IF M THEN BOOLEAN ELSE {TRUE}, fails : 0..FailCap(Cfg), pid : {-1, 0, 1, 7}, lat : {0, 5000, 15000},
          dead : IF M THEN {FALSE} ELSE BOOLEAN, cb : {0, 1}]
Extra == [iss : {0, 1}, terms : {<<>>, <<1>>}, req : {0, 1}, rep : {0, 1}, to : {0, 1}, kill : {0, 1}, seen : {0, 5000, 10000, 12000}]
\* only answers in canonical form (the projection the harness applies) are distinct answers
Canon(o) == ~o.mon => (o.fails = 0 /\ o.pid = -1 /\ o.lat = 0)

\* the harness' part of the answer follows from the component's: identifiers relative to the counter
Edge(op, w, a, rid, dt, o, x) ==
  [op |-> op, s |-> IF op = "adv" THEN 0 ELSE 1, w |-> w, a |-> a, acc |-> TRUE, dt |-> dt, rid |-> rid, loop |-> FALSE,
   run |-> "running", opened |-> TRUE, other |-> 0,
   terms |-> IF M THEN x.terms ELSE <<>>,
   st |-> IF M THEN [req |-> x.req, rep |-> x.rep, to |-> x.to, kill |-> x.kill] ELSE [req |-> 0, rep |-> 0, to |-> 0, kill |-> 0],
   ss |-> <<[mon |-> o.mon, fails |-> o.fails, pend |-> o.pid # -1, pid |-> o.pid, lat |-> o.lat, dead |-> o.dead,
             iss |-> IF M THEN x.iss ELSE o.cb, cb |-> o.cb, cbid |-> IF o.cb = 1 THEN 1 ELSE -1, wok |-> TRUE,
             seen |-> IF M /\ o.mon THEN x.seen ELSE 0, sh |-> o.cb]>>]

Init == /\ g = G0(Cfg) /\ steps = 0 /\ T = 0 /\ rq = <<>> /\ lastAct = -(Ivl \div 2) /\ lat = 0 /\ gone = FALSE
        /\ flagged = FALSE /\ last = [contract |-> FALSE, direct |-> FALSE, fails |-> 0, dfails |-> 0, dead |-> FALSE]

\* the latest request is named 0 in the identifier frame after the step that sent it
Ops == {<<"adv", "", 0>>, <<"act", "", 0>>, <<"reply", "match", 0>>, <<"reply", "stale", 0>>, <<"reply", "match", 1>>}

\* the direct model of one step; cb = a request left in this step (the only thing it takes from the answer)
Direct(opw, cb) ==
  LET op   == opw[1]
      isM  == op = "reply" /\ opw[2] = "match"
      dt   == IF op = "adv" THEN Ivl ELSE 0
      Tt   == T + Ivl \div 2                                      \* the instant of this step's check
      n    == Len(rq)
      tout == op = "adv" /\ Open(rq) /\ Tt - rq[n].sent > Timeout
      rq1  == IF tout THEN [rq EXCEPT ![n].st = "fail"] ELSE rq
      hit  == isM /\ Open(rq) /\ T - rq[n].sent <= Timeout
      rq2  == IF hit THEN [rq EXCEPT ![n].st = "ans"] ELSE rq1
      f2   == Fails(rq2)
      diesNow   == tout /\ f2 >= MaxFail /\ Fails(rq) < MaxFail
      deadAfter == f2 >= MaxFail
      act2 == IF op = "act" \/ (op = "reply" /\ opw[3] = 1) \/ (M /\ hit) THEN T ELSE lastAct
      rq3  == IF cb = 1 THEN Append(rq2, [sent |-> Tt, st |-> "open"]) ELSE rq2
      mon2 == ~(M /\ diesNow)
  IN [dt |-> dt, rq |-> rq3, act |-> act2, mon |-> mon2, deadAfter |-> deadAfter,
      f |-> Min2(f2, FailCap(Cfg)),
      lat |-> IF hit THEN T - rq[n].sent ELSE lat,
      wantEcho |-> op = "adv" /\ ~deadAfter /\ ~Open(rq2) /\ Tt - act2 >= IdleThr,
      silent |-> op = "adv" /\ deadAfter /\ ~M,            \* ska: requests to a dead session are not constrained
      core |-> IF mon2 THEN [mon |-> TRUE, fails |-> Min2(f2, FailCap(Cfg)), pid |-> IF Open(rq3) THEN (IF cb = 1 THEN 1 ELSE 0) ELSE -1,
                             lat |-> IF hit THEN T - rq[n].sent ELSE lat, dead |-> ~M /\ deadAfter, cb |-> cb]
               ELSE [mon |-> FALSE, fails |-> 0, pid |-> -1, lat |-> 0, dead |-> FALSE, cb |-> cb],
      extra |-> [iss |-> cb, terms |-> IF diesNow THEN <<1>> ELSE <<>>, req |-> cb, rep |-> IF hit THEN 1 ELSE 0,
                 to |-> IF tout THEN 1 ELSE 0, kill |-> IF diesNow THEN 1 ELSE 0, seen |-> IF mon2 THEN Min2((T + dt) - act2, IdleThr) ELSE 0]]

Take(opw, o, x) ==
  LET op  == opw[1]
      d   == Direct(opw, o.cb)
      rid == IF op # "reply" THEN -1 ELSE IF opw[2] = "match" THEN 0 ELSE 100
      e   == Edge(op, opw[2], opw[3], rid, d.dt, o, x)
      cl  == EdgeClauses(Cfg, g, e) \cup NodeClauses(Cfg, Step(Cfg, g, e, <<>>), [ss |-> e.ss], op)
      echoOK == d.silent \/ o.cb = (IF d.wantEcho THEN 1 ELSE 0)
      xn  == IF o.mon THEN x ELSE [x EXCEPT !.seen = 0]           \* lastSeen of a session that is not monitored is not observable
      diff == o # d.core \/ ~echoOK \/ (M /\ xn # d.extra)
  IN /\ last' = [contract |-> cl # {}, direct |-> diff, fails |-> o.fails, dfails |-> d.core.fails, dead |-> o.dead # d.core.dead]
     /\ flagged' = (cl # {})
     /\ g' = Step(Cfg, g, e, <<>>)
     /\ rq' = d.rq /\ T' = T + d.dt /\ lastAct' = d.act /\ lat' = d.lat /\ gone' = ~d.mon
     /\ steps' = steps + 1

Next ==
  /\ steps < MaxT /\ ~flagged /\ ~gone
  /\ \E opw \in Ops :
       /\ (opw[1] = "reply" => Len(rq) > 0)                        \* the peer answers only what it has seen
       /\ \/ \E o \in Core : Canon(o) /\ Take(opw, o, Direct(opw, o.cb).extra)
          \/ M /\ \E cb \in {0, 1}, x \in Extra : Take(opw, Direct(opw, cb).core, x)

Spec == Init /\ [][Next]_vars

AgreeBothWays == last.contract = last.direct
AcceptedTrue  == ~flagged => (last.fails = last.dfails /\ ~last.dead)

\* absolute instants are only compared with each other; MaxT keeps the model finite
View == vars
=============================================================================
