--------------------------- MODULE KeepAliveDesign ---------------------------
(***************************************************************************)
(* U1: the contract (KeepAlive.tla) is itself model-checked.  The contract  *)
(* judges one observed step at a time against a ghost that is re-read from  *)
(* the component after every step (failure count, what it says it waits     *)
(* for).  Here an arbitrary component produces EVERY possible answer to     *)
(* every step (accepted by the contract or not) and the contract's verdict  *)
(* is compared, step by step, with the guarantee stated directly over the   *)
(* whole history of what was on the WIRE:                                   *)
(*                                                                         *)
(*   rq = the Echo-Requests that left, in order, each with the instant it   *)
(*        left and its fate:                                                *)
(*          "ans"   a reply naming it arrived while it was the latest       *)
(*                  request, within Timeout, before any check counted it    *)
(*          "fail"  a check (tick) found it unanswered and older than       *)
(*                  Timeout                                                 *)
(*          "open"  neither yet                                             *)
(*   Fails(rq)  = the number of consecutive "fail" requests at the end of   *)
(*                rq (an "open" last request not counted)                   *)
(*   the session is dead  iff  Fails(rq) >= MaxFailures                     *)
(*   a check sends a request  iff  the session is not dead, no request is   *)
(*                "open" after the check's own timeout test, and the last   *)
(*                activity is at least IdleThreshold old                    *)
(*                                                                         *)
(* AgreeBothWays : after every history the contract has accepted so far     *)
(*                 (checked as a state invariant over ALL answers to ALL    *)
(*                 next steps; only accepted histories are continued) it    *)
(*                 flags a step iff the answer differs from the direct      *)
(*                 statement in the failure count, the dead flag, the       *)
(*                 requests sent, or in what the component says it waits    *)
(*                 for (which must be exactly the "open" request)           *)
(* AcceptedTrue  : hence for every history the contract accepts: the        *)
(*                 failure count is Fails(rq), dead iff Fails(rq) >= Max    *)
(*                 (never earlier, never later), one request per idle check *)
(* Mode "mgr" checks the same for the manager's extra clauses on one        *)
(* session: the callbacks (EchoSent, TerminateOnce) and the statistics.     *)
(***************************************************************************)
EXTENDS KeepAlive

CONSTANTS Mode, MaxT, Timeout, MaxFail, Rich

Ivl == 10000
IdleThr == 12000
Cfg == [impl |-> "design", kind |-> Mode, n |-> 1, prereg |-> 1, prestarted |-> TRUE,
        interval |-> Ivl, timeout |-> Timeout, idle |-> IdleThr, maxfail |-> MaxFail, nsubs |-> 0]
M == Mode = "mgr"

VARIABLES g, steps, T, rq, lastAct, lat, gone, last

vars == <<g, steps, T, rq, lastAct, lat, gone, last>>

\* ---- the direct statement ------------------------------------------------------------------------
RECURSIVE Trail(_, _)
Trail(q, k) == IF k = 0 \/ q[k].st # "fail" THEN 0 ELSE 1 + Trail(q, k - 1)
Fails(q) == LET k == IF Len(q) > 0 /\ q[Len(q)].st = "open" THEN Len(q) - 1 ELSE Len(q) IN Trail(q, k)
Open(q)  == Len(q) > 0 /\ q[Len(q)].st = "open"

\* ---- every answer a component can give ------------------------------------------------------------
\* core: what every kind shows; extra: the manager's callbacks and statistics.  The clauses about the two groups are
\* independent of each other, so the groups are varied one at a time (the other one as the direct statement says).
\* Rich = FALSE (quick tier) leaves out the values that only repeat a kind of deviation already present
Core  == [mon : IF M THEN BOOLEAN ELSE {TRUE}, fails : 0..FailCap(Cfg), pid : IF Rich THEN {-1, 0, 1, 7} ELSE {-1, 0, 1},
          lat : IF Rich \/ Timeout > Ivl THEN {0, 5000, 15000} ELSE {0, 5000},
          dead : IF M THEN {FALSE} ELSE BOOLEAN, cb : {0, 1}]
Extra == [iss : {0, 1}, terms : {<<>>, <<1>>}, req : {0, 1}, rep : {0, 1}, to : {0, 1}, kill : {0, 1},
          seen : IF Rich THEN {0, 5000, 10000, 12000} ELSE {0, 5000, 12000}]
\* only answers in canonical form (the projection the harness applies) are distinct answers
Canon(o) == ~o.mon => (o.fails = 0 /\ o.pid = -1 /\ o.lat = 0)

\* the harness' part of the answer follows from the component's: identifiers relative to the counter
Edge(op, w, a, rid, dt, o, x) ==
  [op |-> op, s |-> IF op = "adv" THEN 0 ELSE 1, w |-> w, a |-> a, acc |-> TRUE, dt |-> dt, rid |-> rid, loop |-> FALSE,
   run |-> "running", opened |-> TRUE, other |-> 0,
   terms |-> IF M THEN x.terms ELSE <<>>,
   st |-> IF M THEN [req |-> x.req, rep |-> x.rep, to |-> x.to, kill |-> x.kill] ELSE [req |-> 0, rep |-> 0, to |-> 0, kill |-> 0],
   ss |-> <<[mon |-> o.mon, fails |-> o.fails, pend |-> o.pid # -1, pid |-> o.pid, lat |-> o.lat, dead |-> o.dead,
             iss |-> IF M THEN x.iss ELSE o.cb, cb |-> o.cb, cbid |-> IF o.cb = 1 THEN 1 ELSE -1, wok |-> TRUE,
             seen |-> IF M /\ o.mon THEN x.seen ELSE 0, sh |-> o.cb]>>]

Init == /\ g = G0(Cfg) /\ steps = 0 /\ T = 0 /\ rq = <<>> /\ lastAct = -(Ivl \div 2) /\ lat = 0 /\ gone = FALSE
        /\ last = [fails |-> 0, dfails |-> 0, dead |-> FALSE, ddead |-> FALSE, reqs |-> 0]

\* the latest request is named 0 in the identifier frame after the step that sent it
Ops == {<<"adv", "", 0>>, <<"act", "", 0>>, <<"reply", "match", 0>>, <<"reply", "stale", 0>>, <<"reply", "match", 1>>}

\* the direct model of one step; cb = a request left in this step (the only thing it takes from the answer)
Direct(opw, cb) ==
  LET op   == opw[1]
      isM  == op = "reply" /\ opw[2] = "match"
      dt   == IF op = "adv" THEN Ivl ELSE 0
      Tt   == T + Ivl \div 2                                      \* the instant of this step's check
      n    == Len(rq)
      tout == op = "adv" /\ Open(rq) /\ Tt - rq[n].sent > Timeout
      rq1  == IF tout THEN [rq EXCEPT ![n].st = "fail"] ELSE rq
      hit  == isM /\ Open(rq) /\ T - rq[n].sent <= Timeout
      rq2  == IF hit THEN [rq EXCEPT ![n].st = "ans"] ELSE rq1
      f2   == Fails(rq2)
      diesNow   == tout /\ f2 >= MaxFail /\ Fails(rq) < MaxFail
      deadAfter == f2 >= MaxFail
      act2 == IF op = "act" \/ (op = "reply" /\ opw[3] = 1) \/ (M /\ hit) THEN T ELSE lastAct
      rq3  == IF cb = 1 THEN Append(rq2, [sent |-> Tt, st |-> "open"]) ELSE rq2
      mon2 == ~(M /\ diesNow)
  IN [dt |-> dt, rq |-> rq3, act |-> act2, mon |-> mon2, deadAfter |-> deadAfter,
      f |-> Min2(f2, FailCap(Cfg)),
      lat |-> IF hit THEN T - rq[n].sent ELSE lat,
      wantEcho |-> op = "adv" /\ ~deadAfter /\ ~Open(rq2) /\ Tt - act2 >= IdleThr,
      \* ska: whether a dead session that is idle and has nothing open is sent further requests is not constrained
      silent |-> op = "adv" /\ deadAfter /\ ~M /\ ~Open(rq2) /\ Tt - act2 >= IdleThr,
      core |-> IF mon2 THEN [mon |-> TRUE, fails |-> Min2(f2, FailCap(Cfg)), pid |-> IF Open(rq3) THEN (IF cb = 1 THEN 1 ELSE 0) ELSE -1,
                             lat |-> IF hit THEN T - rq[n].sent ELSE lat, dead |-> ~M /\ deadAfter, cb |-> cb]
               ELSE [mon |-> FALSE, fails |-> 0, pid |-> -1, lat |-> 0, dead |-> FALSE, cb |-> cb],
      extra |-> [iss |-> cb, terms |-> IF diesNow THEN <<1>> ELSE <<>>, req |-> cb, rep |-> IF hit THEN 1 ELSE 0,
                 to |-> IF tout THEN 1 ELSE 0, kill |-> IF diesNow THEN 1 ELSE 0, seen |-> IF mon2 THEN Min2((T + dt) - act2, IdleThr) ELSE 0]]

\* one answer judged twice: by the contract (cl) and by the direct statement (diff)
Judge(opw, o, x) ==
  LET op  == opw[1]
      d   == Direct(opw, o.cb)
      rid == IF op # "reply" THEN -1 ELSE IF opw[2] = "match" THEN 0 ELSE 100
      e   == Edge(op, opw[2], opw[3], rid, d.dt, o, x)
      g2  == Step(Cfg, g, e, <<>>)
      cl  == EdgeClauses(Cfg, g, e) \cup NodeClauses(Cfg, g2, [ss |-> e.ss], op)
      echoOK == d.silent \/ o.cb = (IF d.wantEcho THEN 1 ELSE 0)
      xn  == IF o.mon THEN x ELSE [x EXCEPT !.seen = 0]           \* lastSeen of a session that is not monitored is not observable
  IN [contract |-> cl # {}, direct |-> o # d.core \/ ~echoOK \/ (M /\ xn # d.extra), g2 |-> g2, d |-> d]

Possible(opw) == opw[1] = "reply" => Len(rq) > 0                  \* the peer answers only what it has seen
Live == steps < MaxT /\ ~gone

\* every answer to every step that can follow the history so far: the two verdicts coincide
AgreeBothWays ==
  Live => \A opw \in Ops : Possible(opw) =>
            /\ \A o \in Core : Canon(o) => LET j == Judge(opw, o, Direct(opw, o.cb).extra) IN j.contract = j.direct
            /\ M => \A cb \in {0, 1}, x \in Extra : LET j == Judge(opw, Direct(opw, cb).core, x) IN j.contract = j.direct

\* the histories the contract accepts are continued (by AgreeBothWays an accepted answer is the direct statement's,
\* with or without a request where the statement is silent)
Next ==
  /\ Live
  /\ \E opw \in Ops, cb \in {0, 1} :
       LET d == Direct(opw, cb)
           j == Judge(opw, d.core, d.extra)
       IN /\ Possible(opw)
          /\ ~j.contract
          /\ last' = [fails |-> d.core.fails, dfails |-> d.f, dead |-> d.core.dead, ddead |-> ~M /\ d.deadAfter, reqs |-> Len(d.rq)]
          /\ g' = j.g2
          /\ rq' = d.rq /\ T' = T + d.dt /\ lastAct' = d.act /\ lat' = d.lat /\ gone' = ~d.mon
          /\ steps' = steps + 1

Spec == Init /\ [][Next]_vars

\* hence on every accepted history: the count the component shows is Fails(rq), dead iff Fails(rq) >= MaxFailures
AcceptedTrue == gone \/ (last.fails = last.dfails /\ last.dead = last.ddead /\ g.x[1].fail = Min2(Fails(rq), FailCap(Cfg)))

\* absolute instants are only compared with each other; MaxT keeps the model finite
View == vars
=============================================================================
