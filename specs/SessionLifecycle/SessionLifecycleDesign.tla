---------------------- MODULE SessionLifecycleDesign ----------------------
(***************************************************************************)
(* U1: the SessionLifecycle contract implies property C16.                  *)
(*                                                                         *)
(* A small resource-lifecycle model.  The concrete state is, per session,   *)
(* the set of resource kinds it currently holds (res) - "addr" (pool entry, *)
(* lease/session table entry and its indexes), "cache" (fast-path entries   *)
(* by MAC, VLAN pair and circuit-id), "nat", "qos" - plus a history h kept   *)
(* by the model itself (NOT the contract's ghost): whether the session is   *)
(* live / ended, whether a Start was issued, how many Stops, how many        *)
(* releases.  Session s uses address unit s.                                 *)
(*                                                                         *)
(* Establish is split into sub-steps: any step may add any resources to the  *)
(* session, be acknowledged or not, issue a Start or not.  End(path) may be  *)
(* ANY answer the contract accepts: it may drop any subset of the targets'   *)
(* resources, issue 0..2 Stops, release 0..2 times, and damage one resource  *)
(* of another session - Next keeps exactly those End steps on which          *)
(* EdgeClauses is empty.  TLC then checks the property, stated on res and h: *)
(*   EndedClean  an ended, not re-established session holds nothing and has  *)
(*               exactly one Stop if it had a Start           (invariant)    *)
(*   TwiceNoEffect, OthersKept                        (action properties)    *)
(***************************************************************************)
EXTENDS SessionLifecycle

CONSTANTS NSess, Kinds, Paths

Cfg == [nsess |-> NSess, nunits |-> NSess + 1]
S   == 1..NSess

SortedSeq(A) == CHOOSE q \in [1..Cardinality(A) -> A] : (\A i, j \in 1..Cardinality(A) : i < j => q[i] < q[j])

\* the harness' projection of the concrete state
Obs(r) == [pool  |-> [s \in S |-> IF "addr" \in r[s] THEN s ELSE -1],
           tab   |-> [s \in S |-> IF "addr" \in r[s] THEN s ELSE -1],
           idx   |-> [s \in S |-> "addr" \in r[s]],
           cmac  |-> [s \in S |-> "cache" \in r[s]],
           cvlan |-> [s \in S |-> "cache" \in r[s]],
           ccid  |-> [s \in S |-> "cache" \in r[s]],
           nat   |-> SortedSeq({s \in S : "nat" \in r[s]}),
           qos   |-> SortedSeq({s \in S : "qos" \in r[s]})]

VARIABLES res, g, h, last
vars == <<res, g, h, last>>

H0 == [live |-> [s \in S |-> FALSE], ended |-> [s \in S |-> FALSE], started |-> [s \in S |-> FALSE],
       stops |-> [s \in S |-> 0]]
NoStep == [end |-> FALSE, T |-> {}, dstop |-> <<0, 0>>, drel |-> <<0, 0>>, npaths |-> 1]

ASSUME NSess = 2
Init == res = <<{}, {}>> /\ g = G0(Cfg) /\ h = H0 /\ last = NoStep

Zero == <<0, 0>>

\* one establishment sub-step of session s
Est(s) == \E R \in SUBSET Kinds, acked \in BOOLEAN, start \in BOOLEAN :
  LET e   == [op |-> "EST", s |-> s, path |-> "none", est |-> TRUE, npaths |-> 1, acked |-> acked, skipped |-> FALSE,
              dstart |-> [t \in S |-> IF t = s /\ start THEN 1 ELSE 0], dstop |-> Zero, drel |-> Zero]
      r2  == [res EXCEPT ![s] = @ \cup R]
      new == acked /\ ~h.live[s]
  IN /\ (start => acked \/ h.live[s])       \* a Start belongs to an acknowledged session
     /\ (({"nat", "qos"} \cap R) # {} => "addr" \in r2[s])   \* NAT block and QoS policy are keyed by the session's address
     /\ (~acked /\ ~h.live[s] => R \subseteq {"addr"})       \* before the session is acknowledged only an address is reserved (an offer)
     /\ res' = r2
     /\ g' = Step(Cfg, g, e, Obs(res), Obs(r2))
     /\ h' = [live    |-> [h.live EXCEPT ![s] = @ \/ acked],
              ended   |-> [h.ended EXCEPT ![s] = FALSE],
              started |-> [h.started EXCEPT ![s] = (IF new THEN FALSE ELSE @) \/ start],
              stops   |-> [h.stops EXCEPT ![s] = IF new THEN 0 ELSE @]]
     /\ last' = NoStep

\* one end step: kept only if the contract accepts it (ending never creates resources: r2 is given
\* as subsets of res)
EndStep(p, tgt, np, T, r2, dstop, drel) ==
  LET e == [op |-> "END", s |-> tgt, path |-> p, est |-> FALSE, npaths |-> np, acked |-> FALSE, skipped |-> FALSE,
            dstart |-> Zero, dstop |-> dstop, drel |-> drel]
  IN /\ EdgeClauses(Cfg, g, e, Obs(res), Obs(r2)) = {}
     /\ res' = r2
     /\ g' = Step(Cfg, g, e, Obs(res), Obs(r2))
     /\ h' = [live    |-> [s \in S |-> h.live[s] /\ s \notin T],
              ended   |-> [s \in S |-> h.ended[s] \/ (s \in T /\ h.live[s])],
              started |-> h.started,
              stops   |-> [s \in S |-> IF h.live[s] \/ h.ended[s] THEN h.stops[s] + dstop[s] ELSE h.stops[s]]]
     /\ last' = [end |-> TRUE, T |-> T, dstop |-> dstop, drel |-> drel, npaths |-> np]

\* an end event, by np paths at once, on one session tgt: it may drop any of tgt's resources, issue 0..2
\* Stops and release 0..2 times for it, and damage the other session o (drop one resource, issue a Stop)
EndOne(p, tgt, np) ==
  LET o == 3 - tgt IN
  \E a \in SUBSET res[tgt], ds, dr \in 0..2, k \in res[o] \cup {"none"}, dso \in 0..1 :
    LET r2    == [s \in S |-> IF s = tgt THEN a ELSE res[o] \ {k}]
        dstop == [s \in S |-> IF s = tgt THEN ds ELSE dso]
        drel  == [s \in S |-> IF s = tgt THEN dr ELSE 0]
    IN EndStep(p, tgt, np, {tgt}, r2, dstop, drel)

\* an end event on every session (shutdown, a cleanup tick)
EndAll(p, np) ==
  \E a \in SUBSET res[1], b \in SUBSET res[2], ds1, dr1 \in 0..2, ds2, dr2 \in 0..1 :
    \/ EndStep(p, 0, np, S, <<a, b>>, <<ds1, ds2>>, <<dr1, dr2>>)
    \/ EndStep(p, 0, np, S, <<a, b>>, <<ds2, ds1>>, <<dr2, dr1>>)

Next == \/ \E s \in S : Est(s)
        \/ \E p \in Paths, np \in 1..2 : EndAll(p, np) \/ \E tgt \in S : EndOne(p, tgt, np)
Spec == Init /\ [][Next]_vars

\* ---- property C16 on the concrete state and the model's own history ----
EndedClean == \A s \in S : h.ended[s] => res[s] = {} /\ (h.started[s] => h.stops[s] = 1)

TwiceNoEffect == [][last'.end =>
  /\ \A s \in last'.T : h.ended[s] => res'[s] = res[s] /\ last'.dstop[s] = 0 /\ last'.drel[s] = 0
  /\ \A s \in last'.T : h.live[s] /\ last'.npaths > 1 => last'.dstop[s] <= 1 /\ last'.drel[s] <= 1]_vars

OthersKept == [][last'.end =>
  \A t \in S \ last'.T : h.live[t] => res'[t] = res[t] /\ last'.dstop[t] = 0 /\ last'.drel[t] = 0]_vars

\* the contract's ghost agrees with the model's own history (the ghost is maintained only from what
\* the harness can see)
GhostAgrees == \A s \in S : (g.st[s] = "live") = h.live[s] /\ (g.st[s] = "ended" => ~h.live[s])

\* Stops for an ended session that never had a Start are unconstrained (and irrelevant): bound the counters
Bounded == \A s \in S : g.stops[s] <= 2 /\ h.stops[s] <= 2
View == <<res, g, h>>
=============================================================================
