SPECIFICATION Spec
CONSTANT Guarded = FALSE
INVARIANTS ReleasedOnce Ended
CHECK_DEADLOCK FALSE
