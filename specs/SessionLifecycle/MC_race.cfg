SPECIFICATION Spec
CONSTANT Guarded = TRUE
INVARIANTS ReleasedOnce Ended
CHECK_DEADLOCK FALSE
