SPECIFICATION Spec
CONSTANTS NSess = 2  Kinds = {"addr", "nat"}  Paths = {"release"}
INVARIANTS EndedClean GhostAgrees
PROPERTIES TwiceNoEffect OthersKept
CONSTRAINT Bounded
VIEW View
CHECK_DEADLOCK FALSE
