---------------------- MODULE SessionLifecycleImpl ----------------------
(* Walks the transition tables / chains extracted from the real session-ending  *)
(* code (bundle.json written by harness/lifecycle: dhcp.Server, pppoe.Server,   *)
(* pppoe.SessionTeardown, subscriber.Manager) and judges every end event against *)
(* the SessionLifecycle contract (monitor style, see PoolImpl.tla).              *)
EXTENDS SessionLifecycle, Json, SequencesExt

CONSTANT Watch
Bundle == JsonDeserialize("bundle.json")
Systems == Bundle.systems

VARIABLES sys, node, g, viol, path, lastop, cov
vars == <<sys, node, g, viol, path, lastop, cov>>

Cfg(i) == Systems[i].cfg
NodeOf(i, n) == Systems[i].nodes[n]
EdgesOf(i, n) == Systems[i].edges[n]

\* which clause antecedents the step exercises (evidence of non-vacuity only, never a verdict):
\* L = ends a live session, E = hits an ended session, O = another session is live meanwhile
Exercised(cfg, gg, e) ==
  IF ~IsEnd(e) THEN {} ELSE
  LET T == Targets(cfg, e) IN
       (IF \E s \in T : gg.st[s] = "live" THEN {"L:" \o e.path} ELSE {})
  \cup (IF \E s \in T : gg.st[s] = "live" /\ gg.started[s] THEN {"S:" \o e.path} ELSE {})
  \cup (IF \E s \in T : gg.st[s] = "live" /\ gg.unit[s] >= 0 THEN {"A:" \o e.path} ELSE {})
  \cup (IF \E s \in T : gg.st[s] = "ended" THEN {"E:" \o e.path} ELSE {})
  \cup (IF \E t \in Sess(cfg) \ T : gg.st[t] = "live" THEN {"O:" \o e.path} ELSE {})
  \cup (IF e.npaths > 1 /\ \E s \in T : gg.st[s] = "live" THEN {"P:" \o e.path} ELSE {})

Init == /\ sys \in 1..Len(Systems)
        /\ node = Systems[sys].init
        /\ g = G0(Cfg(sys))
        /\ lastop = "init"
        /\ viol = {}
        /\ path = <<>>
        /\ cov = {}

Next == /\ viol = {}
        /\ \E k \in 1..Len(EdgesOf(sys, node)) :
             LET ed   == EdgesOf(sys, node)[k]
                 e    == ed.ev
                 pre  == NodeOf(sys, node)
                 post == NodeOf(sys, ed.to)
             IN /\ node' = ed.to
                /\ g' = Step(Cfg(sys), g, e, pre, post)
                /\ lastop' = e.op
                /\ viol' = EdgeClauses(Cfg(sys), g, e, pre, post) \cap Watch
                /\ path' = Append(path, ed.id)
                /\ cov' = Exercised(Cfg(sys), g, e)
                /\ UNCHANGED sys

Spec == Init /\ [][Next]_vars
Report == viol = {} \/ PrintT(<<"VIOLATION", ToJson([system |-> Systems[sys].name, clauses |-> viol, path |-> path])>>)
Cover == cov = {} \/ PrintT(<<"COVER", Systems[sys].cfg.impl, cov>>)
View == <<sys, node, g, viol, lastop, cov>>
=============================================================================
