-------------------------- MODULE SessionLifecycle --------------------------
(***************************************************************************)
(* Contract of session termination (property C16: "Ending a session by any  *)
(* path releases everything it held").                                      *)
(*                                                                         *)
(* A system has cfg.nsess session slots.  An implementation step is an      *)
(* event e between two observations pre, post.                              *)
(*                                                                         *)
(* Observation n (arrays indexed by slot):                                  *)
(*   pool[s]   unit (address index) the address pool / allocator holds for   *)
(*             the session, -1 = none                                       *)
(*   tab[s]    unit the lease / session table binds to the session while it  *)
(*             lists it as active, -1 = none                                *)
(*   idx[s]    a secondary index of that table (MAC, IP, circuit-id) still   *)
(*             resolves to the session                                      *)
(*   cmac[s], cvlan[s], ccid[s]  a fast-path cache entry keyed by the        *)
(*             session's MAC / VLAN pair / circuit-id exists                *)
(*   nat, qos  units that have a NAT block / a QoS policy (sorted seqs)      *)
(* Event e:                                                                 *)
(*   op, s (slot, 0 = every slot), path (the property's name of the end path *)
(*   or "none"), est (establishment step), npaths (how many end paths run    *)
(*   at once), acked (the server acknowledged the establishment step:        *)
(*   DHCPACK, PADS, PAP-Ack, call returned nil), skipped (not applicable),   *)
(*   dstart[s], dstop[s] (Accounting-Start / -Stop records issued for the    *)
(*   session during the step), drel[s] (times the session's address was      *)
(*   handed back to the allocator during the step)                          *)
(*                                                                         *)
(* Ghost g, maintained from the establishment events: per slot              *)
(*   st      "none" | "live" (an establishment step was acknowledged and     *)
(*           no end event since) | "ended"                                  *)
(*   unit    the address the live session holds (as the pool/table showed    *)
(*           it after its establishment steps), -1 = none                   *)
(*   started a Start was issued for the current incarnation                  *)
(*   stops   Stops issued for the current incarnation                        *)
(*                                                                         *)
(* clause           sentence of the property                                *)
(* ---------------  -----------------------------------------------------  *)
(* AfterEndClean    "For every way a subscriber session can end (...),       *)
(*                  afterwards its address is back in the pool, its NAT      *)
(*                  block and QoS policy are removed, no fast-path cache     *)
(*                  entry (by MAC, VLAN pair or circuit-id) still answers    *)
(*                  for it" - judged on the observation right after the end  *)
(*                  event, for every session the event ends; "back in the    *)
(*                  pool" = neither the pool nor the lease/session table     *)
(*                  (incl. its indexes) still binds it to the session        *)
(* OneStop          "and exactly one Accounting-Stop was issued if a Start   *)
(*                  was" (nothing is required if no Start was issued): one   *)
(*                  Stop by the time the end event is over, and no further   *)
(*                  Stop for the ended session by any later event            *)
(* EndIdempotent    "Ending a session twice, or by two paths at once, has no  *)
(*                  further effect": an end event on an ended session issues  *)
(*                  no Stop, releases nothing and leaves the session's        *)
(*                  observation (if it targets only ended sessions: the whole *)
(*                  observation) unchanged; two paths at once issue at most   *)
(*                  one Stop and release the address at most once            *)
(* OthersUntouched  "everything IT held": ending one session does not         *)
(*                  release, stop or change another live session             *)
(* Everything else (what is established, which address, replies, what non-   *)
(* end events do) is unconstrained.                                         *)
(***************************************************************************)
EXTENDS Integers, FiniteSets, Sequences, TLC

EndPaths == {"release", "decline", "expiry", "padt", "lcpterm", "authfail", "idle", "admin", "radiusdisc", "shutdown"}

Sess(cfg) == 1..cfg.nsess
SetOf(q)  == {q[i] : i \in 1..Len(q)}

G0(cfg) == [st      |-> [s \in Sess(cfg) |-> "none"],
            unit    |-> [s \in Sess(cfg) |-> -1],
            started |-> [s \in Sess(cfg) |-> FALSE],
            stops   |-> [s \in Sess(cfg) |-> 0]]

IsEnd(e)        == ~e.skipped /\ e.path \in EndPaths
Targets(cfg, e) == IF e.s = 0 THEN Sess(cfg) ELSE {e.s}

\* the part of an observation that belongs to one session
Proj(n, s)  == <<n.pool[s], n.tab[s], n.idx[s], n.cmac[s], n.cvlan[s], n.ccid[s]>>
Clean(n, s) == n.pool[s] = -1 /\ n.tab[s] = -1 /\ ~n.idx[s] /\ ~n.cmac[s] /\ ~n.cvlan[s] /\ ~n.ccid[s]

\* NAT block and QoS policy are keyed by the address: they are the session's while it holds
\* that address and no other live session outside T does
AddrClean(cfg, g, n, s, T) ==
  \/ g.unit[s] < 0
  \/ \E t \in Sess(cfg) \ T : g.st[t] = "live" /\ g.unit[t] = g.unit[s]
  \/ (g.unit[s] \notin SetOf(n.nat) /\ g.unit[s] \notin SetOf(n.qos))

\* a session that has ended (and was not re-established) and had a Start keeps exactly one Stop,
\* whatever happens later
LateStop(cfg, g, e) ==
  IF ~e.skipped /\ \E s \in Sess(cfg) : g.st[s] = "ended" /\ g.started[s] /\ e.dstop[s] > 0 THEN {"OneStop"} ELSE {}

EdgeClauses(cfg, g, e, pre, post) ==
  IF ~IsEnd(e) THEN LateStop(cfg, g, e) ELSE
  LateStop(cfg, g, e) \cup
  LET T      == Targets(cfg, e)
      Live   == {s \in T : g.st[s] = "live"}
      Ended  == {s \in T : g.st[s] = "ended"}
      Others == {t \in Sess(cfg) \ T : g.st[t] = "live"}
  IN   (IF \E s \in Live : ~Clean(post, s) \/ ~AddrClean(cfg, g, post, s, T) THEN {"AfterEndClean"} ELSE {})
  \cup (IF \E s \in Live : (g.started[s] \/ e.dstart[s] > 0) /\ g.stops[s] + e.dstop[s] # 1 THEN {"OneStop"} ELSE {})
  \cup (IF \/ \E s \in Ended : e.dstop[s] # 0 \/ e.drel[s] # 0 \/ Proj(post, s) # Proj(pre, s)
           \/ (Ended # {} /\ Ended = T /\ post # pre)
           \/ (e.npaths > 1 /\ \E s \in Live : e.dstop[s] > 1 \/ e.drel[s] > 1)
        THEN {"EndIdempotent"} ELSE {})
  \cup (IF \E t \in Others : \/ Proj(post, t) # Proj(pre, t)
                             \/ e.dstop[t] # 0 \/ e.drel[t] # 0
                             \/ (g.unit[t] \in SetOf(pre.nat) /\ g.unit[t] \notin SetOf(post.nat))
                             \/ (g.unit[t] \in SetOf(pre.qos) /\ g.unit[t] \notin SetOf(post.qos))
        THEN {"OthersUntouched"} ELSE {})

Step(cfg, g, e, pre, post) ==
  IF e.skipped THEN g ELSE
  LET T        == Targets(cfg, e)
      Acked(s) == e.est /\ e.acked /\ s = e.s
      Fresh(s) == Acked(s) /\ g.st[s] # "live"
      Ends(s)  == IsEnd(e) /\ s \in T /\ g.st[s] = "live"
      St2(s)   == IF Ends(s) THEN "ended" ELSE IF Acked(s) THEN "live" ELSE g.st[s]
      Held(s)  == IF post.tab[s] >= 0 THEN post.tab[s] ELSE IF post.pool[s] >= 0 THEN post.pool[s]
                  ELSE IF Fresh(s) THEN -1 ELSE g.unit[s]
  IN [st      |-> [s \in Sess(cfg) |-> St2(s)],
      unit    |-> [s \in Sess(cfg) |-> IF St2(s) = "live" THEN Held(s) ELSE -1],
      started |-> [s \in Sess(cfg) |-> IF St2(s) = "none" THEN FALSE
                                       ELSE (IF Fresh(s) THEN FALSE ELSE g.started[s]) \/ e.dstart[s] > 0],
      stops   |-> [s \in Sess(cfg) |-> IF St2(s) = "none" THEN 0
                                       ELSE (IF Fresh(s) THEN 0 ELSE g.stops[s]) + e.dstop[s]]]
=============================================================================
