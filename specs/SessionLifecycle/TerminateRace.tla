--------------------------- MODULE TerminateRace ---------------------------
(***************************************************************************)
(* Implementation-shaped model of subscriber.Manager.TerminateSession      *)
(* (pkg/subscriber/manager.go): one action per critical section.            *)
(*   Mark(p)    under m.mu: session must exist; [Guarded: return if it is    *)
(*              already Terminating;] set State = Terminating; unlock        *)
(*   Release(p) no lock held: allocator.ReleaseIPv4(session.IPv4)            *)
(*   Remove(p)  under m.mu: delete the session and its index entries         *)
(* for two callers p at once.  With Guarded = FALSE (the code before the     *)
(* repair) TLC finds the schedule Mark(1) Mark(2) Release(1) Release(2):     *)
(* the address is released twice (EndIdempotent).  The harness replays both  *)
(* orders of that schedule on the real code through the verif gate           *)
(* "terminate.afterMark" (events TERM2/12, TERM2/21).                        *)
(***************************************************************************)
EXTENDS Integers

CONSTANT Guarded
Procs == {1, 2}

VARIABLES pc, exists, state, releases
vars == <<pc, exists, state, releases>>

Init == pc = [p \in Procs |-> "mark"] /\ exists = TRUE /\ state = "active" /\ releases = 0

Mark(p) == /\ pc[p] = "mark"
           /\ IF ~exists \/ (Guarded /\ state = "terminating")
              THEN pc' = [pc EXCEPT ![p] = "done"] /\ UNCHANGED <<state>>
              ELSE pc' = [pc EXCEPT ![p] = "release"] /\ state' = "terminating"
           /\ UNCHANGED <<exists, releases>>

Release(p) == /\ pc[p] = "release"
              /\ releases' = releases + 1
              /\ pc' = [pc EXCEPT ![p] = "remove"]
              /\ UNCHANGED <<exists, state>>

Remove(p) == /\ pc[p] = "remove"
             /\ exists' = FALSE
             /\ pc' = [pc EXCEPT ![p] = "done"]
             /\ UNCHANGED <<state, releases>>

Next == \E p \in Procs : Mark(p) \/ Release(p) \/ Remove(p)
Spec == Init /\ [][Next]_vars

ReleasedOnce == releases <= 1
Ended == (\A p \in Procs : pc[p] = "done") => ~exists /\ releases = 1
=============================================================================
