SPECIFICATION Spec
CONSTANTS NSess = 2  Kinds = {"addr", "cache", "nat", "qos"}  Paths = {"release", "shutdown"}
INVARIANTS EndedClean GhostAgrees
PROPERTIES TwiceNoEffect OthersKept
CONSTRAINT Bounded
VIEW View
CHECK_DEADLOCK FALSE
